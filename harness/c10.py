"""C10: interactive commands (`LinuxShell.run()` / `RunCommandProxy`) — output, exit status and
early exit are reported faithfully.  Real Bash and Ash drivers against real bash and dash on a pty,
a scripted interactive command, every read re-fragmented, the fragmentation replayed on the Lean
model; afterwards the next command on the machine must be exact."""
import hashlib, itertools
import changen as g
import runimpl
from wire import hx, unhx, lst

KIND = "run"
SPECS = ["C10"]
THEOREMS = ["C10.c10_partial", "C10.split_witness", "C10.split_behaviour", "C10.c10_full_is_false",
            "Run.step_sim", "Run.body_sim", "Run.enter_sim", "Run.next_exact", "Run.terminate_live", "Run.reading_sim",
            "Run.send_sim", "Run.fetchRc_exact", "Run.rup_exact", "Run.status_table", "Run.type_len",
            "C10.machine_refuses", "C10.ownership_c07", "C10.raises_after_end", "C10.terminate_twice", "C10.terminate_rule",
            "C10.terminate0_rule", "C10.reading_rule"]
LEAN_MODULES = ["TbotVerif.Props.C10", "TbotVerif.Props.C10Cor"]
QUICK_N, THOROUGH_N = 600, 20000
QUICK_BUDGET, THOROUGH_BUDGET = 40, 900
CASE_WALL = 25
RULE = ("one run() context per case on a kept-alive machine (bash or dash, READ_CHUNK_SIZE 1/3/64/4096): an interactive "
        "command of 0-4 read-line steps with printed output of 0-10000 bytes between them (CR/LF mixes, prompt prefixes, "
        "UTF-8, control bytes, no final newline), sleeps, exit status 0-255 or end of script, exiting before / between / after "
        "the interaction; a test body of <= 12 operations over send, sendline (with and without read-back), sendcontrol (^C, "
        "^D), expect, read_until_prompt (own prompt and the shell's), read_until_timeout, terminate, terminate0, raise and "
        "uses of the machine's own channel, also after the command has ended and after termination, leaving with and "
        "without terminating; every transport read re-fragmented (1-byte, small, mixed, 4096); then one exec on the machine; "
        "non-trivial = the body interacts (types something or reads) and reaches terminate, an early exit or an exception; "
        "distinct = distinct case lines")
TRUSTED = ["the installed bash 5.2 and dash, and the kernel pty (with controlling terminal), are the remote side",
           "harness/helper/tbvinter.c follows the command script, records the lines it reads and its progress in side files",
           "harness/helper/tbvhelper.c (follow-up command) records argv through a side file",
           "the harness waits (outside tbot) until the command is blocked in its next read or gone before the body types "
           "something or calls read_until_timeout, so that the order of tty echo and program output is determined"]
ASSUMPTIONS = ["the command's output and the echo of what is typed never contain the 23-byte shell prompt",
               "the body types only while the command waits for input, one line per call (no CR/LF except as last byte), "
               "and only bytes that are not on the shell's black-list (the tty's line-editing characters); sendcontrol is ^C or ^D",
               "send(read_back=True) is only specified when nothing is pending",
               "terminate*() is called only for a command that ends without further input; timeouts are positive"]

CTRL_OK = [bytes([c]) for c in (1, 2, 5, 6, 7, 11, 12, 15, 24, 29, 30)]
UTF = ["é".encode(), "✓".encode(), "😀".encode()]
STATUS = [0, 0, 0, 1, 2, 3, 127, 255]


# ---------------------------------------------------------------- light remote simulation (generation only)

def cook(b):
    return b.replace(b"\n", b"\r\n")


def parse_steps(tok):
    return [] if tok == "." else tok.split(",")


def adv(steps, i):
    """run from step i until blocked / gone: (output, index of blocking R or None, status or None)"""
    out = bytearray()
    while i < len(steps):
        s = steps[i]
        if s[0] == "P":
            out += cook(unhx(s[1:]))
        elif s[0] == "R":
            return bytes(out), i, None
        elif s[0] == "X":
            return bytes(out), None, int(s[1:])
        i += 1
    return bytes(out), None, 0


class Sim:
    """what the generator knows: where the command blocks, what is pending (exact until an
    expect / read_until_prompt makes it fragmentation dependent), what the proxy has noticed"""

    def __init__(self, steps, prompt):
        self.steps, self.prompt = steps, prompt
        out, self.at, self.status = adv(steps, 0)
        self.pend = out + (prompt if self.status is not None else b"")
        self.exact = True
        self.phase = "running"      # running | ended | terminated | unknown (ended or running)
        self.lb = False             # a partial line is typed

    @property
    def alive(self):
        return self.status is None

    def type(self, data):
        echo = bytearray()
        for c in data:
            if c == 3:
                echo += b"\x03\r\n" + self.prompt
                self.status, self.at, self.lb = 130, None, False
            elif c == 4:
                if self.lb:
                    self.lb = False       # flushed: the command holds a partial line
                else:
                    self._complete(echo)
            elif c in (10, 13):
                echo += b"\r\n"
                self._complete(echo)
            else:
                echo.append(c)
                self.lb = True
        self.pend += bytes(echo)

    def _complete(self, echo):
        self.lb = False
        out, self.at, self.status = adv(self.steps, self.at + 1)
        echo += out + (self.prompt if self.status is not None else b"")


# ---------------------------------------------------------------- generators

def gen_out(rng, prompt, big_ok):
    k = rng.random()
    if k < 0.08:
        return b""
    if big_ok and k < 0.16:
        return g.rbytes(rng, rng.choice([4095, 4096, 4097, 5000, 10000]), b"abc\n")
    parts = []
    for _ in range(rng.randint(1, 4)):
        r = rng.random()
        if r < 0.45:
            parts.append(g.rbytes(rng, rng.randint(1, 8), b"abc xyz"))
        elif r < 0.65:
            parts.append(rng.choice([b"\n", b"\r\n", b"\n\r", b"\r", b"\n\n"]))
        elif r < 0.78:
            parts.append(prompt[: rng.randint(1, len(prompt) - 1)])
        elif r < 0.88:
            parts.append(rng.choice(UTF + [b"\xff", b"\xc3"]))
        else:
            parts.append(rng.choice([b"\x1b[1m", b"\x00", b"\t", b"\x07", b"> ", b"(gdb) "]))
    out = b"".join(parts)
    if rng.random() < 0.6:
        out += b"\n"
    return out


def gen_steps(rng, prompt, big_ok):
    steps = []
    n_r = rng.choice([0, 1, 1, 2, 2, 3, 4])
    for i in range(n_r + 1):
        for _ in range(rng.choice([0, 1, 1, 2])):
            steps.append("P" + hx(gen_out(rng, prompt, big_ok)))
            if rng.random() < 0.2:
                steps.append("S%d" % rng.choice([1, 3, 8, 15]))
        if i < n_r:
            steps.append("R")
    if rng.random() < 0.8:
        steps.append("X%d" % rng.choice(STATUS + [rng.randint(0, 255)]))
    return steps


def gen_data(rng, bl, prompt):
    k = rng.random()
    if k < 0.1:
        return b""
    if k < 0.16:
        return g.rbytes(rng, rng.choice([505, 510, 511, 512, 513, 600]), b"abc d'")
    parts = []
    for _ in range(rng.randint(1, 3)):
        r = rng.random()
        if r < 0.6:
            parts.append(g.rbytes(rng, rng.randint(1, 5), b"abcXYZ019 -'\"$"))
        elif r < 0.75:
            parts.append(rng.choice(UTF))
        elif r < 0.85:
            parts.append(rng.choice(CTRL_OK))
        elif r < 0.93:
            parts.append(prompt[: rng.randint(1, len(prompt) - 1)])
        else:
            parts.append(bytes([rng.choice(bl)]))      # forbidden: IllegalDataException, nothing sent
    return b"".join(parts)


def pick_pat(rng, sim):
    pend = sim.pend
    if not sim.alive and pend.endswith(sim.prompt):
        pend = pend[: -len(sim.prompt)]          # not a piece of the shell's prompt
    if pend and rng.random() < 0.85:
        n = rng.randint(1, min(5, len(pend)))
        i = rng.randint(0, len(pend) - n)
        return pend[i:i + n]
    if pend and rng.random() < 0.7:
        return pend[-1:] if sim.alive else pend[:1]
    return rng.choice([b"\x00NOPE", b"zzzz"])


def gen_ops(rng, steps, prompt, bl):
    sim = Sim(steps, prompt)
    ops = []
    n = rng.choice([1, 2, 3, 4, 5, 6, 8, 10, 12])
    plan_end = rng.choice(["term", "term", "term", "term0", "term0", "leave", "raise"])
    forbidden = lambda d: any(c in bl for c in d)

    def read_op():
        r = rng.random()
        if r < 0.4:
            ops.append("rut:%d" % rng.choice([30, 50, 80]))
            if sim.phase == "running":
                if not sim.alive:
                    sim.phase = "ended"
                sim.pend, sim.exact = b"", True
        elif r < (0.75 if sim.alive else 0.48):
            # (a value-returning read of a command that is gone may stop inside the shell's prompt:
            # the known finding; kept rare)
            pats = [pick_pat(rng, sim) for _ in range(rng.choice([1, 1, 2]))]
            hit = any(p in sim.pend for p in pats) or not sim.alive
            ops.append("ex:%d:%s" % (1500 if hit else 150, lst("L" + hx(p) for p in pats)))
            if sim.phase == "running":
                sim.exact = False
                if not sim.alive:
                    sim.phase = "unknown"
        elif r < 0.9 and sim.alive and sim.pend and sim.phase == "running":
            k = rng.randint(1, min(4, len(sim.pend)))
            ops.append("rup:L%s:1500" % hx(sim.pend[-k:]))
            sim.exact = False
        elif sim.alive and rng.random() < 0.7:
            return read_op()
        else:
            # the shell's own prompt: only ends (by exception) when the command is gone
            ops.append("rup:-:%d" % (1500 if not sim.alive else 150))
            if sim.phase == "running":
                if not sim.alive:
                    sim.phase = "ended"
                sim.pend, sim.exact = b"", True

    def write_op():
        r = rng.random()
        if r < 0.08:
            n_ = rng.choice([3, 3, 4])
            if n_ == 4 and sim.lb:
                n_ = 3
            ops.append("c:%d" % n_)
            if sim.phase == "running":
                sim.type(bytes([n_]))
            return
        data = gen_data(rng, bl, prompt)
        line = rng.random() < 0.8
        if not line and rng.random() < 0.3:
            data += rng.choice([b"\n", b"\r"])
        payload = data + (b"\r" if line else b"")
        rb = sim.exact and not sim.pend and rng.random() < 0.6
        ops.append("%s:%s:%d" % ("l" if line else "s", hx(data), rb))
        if payload and not forbidden(payload) and sim.phase == "running":
            sim.type(payload)
            if rb:
                nl = payload.count(b"\r") + payload.count(b"\n")
                sim.pend = sim.pend[len(payload) + nl:]

    while len(ops) < n:
        left = n - len(ops)
        if rng.random() < 0.06:
            ops.append("probe:%d" % rng.randint(0, 5))
            continue
        if rng.random() < 0.04:
            ops.append("w")
            continue
        if sim.phase in ("ended", "terminated"):
            # everything raises now; a little of everything
            if sim.phase == "ended" and (left == 1 or rng.random() < 0.5) and plan_end in ("term", "term0"):
                ops.append(plan_end)
                sim.phase = "terminated"
            elif rng.random() < 0.5:
                read_op()
            elif rng.random() < 0.7:
                ops.append("%s:%s:%d" % (rng.choice("sl"), hx(g.rbytes(rng, rng.randint(1, 3), b"ab")), rng.random() < 0.3))
            elif rng.random() < 0.5:
                ops.append("c:%d" % rng.choice([3, 4]))
            else:
                ops.append(rng.choice(["term", "term0"]))
                if sim.phase == "ended":
                    sim.phase = "terminated"
            continue
        if sim.alive and sim.phase == "running":
            if left == 1 and plan_end in ("term", "term0"):
                # the command must be gone before terminate: kill it
                ops.append("c:3")
                sim.type(b"\x03")
                n += 1
                continue
            if rng.random() < 0.55:
                write_op()
            else:
                read_op()
            continue
        # the command is gone (and the proxy may or may not know)
        if plan_end in ("term", "term0") and (left == 1 or rng.random() < 0.35):
            ops.append(plan_end)
            sim.phase = "terminated"
        elif plan_end == "raise" and left == 1:
            ops.append("raise")
            break
        else:
            read_op()
    if plan_end == "raise" and "raise" not in ops:
        ops.insert(rng.randint(0, len(ops)), "raise")
    return ops


def gen_next(rng, prompt):
    args = [g.rbytes(rng, rng.randint(0, 4), b"ab '$") for _ in range(rng.choice([0, 1, 2]))]
    out = b"" if rng.random() < 0.2 else g.rbytes(rng, rng.randint(1, 12), b"ab \n")
    return "/".join(["P", lst(hx(a) for a in args), hx(out), str(rng.choice(STATUS))])


def gen_case(rng, params):
    kind = rng.choice(["bash", "ash"])
    prompt = bytes(params["bashPrompt" if kind == "bash" else "ashPrompt"])
    bl = bytes(params["bashBlacklist" if kind == "bash" else "ashBlacklist"])
    chunk = rng.choice([1, 3, 64, params["readChunkSize"], params["readChunkSize"]])
    while True:
        steps = gen_steps(rng, prompt, chunk >= 64)
        args = [] if rng.random() < 0.85 else [rng.choice([b"x y", b"a'b", b"bad\x03arg", b""])]
        ops = gen_ops(rng, steps, prompt, bl)
        # the domain: the prompt itself is in nothing the command prints or the tty echoes
        # (prompt prefixes from neighbouring parts may join up to it)
        printed = cook(b"".join(unhx(s[1:]) for s in steps if s[0] == "P"))
        typed = b"".join(unhx(o.split(":")[1]) for o in ops if o[0] in "sl" and o[1] == ":")
        if prompt not in printed and prompt not in typed and prompt[:-1] not in typed:
            break
    return " ".join([kind, str(chunk), "P", lst(hx(a) for a in args), lst(steps), gen_next(rng, prompt)] + ops)


# ---------------------------------------------------------------- runner interface

def _seed(line):
    return int(hashlib.sha1(line.encode()).hexdigest()[:8], 16)


_concrete = {}


_lean_proc = []
ENV_RETRIES = [0]


def _model_obs(c, impl):
    if not _lean_proc:
        from leanproc import Lean
        _lean_proc.append(Lean())
    return _lean_proc[0].ask("run " + c + " || " + (impl if impl.startswith("E=") else ""))


def run_impl(line):
    """The remote side of this check is a real shell on a real tty, and some calls carry real-time timeouts: on a
    heavily loaded machine a run can go differently from what the remote MODEL predicts for exactly the deliveries
    that run made (a reply that comes too late, a machine left out of sync for the next case).  That is about the
    environment, not about tbot: a misbehaviour of tbot is reproduced when the same case is run again.  So a run that
    disagrees with the model is repeated on fresh machines (same requested read sizes), up to two times; what
    persists is reported.  Every such event is written to replays/c10-environment.log."""
    impl = ""
    for attempt in range(3):
        c = runimpl.concrete(line)
        _concrete[line] = c
        impl = runimpl.run_case(c, _seed(line))
        if attempt == 2:
            return impl
        try:
            model = _model_obs(c, impl)
        except Exception:
            return impl
        if model == impl:
            return impl
        ENV_RETRIES[0] += 1
        try:
            import os, time
            with open(os.path.join(os.path.dirname(os.path.dirname(os.path.abspath(__file__))), "replays",
                                   "c10-environment.log"), "a") as f:
                f.write(f"{time.strftime('%H:%M:%S')} load={os.getloadavg()[0]:.1f} attempt={attempt} case={c}\n"
                        f"  impl={impl}\n  model={model}\n  diag={runimpl.LAST_HANG_DIAG[0]}\n")
        except Exception:
            pass
        runimpl.drop_all_machines()
    return impl


def model_request(line, impl):
    c = _concrete.get(line, line)
    return "run " + c + " || " + (impl if impl.startswith("E=") else "")


def spec_line(line):
    return _concrete.get(line, line)


def classify(line, obs):
    toks = line.split()
    ks = ["kind=" + toks[0], "chunk=" + toks[1]]
    steps = parse_steps(toks[4])
    ks.append("reads=%d" % sum(1 for s in steps if s == "R"))
    n_out = sum(len(unhx(s[1:])) for s in steps if s[0] == "P")
    ks.append("out=" + ("0" if n_out == 0 else "<100" if n_out < 100 else "<4096" if n_out < 4096 else "big"))
    for s in steps:
        if s[0] == "X":
            ks.append("status=" + ("0" if s == "X0" else "nonzero"))
    for tok in toks[6:]:
        ks.append("op=" + tok.split(":")[0])
    for o in obs.split():
        if o.startswith("O="):
            r = o[2:].split("/")[0]
            ks.append("res=" + (r if r.startswith("e:") else r.split(":")[0]))
        elif o.startswith("X=") or o.startswith("E=e"):
            ks.append(o.split("/")[0])
        elif o.startswith("N="):
            ks.append("next=" + ("skipped" if o == "N=-" else o[2:].split(":")[0]))
    return ks


def nontrivial(line, obs):
    toks = line.split()
    ops = [t.split(":")[0] for t in toks[6:]]
    interacts = any(o in ("s", "l", "c", "ex", "rup", "rut") for o in ops)
    outcome = any(x in obs for x in ("O=term:", "O=out:", "e:ended", "e:failure", "X=body", "X=runtime"))
    return interacts and outcome and obs.startswith("E=ok")


PROMPT = b"TBOT-VEJPVC1QUk9NUFQK$ "


def key_split_prompt(line, impl, model):
    """known finding: expect() / read_until_prompt(own prompt) returns a value although the command
    is gone, having consumed the first part of the shell's prompt (the delivery it returned on ended
    inside the prompt): prompt bytes reach the caller, and a terminate() that follows at once waits
    for ever.  The model reproduces it; recognised here by the value ending in a proper prefix of
    the prompt while, by the light simulation, the command has already ended."""
    if impl != model:
        return False
    toks = line.split()
    sim = Sim(parse_steps(toks[4]), PROMPT)
    obs = [o[2:] for o in impl.split() if o.startswith("O=")]
    for tok, o in zip(toks[6:], obs):
        f = tok.split(":")
        res = o.split("/")[0]
        if f[0] in ("s", "l", "c") and res == "ok":
            data = bytes([int(f[1])]) if f[0] == "c" else unhx(f[1]) + (b"\r" if f[0] == "l" else b"")
            if data and sim.alive:
                sim.type(data)
        elif f[0] in ("ex", "rup") and not sim.alive and (res.startswith("x:") or res.startswith("t:")):
            # what the call consumed ends with: before + match + after, or the text + the own prompt
            if res.startswith("x:"):
                tail = b"".join(unhx(x) for x in res.split(":")[2:5])
            else:
                tail = unhx(res.split(":")[1]) + (unhx(f[1][1:]) if f[1] != "-" else b"")
            if any(tail.endswith(PROMPT[:k]) for k in range(1, len(PROMPT))):
                return True
    return False


def valid(line):
    """conservative domain check for shrunk cases (so that shrinking does not wander into scenarios
    that hang or type into the shell)"""
    toks = line.split()
    if len(toks) < 6:
        return False
    steps = parse_steps(toks[4])
    if any(s[0] == "X" for s in steps[:-1]):
        return False
    sim = Sim(steps, b"\x00" * 23)
    known_dead = False
    for tok in toks[6:]:
        f = tok.split(":")
        if f[0] in ("s", "l", "c"):
            if known_dead:
                continue
            if not sim.alive:
                return False
            data = unhx(f[1]) + (b"\r" if f[0] == "l" else b"") if f[0] != "c" else bytes([int(f[1])])
            if f[0] != "c" and f[2] == "1":
                return False
            if any(c in (10, 13) for c in data[:-1]) or any(c in (3, 4, 17, 18, 19, 20, 21, 22, 23, 26, 28, 127) for c in data if f[0] != "c"):
                return False
            sim.type(data)
        elif f[0] in ("term", "term0"):
            if sim.alive:
                return False
            known_dead = True
        elif f[0] in ("ex", "rup", "rut"):
            if f[0] != "rut" and f[-1 if f[0] == "rup" else 1] == "-":
                return False
            if f[0] == "rut" and not sim.alive:
                known_dead = True
        elif f[0] == "raise":
            break
        elif f[0] not in ("w", "probe"):
            return False
    return True


def shrink_candidates(line):
    toks = line.split()
    head, ops = toks[:6], toks[6:]
    steps = parse_steps(head[4])
    cands = []
    for i in range(len(ops)):
        cands.append(head + ops[:i] + ops[i + 1:])
    for i in range(len(steps)):
        h = list(head)
        h[4] = lst(steps[:i] + steps[i + 1:])
        cands.append(h + ops)
    for i, s in enumerate(steps):
        if s[0] == "P" and len(s) > 3:
            for new in ("P" + (s[1:1 + (len(s) - 1) // 4 * 2] or "-"), "P" + (s[3:] or "-"), "P" + (s[1:-2] or "-")):
                h = list(head)
                h[4] = lst(steps[:i] + [new] + steps[i + 1:])
                cands.append(h + ops)
        if s[0] == "S":
            h = list(head)
            h[4] = lst(steps[:i] + steps[i + 1:])
            cands.append(h + ops)
    for i, o in enumerate(ops):
        f = o.split(":")
        if f[0] in ("s", "l") and f[1] != "-" and len(f[1]) > 2:
            for new in (f[1][: len(f[1]) // 4 * 2] or "-", f[1][2:], f[1][:-2]):
                cands.append(head + ops[:i] + [":".join([f[0], new, f[2]])] + ops[i + 1:])
    if head[3] != ".":
        cands.append(head[:3] + ["."] + head[4:] + ops)
    nf = head[5].split("/")
    if nf[1] != "." or nf[2] != "-" or nf[3] != "0":
        cands.append(head[:5] + ["/".join([nf[0], ".", "-", "0"])] + ops)
    if head[1] != "4096":
        cands.append([head[0], "4096"] + head[2:] + ops)
    for c in cands:
        l = " ".join(c)
        if valid(l):
            yield l


def exhaustive(params):
    """small scope: every command script of <= 3 steps over {print, read, exit 3} (exit last) with every
    valid body of <= 2 operations over an 8-symbol alphabet, and of 3 operations ending in terminate /
    terminate0, on bash"""
    step_alpha = ["P" + hx(b"a\n"), "R", "X3"]
    op_alpha = ["l:78:0", "c:3", "rut:40", "ex:150:L61", "term", "term0", "raise", "probe:0"]
    nxt = "P/./" + hx(b"n\n") + "/1"
    bodies = [ops for no in (1, 2) for ops in itertools.product(op_alpha, repeat=no)]
    bodies += [ops + (last,) for ops in itertools.product(op_alpha, repeat=2) for last in ("term", "term0")]
    for ns in range(0, 4):
        for steps in itertools.product(step_alpha, repeat=ns):
            if "X3" in steps[:-1]:
                continue
            for ops in bodies:
                line = " ".join(["bash", "4096", "P", ".", lst(steps), nxt] + list(ops))
                if valid(line):
                    yield line
