"""Run a machine life-cycle case (wire form, see lean/TbotVerif/Model/Life.lean `Wire`) on the REAL
tbot classes and print the observation line in the syntax of the Lean model.

The machine class of a case is composed dynamically (`type(name, bases, ns)`) from instrumented
mixins that subclass the real `machine.PreConnectInitializer`, `machine.Initializer`,
`machine.PostShellInitializer`, `board.PowerControl`, `connector.Connector` (or the real
`connector.ConsoleConnector` over a stub lab-host when the case has an `l` token) and `shell.Shell`.
Nothing in tbot is patched: every event is logged by the mixins' own callbacks, the exception that
reaches the caller is identified by object identity against the registry of injected exceptions."""
import contextlib
import time
import vclock
vclock.install()
import tbot  # noqa: E402
import tbot.error  # noqa: E402
from tbot.machine import machine, shell, connector, board, channel  # noqa: E402

tbot.log.VERBOSITY = -1  # nothing printed


class HarnessError(Exception):
    """malformed case — never an observation"""


class LifeFault(Exception):
    pass


class LifeAbort(BaseException):
    pass


class LifeInterrupt(KeyboardInterrupt):
    pass


EXC_STYLES = {"E": LifeFault, "B": LifeAbort, "K": LifeInterrupt}


class Recorder:
    """event log + fault assignment of the running session"""

    def __init__(self):
        self.trace = []
        self.faults = frozenset()
        self.exc_class = LifeFault
        self.registry = []      # (exception object, tag) of every injected exception
        self.power_sid = None   # id of the PowerControl base, if any

    def log(self, ev):
        self.trace.append(ev)

    def throw(self, tag):
        exc = self.exc_class(tag)
        self.registry.append((exc, tag))
        raise exc

    def ev(self, tag):
        """log the begin of a callback; raise the injected fault if one is assigned to it"""
        self.trace.append(tag)
        if tag in self.faults:
            self.throw(tag)

    def tag_of(self, exc):
        for e, tag in self.registry:
            if e is exc:
                return tag
        if type(exc) is Exception and self.power_sid is not None:
            return f"n{self.power_sid}"   # tbot's own `raise Exception("Board is already on …")`
        return "foreign-" + type(exc).__name__


# ---- instrumented context managers -------------------------------------------------------
def cm_gen(rec, sid, value):
    """generator-based context manager, the style tbot's documentation recommends"""
    @contextlib.contextmanager
    def gen():
        rec.ev(f"e{sid}")
        try:
            yield value
        finally:
            rec.ev(f"x{sid}")
    return gen()


class CmObj:
    """class-based context manager (the style of `Channel`, returned directly by simple connectors)"""

    def __init__(self, rec, sid, value):
        self.rec, self.sid, self.value = rec, sid, value

    def __enter__(self):
        self.rec.ev(f"e{self.sid}")
        return self.value

    def __exit__(self, *exc):
        self.rec.ev(f"x{self.sid}")
        return None


def cm_gen_suppressing(rec, sid, value):
    """generator-based context manager whose clean-up HANDLES the exception passing through it"""
    @contextlib.contextmanager
    def gen():
        rec.ev(f"e{sid}")
        try:
            yield value
        except BaseException:
            rec.ev(f"x{sid}")      # cleaned up; the exception is not re-raised
        else:
            rec.ev(f"x{sid}")
    return gen()


class CmObjSuppressing(CmObj):
    """class-based context manager whose `__exit__` returns True"""

    def __exit__(self, *exc):
        self.rec.ev(f"x{self.sid}")
        return True


def make_cm(style, rec, sid, value=None):
    if style == "g":
        return cm_gen(rec, sid, value)
    if style == "k":
        return CmObj(rec, sid, value)
    if style == "u":
        return cm_gen_suppressing(rec, sid, value)
    if style == "t":
        return CmObjSuppressing(rec, sid, value)
    raise HarnessError(f"cm style {style!r}")


STYLES = ("g", "k", "t", "u")


# ---- mixin factories ---------------------------------------------------------------------
CM_KINDS = {
    "p": (machine.PreConnectInitializer, "_init_pre_connect"),
    "i": (machine.Initializer, "_init_machine"),
    "q": (machine.PostShellInitializer, "_init_post_shell"),
}


class HostStub:
    """the lab-host a ConsoleConnector is constructed with: `clone()` gives an instrumented context"""

    def __init__(self, style, sid):
        self.style, self.sid, self.rec = style, sid, None

    def clone(self):
        return make_cm(self.style, self.rec, self.sid, self)


def mixin(tok, sid, delay, console):
    """one base class for the token `tok` at position `sid` of the composition"""
    kind, style = tok[0], tok[1:]
    if kind in CM_KINDS and style in STYLES:
        base, meth = CM_KINDS[kind]
        return type(f"Mix{kind.upper()}{sid}", (base,), {meth: lambda self: make_cm(style, self._life, sid)})
    if kind == "c" and style in STYLES and console:
        # the REAL ConsoleConnector._connect: `with self.host.clone() as cloned, self.connect(cloned) as ch`
        return type(f"Console{sid}", (connector.ConsoleConnector,), {
            "connect": lambda self, mach: make_cm(style, self._life, sid, self._life_ch)})
    if kind == "c" and style in STYLES:
        def _connect(self):
            return make_cm(style, self._life, sid, self._life_ch)

        def clone(self):
            raise tbot.error.AbstractMethodError()
        return type(f"Conn{sid}", (connector.Connector,), {"_connect": _connect, "clone": clone})
    if kind == "s" and style in STYLES:
        return type(f"Sh{sid}", (shell.Shell,), {
            "_init_shell": lambda self: make_cm(style, self._life, sid),
            "exec": lambda self, *a: None})
    if tok == "w":
        def power_check(self):
            self._life.ev(f"c{sid}")
            return f"n{sid}" not in self._life.faults

        return type(f"Pow{sid}", (board.PowerControl,), {
            "power_check": power_check,
            "poweron": lambda self: self._life.ev(f"o{sid}"),
            "poweroff": lambda self: self._life.ev(f"f{sid}"),
            "powercycle_delay": delay * vclock.TICK})
    raise HarnessError(f"base token {tok!r}")


def compose(bases_tok, delay, staged=0, merge=False, refine=False):
    """`staged` = k > 0: the LAST k bases (with the shell / connector they may contain) form a class of their own
    when that is a complete machine — it is instantiated and entered once, fault-free and unrecorded, before the
    class of the case is derived from it by adding the remaining mixins in front (`class Case(Mix0, …, Base)`):
    the MRO and therefore the order of the steps are the same as for the flat composition."""
    toks = [] if bases_tok == "." else bases_tok.split(",")
    bases, ns = [], {}
    hosts = [(sid, tok) for sid, tok in enumerate(toks) if tok[0] == "l"]
    if len(hosts) > 1 or any(t[1:] not in STYLES for _, t in hosts):
        raise HarnessError("at most one lab-host token lg/lk")
    # `merge`: ONE class provides two kinds of step (as a board class that defines both `_init_pre_connect` and
    # `_init_post_shell` does): the last mixin of kind A and the first of kind B, where every A precedes every B in the
    # declaration — then the merged class, placed where the A mixin was, keeps the order of the steps of both kinds
    refined = []
    merged = {}
    if merge:
        cm = [(sid, tok) for sid, tok in enumerate(toks) if tok[0] in CM_KINDS and tok[1:] in STYLES]
        for a, b in (("p", "q"), ("p", "i"), ("i", "q")):
            kind_of = lambda tok: "i" if tok == "w" else tok[0]     # noqa: E731  (PowerControl is an initialiser)
            ia = [sid for sid, tok in enumerate(toks) if kind_of(tok) == a]
            ib = [sid for sid, tok in enumerate(toks) if kind_of(tok) == b]
            ok = lambda sid: toks[sid] != "w" and toks[sid][1:] in STYLES   # noqa: E731
            if ia and ib and max(ia) < min(ib) and ok(max(ia)) and ok(min(ib)):
                merged = {max(ia): min(ib)}
                break
    skip = set(merged.values())
    for sid, tok in enumerate(toks):
        if tok[0] == "l" or sid in skip:
            continue
        if tok == "h":
            if "init" in ns:
                raise HarnessError("two hooks")
            ns["init"] = (lambda s: lambda self: self._life.ev(f"h{s}"))(sid)
        elif sid in merged:
            other = merged[sid]
            b1, m1 = CM_KINDS[tok[0]]
            b2, m2 = CM_KINDS[toks[other][0]]
            bases.append(type(f"Mix2_{sid}_{other}", (b1, b2), {
                m1: (lambda st, i: lambda self: make_cm(st, self._life, i))(tok[1:], sid),
                m2: (lambda st, i: lambda self: make_cm(st, self._life, i))(toks[other][1:], other)}))
        elif refine and tok[0] in CM_KINDS and tok[1:] in STYLES and not refined:
            # a step mixin REFINED by a subclass that overrides the hook and delegates to the class it refines (the
            # override itself is not a step of its own: Machine.__enter__ runs the hook of the class that lists the
            # initialiser kind among its direct bases — once)
            refined.append(sid)
            mix = mixin(tok, sid, delay, bool(hosts))
            meth = CM_KINDS[tok[0]][1]
            bases.append(type(f"Refined{sid}", (mix,), {meth: (lambda mx, mt: lambda self: getattr(mx, mt)(self))(mix, meth)}))
        else:
            bases.append(mixin(tok, sid, delay, bool(hosts)))
    kinds = [t[0] for t in toks]
    if kinds.count("c") != 1 or kinds.count("s") != 1 or kinds.count("w") > 1:
        raise HarnessError("composition needs exactly one connector and shell, at most one PowerControl")
    host = HostStub(hosts[0][1][1:], hosts[0][0]) if hosts else None
    k = min(staged, len(bases))
    if k > 0:
        tail = bases[len(bases) - k:]
        names = [b.__mro__[1].__name__ for b in tail]
        complete = (any(issubclass(b, connector.Connector) for b in tail) and any(issubclass(b, shell.Shell) for b in tail))
        if complete:
            base = type("LifeBase", tuple(tail), {})
            warm_up(base, host)
            return type("LifeMachine", tuple(bases[:len(bases) - k]) + (base,), ns), host
    cls = type("LifeMachine", tuple(bases), ns)
    return cls, host


def warm_up(base, host):
    """one complete fault-free life-cycle of the base class (nothing of it is part of the observation)"""
    rec = Recorder()
    if host is not None:
        saved, host.rec = host.rec, rec
        m = base(host)
    else:
        m = base()
    m._life = rec
    m._life_ch = channel.Channel(NullIO())
    vclock.CLOCK.reset(0)
    try:
        with vclock.CLOCK:
            with m:
                pass
    finally:
        if host is not None:
            host.rec = saved


# ---- body interpreter --------------------------------------------------------------------
def run_body(m, rec, ops, i):
    """run ops[i:] up to the matching `]` (or the end); real `with` statements do the nesting"""
    while i < len(ops):
        op = ops[i]
        if op == "[":
            with m:
                rec.log("[")
                i = run_body(m, rec, ops, i + 1)
                if i >= len(ops) or ops[i] != "]":
                    raise HarnessError("unbalanced body")
            rec.log("]")
            i += 1
        elif op == "]":
            return i
        elif op[0] == "m" and op[1:].isdigit():
            rec.log(op)
            i += 1
        elif op[0] == "r" and op[1:].isdigit():
            rec.log(op)
            rec.throw(op)
        else:
            raise HarnessError(f"body op {op!r}")
    return i


def run_session(m, rec, tok):
    f = tok.split(";")
    if len(f) != 4:
        raise HarnessError(f"session {tok!r}")
    gap, style, faults, body = f
    vclock.CLOCK.ticks += int(gap)
    rec.trace = []
    rec.faults = frozenset() if faults == "." else frozenset(faults.split(","))
    rec.exc_class = EXC_STYLES[style]
    ops = [] if body == "." else body.split(",")
    exc = "-"
    try:
        with m:
            if run_body(m, rec, ops, 0) != len(ops):
                raise HarnessError("unbalanced body")
    except HarnessError:
        raise
    except BaseException as e:
        if type(e).__name__ == "WallTimeout":
            raise
        exc = rec.tag_of(e)
    rc = getattr(m, "_rc", 0)
    return f"{','.join(rec.trace) if rec.trace else '.'};{exc};{rc}"


PROBE = "0;E;.;."   # the fault-free fresh entry appended to every case (mirrors `Life.probe`)


def run_case(line):
    toks = line.split()
    if len(toks) < 2:
        raise HarnessError("case needs <bases> <delay>")
    merge, refine = toks[1].endswith("+m"), toks[1].endswith("+r")
    dtok = toks[1][:-2].split("@") if (merge or refine) else toks[1].split("@")
    delay = int(dtok[0])
    cls, host = compose(toks[0], delay, int(dtok[1]) if len(dtok) > 1 else 0, merge, refine)
    rec = Recorder()
    bases = [] if toks[0] == "." else toks[0].split(",")
    rec.power_sid = bases.index("w") if "w" in bases else None
    if host is not None:
        host.rec = rec
        m = cls(host)
    else:
        m = cls()
    m._life = rec
    m._life_ch = channel.Channel(NullIO())
    real_sleep = time.sleep

    def sleep(secs):
        rec.log(f"z{vclock.to_ticks(secs)}")
        real_sleep(secs)

    out = []
    # (a derived class inherits the base class's power-off time stamp: the case starts long after the warm-up)
    vclock.CLOCK.reset(10 ** 6 if len(dtok) > 1 else 0)
    time.sleep = sleep
    try:
        with vclock.CLOCK:
            for s in toks[2:] + [PROBE]:
                out.append(run_session(m, rec, s))
    finally:
        time.sleep = real_sleep
    return " ".join(out)


class NullIO(channel.ChannelIO):
    """transport that is never used: the stub connector only hands the channel out"""

    def __init__(self):
        self._closed = False

    def write(self, buf):
        raise HarnessError("unexpected channel write")

    def read(self, n, timeout=None):
        raise HarnessError("unexpected channel read")

    def close(self):
        self._closed = True

    def fileno(self):
        raise HarnessError("no fileno")

    @property
    def closed(self):
        return self._closed

    def update_pty(self, columns, lines):
        pass


if __name__ == "__main__":
    import sys
    for ln in sys.stdin:
        if ln.strip():
            print(run_case(ln.strip()))
