"""C11: file contents written through a Path are read back identically — the real `linux.Path` of
real Bash and Ash machines against real bash and dash on a pty, every read re-fragmented, the file
looked at independently on the local file system."""
import hashlib
import changen as g
import filesimpl
from wire import hx, unhx

KIND = "files"
SPECS = ["C11"]
THEOREMS = ["C11.spec_holds", "C11.spec_holds_b64", "C11.bytes_roundtrip", "C11.bytes_roundtrip_b64", "C11.text_roundtrip",
            "C11.write_bytes_spec", "C11.read_bytes_spec", "C11.write_text_spec", "C11.read_text_spec", "C11.text_forbidden",
            "Files.b64_ok", "Files.Remote.ttyRead_all", "Files.Remote.session_tee", "Files.Remote.session_printf",
            "Files.ss_read", "Files.ss_send", "Files.ss_rup", "Files.fetchRetcode_ok", "Files.exec0Fed_ok",
            "Files.writeText_slow_ok", "Files.writeText_fast_ok", "Files.writeBytes_ok",
            "Files.decodeReplace_enc", "Files.text_cook_enc", "Files.noEarly_of_class"]
LEAN_MODULES = ["TbotVerif.Props.C11"]
QUICK_N, THOROUGH_N = 4000, 60000
QUICK_BUDGET, THOROUGH_BUDGET = 30, 900
CASE_WALL = 8
RULE = ("one write_text+read_text or write_bytes+read_bytes pair per case on a kept-alive machine (bash or dash); byte strings: "
        "lengths 0, 1, 56-58, 75-77, 113-115, 511-513, 1023-1025, 4096 and random, contents random / all 256 values / runs of "
        "0x00, 0xff, '+', '/'; texts from the shell's domain: 0-6 lines of {safe chars, shell metacharacters, quotes, every "
        "control byte the shell's black-list allows (incl. NUL), 2/3/4-byte UTF-8, 'tee: ', proper prompt prefixes}, with and "
        "without final newline, empty, only newlines, lines of 500-530 and 4094-4095 bytes, more than one 512-byte send slice; "
        "a few out-of-domain texts (CR, forbidden byte, the prompt itself); file names with blanks, quotes, "
        "'$', UTF-8; channel chunk size 1/3/64/4096; every transport read re-fragmented (1-byte, small, mixed, 4096); "
        "non-trivial = multi-line or non-ASCII or control-byte text, or bytes longer than one base64 line; distinct = distinct case lines")
TRUSTED = ["the installed bash 5.2, dash, coreutils tee/base64/cat/printf and the kernel pty are the remote side (not a model)",
           "the harness reads the written file directly from the local file system"]
ASSUMPTIONS = ["text: no CR, no byte on the shell's black-list, every line (single-line text: the printf command line) at most "
               "4095 bytes (canonical-mode tty limit), the 23-byte prompt does not occur in it",
               "base64 codec hypotheses (dec (enc d) = d, dec skips CR/LF, enc d over the 65 symbols) are validated against "
               "Python's base64 and the installed base64 tool by every byte case"]

NAMES = [b"f", b"f", b"f", b"data.bin", b"a b", b"it's", b"x$y", b"\xc3\xbc.txt", b"q\"uote", b"-n", b"semi;colon", b"star*"]
UTF = ["é".encode(), "✓".encode(), "😀".encode(), "ä ö".encode()]
META = [b" ", b"'", b'"', b"\\", b"$x", b"${HOME}", b"`id`", b"$(id)", b"!", b"*", b"?", b"~", b"#", b";", b"&", b"|", b"<", b">",
        b"%s", b"%d\\n", b"-n", b"\\n", b"\\c", b"\\0", b"tee: ", b"tee: /x: Permission denied", b"=", b"=="]


def allowed_ctrl(bl):
    return [bytes([c]) for c in list(range(0, 0x20)) + [0x7F] if c not in (10, 13) and c not in bl]


def gen_line(rng, bl, prompt):
    k = rng.random()
    if k < 0.1:
        return b""
    if k < 0.2:
        return g.rbytes(rng, rng.choice([500, 505, 510, 511, 512, 513, 520]), b"abc d'")
    if k < 0.23:
        return g.rbytes(rng, rng.choice([4000, 4094, 4095]), b"abcdefgh ")
    parts = []
    ctrl = allowed_ctrl(bl)
    for _ in range(rng.randint(1, 6)):
        r = rng.random()
        if r < 0.4:
            parts.append(g.rbytes(rng, rng.randint(1, 8), b"abcXYZ019_-./ "))
        elif r < 0.7:
            parts.append(rng.choice(META))
        elif r < 0.8:
            parts.append(rng.choice(ctrl))
        elif r < 0.92:
            parts.append(rng.choice(UTF))
        else:
            parts.append(prompt[: rng.randint(1, len(prompt) - 1)])
    return b"".join(parts)


def gen_text(rng, bl, prompt):
    """a text; lines above the tty limit (not modelled: the kernel overwrites the last byte of an over-long line) are cut"""
    t = _gen_text(rng, bl, prompt)
    return b"\n".join(l[:4095].decode("utf-8", "ignore").encode() for l in t.split(b"\n"))


def _gen_text(rng, bl, prompt):
    k = rng.random()
    if k < 0.04:
        return b""
    if k < 0.08:
        return b"\n" * rng.randint(1, 5)
    if k < 0.13:
        # out of the domain on purpose
        return rng.choice([b"a\rb\n", b"a\r\nb\r\n", b"x\r", b"ab" + bytes([rng.choice(list(bl))]) + b"\ncd\n",
                           bytes([rng.choice(list(bl))]), b"x\n" + prompt + b"\n", b"y\n" + prompt])
    if k < 0.145:
        # the text quotes an error message of tee about the very file it is written to (and about another one)
        body = rng.choice([b"tee: @@PATH@@: No such file or directory\n", b"log:\ntee: @@PATH@@: Is a directory\nend\n",
                           b"tee: @@PATH@@: \n" + b"x" * rng.choice([10, 600]) + b"\n", b"tee: /some/other/file: Permission denied\n"])
        return body + (b"more\n" if rng.random() < 0.5 else b"")
    if k < 0.16:
        # single lines (the `printf` fast path) that mix quoting hazards
        return rng.choice([b"it's on \\\\server\\dir", b"a'b\\\\c", b"'\\\\'", b"don't \\n \\\\n", b"say \"it's\" $HOME `id`",
                           b"100% 'done' \\\\", b"-n 'x'", b"'", b"\\"]) + rng.choice([b"", b"", b"\n"])
    if k < 0.2:
        # more than one send slice, 'tee: ' early
        body = b"\n".join(gen_line(rng, bl, prompt) for _ in range(rng.randint(2, 5)))
        return rng.choice([b"tee: ", b"", b"x"]) + body + g.rbytes(rng, rng.choice([490, 505, 600, 1100]), b"ab\n") + rng.choice([b"", b"\n"])
    lines = [gen_line(rng, bl, prompt) for _ in range(rng.choice([1, 1, 2, 2, 3, 4, 6]))]
    t = b"\n".join(lines)
    if rng.random() < 0.6 or (b"\n" not in t and len(t) > 3900):
        # (a long single line would exceed the tty line limit as a printf command line)
        t += b"\n"
    return t


BYTE_LENS = [0, 1, 2, 3, 56, 57, 58, 75, 76, 77, 113, 114, 115, 511, 512, 513, 1023, 1024, 1025, 4096]


def gen_bytes(rng):
    k = rng.random()
    if k < 0.05:
        return bytes(range(256))
    n = rng.choice(BYTE_LENS) if k < 0.6 else rng.randint(0, 300)
    r = rng.random()
    if r < 0.6:
        return bytes(rng.randrange(256) for _ in range(n))
    if r < 0.7:
        return bytes([rng.choice([0, 0xFF, 0xFB, 0xFF, 0x3F, 0x0D, 0x0A, 0x04])]) * n
    if r < 0.85:
        return (bytes(range(256)) * (n // 256 + 1))[:n]
    return g.rbytes(rng, n, b"\x00\xff\xfb\xef\xbe\x03\x04\r\n")


def gen_case(rng, params):
    kind = rng.choice(["bash", "ash"])
    bl = bytes(params["bashBlacklist" if kind == "bash" else "ashBlacklist"])
    prompt = bytes(params["bashPrompt" if kind == "bash" else "ashPrompt"])
    chunk = rng.choice([1, 3, 64, params["readChunkSize"], params["readChunkSize"], params["readChunkSize"]])
    name = rng.choice(NAMES)
    if name[0] in bl or any(c in bl for c in name):
        name = b"f"
    if rng.random() < 0.5:
        d = "b/" + hx(gen_bytes(rng))
    else:
        d = "t/" + hx(gen_text(rng, bl, prompt))
    return f"{kind} {chunk} {d}/{hx(name)}"


def _seed(line):
    return int(hashlib.sha1(line.encode()).hexdigest()[:8], 16)


_concrete = {}


def run_impl(line):
    c = filesimpl.concrete(line)
    _concrete[line] = c
    return filesimpl.run_case(c, _seed(line))


def model_request(line, impl):
    c = _concrete.get(line) or filesimpl.concrete(line)
    if impl.count(";") == 6:
        return "files " + c + " || " + impl
    return "files " + c


def spec_line(line):
    return _concrete.get(line) or filesimpl.concrete(line)


def _data(line):
    op, data, _ = line.split()[2].split("/")
    return op, unhx(data)


def classify(line, obs):
    kind, chunk, _ = line.split()
    op, data = _data(line)
    n = len(data)
    ks = ["kind=" + kind, "chunk=" + chunk, "op=" + op,
          "len=" + ("0" if n == 0 else "1" if n == 1 else "<57" if n < 57 else "57-77" if n <= 77 else "<511" if n < 511 else
                    "511-513" if n <= 513 else "<1023" if n < 1023 else "1023-1025" if n <= 1025 else ">1025")]
    f = obs.split(";")
    ks.append("ret=" + f[0].split(":")[0] + (":" + f[0].split(":", 1)[1].split("/")[0] if f[0].startswith("err") else ""))
    if op == "t":
        ks.append("path=" + ("printf" if b"\n" not in data and b"\r" not in data and b"\0" not in data else "tee"))
        ks.append("finalnl=" + ("1" if data.endswith(b"\n") else "0"))
        if any(c >= 0x80 for c in data):
            ks.append("text=non-ascii")
        if any(c < 0x20 and c not in (10, 13) for c in data):
            ks.append("text=ctrl")
        if b"tee: " in data:
            ks.append("text=tee-colon")
    if len(f) == 7 and f[5] != ".":
        ps = [int(x) for x in f[5].split(",")]
        ks.append("pieces=" + ("all-1" if max(ps) == 1 else "small" if max(ps) <= 3 else "mixed"))
    return ks


def nontrivial(line, obs):
    op, data = _data(line)
    if op == "b":
        return len(data) > 57
    return data.count(b"\n") >= 1 and (data.count(b"\n") >= 2 or not data.endswith(b"\n")) or any(c >= 0x80 or c < 0x20 for c in data)


def shrink_candidates(line):
    kind, chunk, d = line.split()
    op, data, name = d.split("/")
    raw = unhx(data)
    out = []
    if name != hx(b"f"):
        out.append((op, raw, hx(b"f")))
    n = len(raw)
    if op == "b":
        cuts = [raw[: n // 2], raw[n // 2:], raw[:-1], raw[1:]]
    else:
        # cut on character boundaries
        s = raw.decode("utf-8")
        m = len(s)
        cuts = [x.encode() for x in (s[: m // 2], s[m // 2:], s[:-1], s[1:])]
        lines = s.split("\n")
        for i in range(len(lines)):
            cuts.append("\n".join(lines[:i] + lines[i + 1:]).encode())
    for c in cuts:
        if len(c) < n:
            out.append((op, c, name))
    if chunk != "4096":
        yield f"{kind} 4096 {d}"
    for o, c, nm in out:
        yield f"{kind} {chunk} {o}/{hx(c)}/{nm}"


def exhaustive(params):
    """all byte lengths 0..160 (two base64 lines and the 57/76 boundaries) with a counting pattern, all
    256 one-byte files, all texts over {a, LF, é} up to length 4 — on both shells"""
    for kind in ("bash", "ash"):
        for n in range(0, 161):
            yield f"{kind} 4096 b/{hx(bytes((7 * i + n) % 256 for i in range(n)))}/{hx(b'f')}"
        for v in range(256):
            yield f"{kind} 4096 b/{hx(bytes([v]))}/{hx(b'f')}"
        import itertools
        for n in range(0, 5):
            for tup in itertools.product(["a", "\n", "é"], repeat=n):
                yield f"{kind} 64 t/{hx(''.join(tup).encode())}/{hx(b'f')}"
PARAM_EXTRACTORS = ["shellextract", "filesextract"]
