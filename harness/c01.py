"""C01: Linux shell commands get exactly the given args; output and status are exact — real Bash
and Ash drivers against real bash and dash on a pty, every read re-fragmented."""
import hashlib, shlex
import changen as g
import shellimpl
from wire import hx, lst

KIND = "shell"
SPECS = ["C01"]
THEOREMS = ["Tty.echo_length_noctl", "Tty.echo_length_ctl", "C01Q.posixWords_escape", "C01Q.spec_holds", "C01.exec_exact", "C01.exec_exact_gen", "C01.execSeq_exact", "C01.exec0_exact", "C01.test_exact", "C01.exec_rejects", "C01.exec_app", "C01.read_some_app", "C01.readUntilPrompt_app", "C01.read_local", "C01.rup_local", "C01.sendline_exact", "C01.parseInt_status", "C01.status_table", "C01.specCmd_runCmd", "C01.specCmd_runCmd_sum", "C01.spec_holds"]
LEAN_MODULES = ["TbotVerif.Props.Tty", "TbotVerif.Props.C01Q", "TbotVerif.Props.C01"]
AUX = ["C01Q"]   # quoting layer: real Bash.escape/Ash.escape vs the Lean model, splitter vs real bash/dash
QUICK_N, THOROUGH_N = 700, 20000
QUICK_BUDGET, THOROUGH_BUDGET = 45, 1500
CASE_WALL = 25
RULE = ("sequences of 1-5 exec/exec0/test calls on one machine (bash or dash), argument lists of 0-6 strings drawn per "
        "position from {safe chars, every shell metacharacter, quotes, backslash runs, $x, backquote, !, globs, newline, tab, "
        "every control byte 0x01-0x1f/0x7f, 2/3/4-byte UTF-8, empty}, lengths biased to 0-8 and to the 512-byte send slice "
        "boundary; program output: empty, no final newline, CR/LF mixes, prompt prefixes, up to 5000 bytes; status 0-255; every "
        "transport read re-fragmented (1-byte, small, mixed, 4096); non-trivial = some argument needs quoting or a control byte "
        "or the output has no final newline / contains CR; distinct = distinct case lines")
TRUSTED = ["the installed bash 5.2 and dash, and the kernel pty, are the remote side (not a model)",
           "harness/helper/tbvhelper.c records argv through a side file"]
ASSUMPTIONS = ["arguments contain no NUL and no CR, are valid UTF-8 (the API takes str); command line below the tty line limit "
               "(4095 bytes per line); program output does not contain the 23-byte prompt at a read boundary"]

CTRL = [bytes([c]) for c in list(range(1, 0x20)) + [0x7F] if c not in (13,)]
META = [b" ", b"'", b'"', b"\\", b"$x", b"${HOME}", b"`id`", b"$(id)", b"!", b"!!", b"*", b"?", b"[a]", b"~", b"#", b";",
        b"&", b"|", b"<", b">", b"(", b")", b"{a,b}", b"\n", b"\t", b"=", b"%s", b"-n", b"--", b"\\n", b"\\c",
        b"'\n", b"\n'", b"it's\ntwo 'lines'", b"\n^", b"first\n^second", b"^a^b", b"\n!x", b"\n#", b"\\'\n", b"\"\n'"]
UTF = ["é".encode(), "✓".encode(), "😀".encode(), "ä ö".encode()]


LINE_BUDGET = 4095 - 300


def gen_arg(rng):
    k = rng.random()
    if k < 0.08:
        return b""
    if k < 0.14:
        n = rng.choice([500, 505, 510, 511, 512, 513, 520, 1030])
        filler = g.rbytes(rng, n, b"abc d'")
        if rng.random() < 0.3:
            filler += rng.choice(CTRL + META)
        return filler
    parts = []
    for _ in range(rng.randint(1, 6)):
        r = rng.random()
        if r < 0.35:
            parts.append(g.rbytes(rng, rng.randint(1, 4), b"abcXYZ019_-./"))
        elif r < 0.75:
            parts.append(rng.choice(META))
        elif r < 0.88:
            parts.append(rng.choice(CTRL))
        else:
            parts.append(rng.choice(UTF))
    return b"".join(parts)


def gen_out(rng, prompt):
    k = rng.random()
    if k < 0.1:
        return b""
    if k < 0.2:
        return g.rbytes(rng, rng.choice([4095, 4096, 4097, 5000]), b"abc\n")
    parts = []
    for _ in range(rng.randint(1, 5)):
        r = rng.random()
        if r < 0.4:
            parts.append(g.rbytes(rng, rng.randint(1, 8), b"abc xyz"))
        elif r < 0.6:
            parts.append(rng.choice([b"\n", b"\r\n", b"\n\r", b"\r", b"\n\n"]))
        elif r < 0.75:
            parts.append(prompt[: rng.randint(1, len(prompt) - 1)])
        elif r < 0.85:
            parts.append(rng.choice(UTF + [b"\xff", b"\xc3"]))
        else:
            parts.append(rng.choice([b"\x1b[1m", b"\x00", b"\t", b"\x07"]))
    out = b"".join(parts)
    if rng.random() < 0.6:
        out += b"\n"
    # domain: the output must not contain the complete prompt
    while prompt in out.replace(b"\n", b"\r\n"):
        out = out.replace(prompt[-2:], b"_", 1)
    return out


def gen_case(rng, params):
    kind = rng.choice(["bash", "ash"])
    prompt = bytes(params["bashPrompt"])
    chunk = rng.choice([1, 3, 64, params["readChunkSize"], params["readChunkSize"]])
    cmds = []
    for _ in range(rng.randint(1, 5)):
        args = [gen_arg(rng) for _ in range(rng.choice([0, 1, 1, 2, 3, 6]))]
        # domain: the command line fits into one line of a canonical-mode tty (4095 bytes; the kernel discards the
        # rest, after which the shell waits for a closing quote for ever) — 300 bytes are left for the helper's path
        while sum(len(shlex.quote(a.decode("utf-8", "surrogateescape"))) + 1 for a in args) > LINE_BUDGET:
            args.remove(max(args, key=len))
        op = rng.choice(["x", "x", "x0", "t"])
        cmds.append("/".join([op, "P", lst(hx(a) for a in args), hx(gen_out(rng, prompt)), str(rng.choice([0, 0, 1, 2, 127, 255, rng.randint(0, 255)]))]))
    return " ".join([kind, str(chunk)] + cmds)


def _seed(line):
    return int(hashlib.sha1(line.encode()).hexdigest()[:8], 16)


_concrete = {}


def run_impl(line):
    c = shellimpl.concrete(line)
    _concrete[line] = c
    return shellimpl.run_case(c, _seed(line))


def model_request(line, impl):
    return "shell " + _concrete.get(line, line) + " || " + impl


def spec_line(line):
    return _concrete.get(line, line)


def classify(line, obs):
    ks = ["kind=" + line.split()[0], "chunk=" + line.split()[1]]
    for tok, o in zip(line.split()[2:], obs.split()):
        f = tok.split("/")
        ks.append("op=" + f[0])
        ks.append("nargs=%d" % (0 if f[2] == "." else f[2].count(",") + 1))
        ks.append("res=" + o.split("/")[0].split(":")[0] + (":" + o.split("/")[0].split(":")[1] if o.startswith("err") else ""))
        n = len(f[3]) // 2 if f[3] != "-" else 0
        ks.append("out=" + ("0" if n == 0 else "<100" if n < 100 else "big"))
    return ks


def nontrivial(line, obs):
    for tok in line.split()[2:]:
        f = tok.split("/")
        if any(c in f[2] for c in ("27", "20", "24", "0a", "5c")) or not f[3].endswith("0a"):
            return True
    return False


def shrink_candidates(line):
    toks = line.split()
    head, cmds = toks[:2], toks[2:]
    for i in range(len(cmds)):
        if len(cmds) > 1:
            yield " ".join(head + cmds[:i] + cmds[i + 1:])
    for i, c in enumerate(cmds):
        f = c.split("/")
        args = [] if f[2] == "." else f[2].split(",")
        for j in range(len(args)):
            rest = args[:j] + args[j + 1:]
            yield " ".join(head + cmds[:i] + ["/".join([f[0], f[1], ",".join(rest) if rest else ".", f[3], f[4]])] + cmds[i + 1:])
        for j, a in enumerate(args):
            if len(a) > 2 and a != "-":
                for new in (a[: len(a) // 2 // 2 * 2] or "-", a[2:], a[:-2]):
                    a2 = args[:j] + [new] + args[j + 1:]
                    yield " ".join(head + cmds[:i] + ["/".join([f[0], f[1], ",".join(a2), f[3], f[4]])] + cmds[i + 1:])
        if f[3] != "-":
            yield " ".join(head + cmds[:i] + ["/".join([f[0], f[1], f[2], "-", f[4]])] + cmds[i + 1:])
PARAM_EXTRACTORS = ["shellextract"]
