"""C03: random histories of raw channel I/O over scripted transports and partial-write oracles."""
import changen as g
from wire import hx, opt, lst
from chancommon import KIND, CASE_WALL, run_impl, shrink_candidates, classify_common  # noqa: F401

SPECS = ["C03"]
THEOREMS = ["C03.riTake_spec", "C03.read_some_spec", "C03.read_one_spec", "C03.readlineLoop_spec", "C03.writeLoop_spec", "C03.write_spec", "C03.sendLoop_spec", "C03.send_spec", "C03.op_spec", "ChanCase.keeps", "ChanCase.conservation_run", "C03.case_spec", "C03.send_rb_complete", "C03.sendline_rb_complete", "C03.send_timeout_justified", "C03.sendline_timeout_justified", "C03.send_no_timeout_after_echo", "C03.send_no_rb_no_read", "C03.sendline_no_rb_no_read", "C03.c03_rejects_timeout_after_echo", "C03.readBack_eq", "C03.readBack_model"]
LEAN_MODULES = ["TbotVerif.Props.ChanCase", "TbotVerif.Props.C03Send"]
QUICK_N, THOROUGH_N = 6000, 100000
QUICK_BUDGET, THOROUGH_BUDGET = 40, 900
RULE = ("random histories (1-12 ops) of read(n)/read()/read_iter(max,k)/readline/write/send/sendline/sendcontrol with "
        "black-list and slow-send settings over random scripts (pieces 1-9 bytes, or one long piece) and random "
        "partial-write oracles; non-trivial = some read hit a piece boundary mid-request (>= 2 transport reads in one "
        "op) or some write was accepted partially; distinct = distinct case lines")
TRUSTED = []
ASSUMPTIONS = ["transports accept >= 1 byte per write and honour the timeout they are given",
               "read(n) with n >= 0; READ_CHUNK_SIZE > 0"]


# bytes a black-list may hold: besides letters and control characters every byte that is special in a regex
# character class, a format string or a bytes.translate table
BL_ALPHA = b"abx\r\n\x03]\\^-[.%\x00"


def gen_case(rng, params):
    chunk = rng.choice([1, 2, 3, 5, params["readChunkSize"]])
    n_p = rng.randint(0, 8)
    if rng.random() < 0.15:
        pieces = [g.rbytes(rng, rng.randint(20, 60))]
    else:
        pieces = [g.rbytes(rng, rng.randint(1, 9)) for _ in range(n_p)]
    ticks = g.schedule(rng, pieces)
    accept = [rng.choice([1, 1, 2, 3, 5, 1000]) for _ in range(rng.randint(0, 12))]
    walpha = g.ALPHA
    ops = []
    for _ in range(rng.randint(1, 12)):
        k = rng.random()
        t = opt(g.timeout_choice(rng))
        if k < 0.2:
            ops.append(f"read:{rng.choice([0, 1, 1, 2, 3, 4, 7, 10, 20])}:{t}")
        elif k < 0.3:
            ops.append(f"read:-:{t}")
        elif k < 0.45:
            ops.append(f"ri:{opt(rng.choice([None, 0, 1, 2, 5, 9, 30]))}:{t}:{opt(rng.choice([None, 0, 1, 2, 3]))}")
        elif k < 0.55:
            ops.append(f"rl:{hx(rng.choice([b'\r\n', b'\n', b'ab', b'x']))}:{t}")
        elif k < 0.65:
            ops.append(f"wr:{hx(g.rbytes(rng, rng.randint(0, 10), walpha))}:{rng.choice('001')}")
        elif k < 0.75:
            n = rng.choice([0, 1, 3, 8, 8, params['sendSliceSize'] - 1, params['sendSliceSize'], params['sendSliceSize'] + 5, 1100])
            if rng.random() < 0.15:
                # text whose UTF-8 form is longer than its number of characters, sized around the slice boundary
                ch_ = rng.choice(["\xe4", "\u20ac", "\U0001f600"])
                payload = (ch_ * rng.choice([1, 2, 128, 171, 256, 257, 300])).encode() + g.rbytes(rng, rng.choice([0, 0, 1, 2]), b"ab")
                ops.append(f"send:{hx(payload)}:0:{t}:{rng.choice('001')}")
            else:
                ops.append(f"send:{hx(g.rbytes(rng, n, walpha if n < 20 else b'abx\r\n'))}:{rng.choice('0001')}:{t}:{rng.choice('001')}")
        elif k < 0.82:
            ops.append(f"sl:{hx(g.rbytes(rng, rng.randint(0, 8), walpha))}:{rng.choice('0001')}:{t}")
        elif k < 0.87:
            ops.append(f"sc:{rng.choice([0, 1, 3, 4, 13, 31, 32, 40])}")
        elif k < 0.93:
            ops.append(f"bl:{hx(bytes(rng.sample(list(BL_ALPHA), rng.randint(0, 3))))}")
            walpha = g.ALPHA + BL_ALPHA
        else:
            ops.append(f"slow:{opt(rng.choice([None, 0, 10, 512]))}:{rng.choice([1, 2, 3, 32])}")
    return g.case_line(chunk, params["sendSliceSize"], g.script_wire(ticks, pieces), accept, ops)


def classify(line, obs):
    return classify_common(line, obs)


def nontrivial(line, obs):
    for o in obs.split()[1:]:
        f = o.split(";")
        if f[3].count(",") >= 1:
            return True
        for w in ([] if f[4] == "." else f[4].split(",")):
            b, k = w.split("/")
            if b != "-" and int(k) < len(b) // 2:
                return True
    return False
