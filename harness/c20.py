"""C20 — ssh and scp are invoked with exactly the machine's configured parameters.

Correspondence: the REAL `SSHConnector._connect` / `linux.copy` / `_scp_copy` / authenticators
run on recording machines (`sshimpl.py`, one worker process per environment: paramiko importable
or not); the raw recording is canonicalised by the Lean driver (`sshcanon`: the model's own
`parseSsh`/`parseScp`, `-o` values sorted) and compared with the model's canonical observation;
`Spec.C20` is evaluated on the implementation's observation."""
import atexit
import itertools
import os
import subprocess

from leanproc import Lean

HERE = os.path.dirname(os.path.abspath(__file__))

KIND = "ssh"
SPECS = ["C20"]
THEOREMS = [
    "C20.parseSsh_sshArgv", "C20.parseScp_scpArgv", "C20.sshHead_error", "C20.scpAuth_error",
    "C20.connect_spec", "C20.scpFrom_spec", "C20.copy_spec", "C20.run_spec",
    "C20.connect_canon", "C20.scpFrom_canon", "C20.copy_by_role", "C20.copy_to_remote_canon",
    "C20.copy_from_remote_canon", "C20.copy_same_machine", "C20.copy_unsupported",
    "C20.refused_authenticator", "C20.connect_refused", "C20.count_batchMode", "C20.count_noHostKey", "C20.count_ctlMaster",
    "C20.controlPath_mem", "C20.spec_parsed_params",
]
QUICK_N, THOROUGH_N = 14000, 90000
QUICK_BUDGET, THOROUGH_BUDGET = 40, 900
CASE_WALL = 20
RULE = ("half of the cases are drawn uniformly from the small-scope product (user, port, ignore_hostkey, ssh_config, "
        "authenticator incl. tbot-Path keys on the executing and on a foreign host, multiplexing: 3x3x3x3x8x3 "
        "configurations) x 9 host pairings x 2 directions + connect; the other half are random machine sets (2-5 "
        "machines: local / generic lab-host / ssh via any earlier machine / paramiko, clones, second instances, "
        "subclasses) with random strings (spaces, '@', ':', '=', leading '-', non-ASCII, empty) and a random connect or "
        "copy. A case is non-trivial when an ssh or scp command line was issued; distinct = distinct case lines")
TRUSTED = ["harness/sshimpl.py: the recording machine classes (real linux.Bash whose exec/open_channel record the argv "
           "after running the real escape(); machines are never entered) and the empty stand-in module `paramiko` "
           "under which tbot's real ParamikoConnector class is imported",
           "the wire parsers of lean/TbotVerif/Model/SshWire.lean and harness/sshimpl.py agree on what a case denotes"]
ASSUMPTIONS = ["paths, work directories and pathlib/tbot-Path key files are in pathlib normal form (the normalisation "
               "done by PurePosixPath is not modelled here; it belongs to C11/C12)",
               "a machine class stands for one machine: instances of related classes that are not clones of each "
               "other are a different machine of the same class and copy() refuses them with WrongHostError",
               "an ssh machine is always created from an existing machine (SSHConnector(None) acquiring the local "
               "host is outside the model); a paramiko machine of a case sets username explicitly",
               "what argv the lab-host shell does with the words (quoting) is C01's concern; argv is compared word by word"]


# ---- processes ------------------------------------------------------------------------------
class Worker:
    def __init__(self, pm):
        self.p = subprocess.Popen(["/venv/bin/python", os.path.join(HERE, "sshimpl.py"), "--paramiko", str(pm)],
                                  stdin=subprocess.PIPE, stdout=subprocess.PIPE, bufsize=0, cwd=HERE)
        if self.p.stdout.readline().strip() != b"ready":
            raise RuntimeError("sshimpl worker did not start (does the tree import?)")

    def ask(self, line):
        self.p.stdin.write(line.encode() + b"\n")
        out = self.p.stdout.readline()
        if not out:
            raise RuntimeError("sshimpl worker died")
        return out.decode().rstrip("\n")

    def close(self):
        try:
            self.p.stdin.close()
            self.p.wait(timeout=3)
        except Exception:
            self.p.kill()


_workers = {}
_lean = None


def _cleanup():
    for w in _workers.values():
        w.close()
    if _lean is not None:
        _lean.close()


atexit.register(_cleanup)


def run_impl_raw(line):
    pm = 1 if line.startswith("pm/1 ") else 0
    if pm not in _workers:
        _workers[pm] = Worker(pm)
    return _workers[pm].ask(line)


def run_impl(line):
    global _lean
    raw = run_impl_raw(line)
    if raw == "bad-op" or raw.startswith("harness"):
        return raw
    if _lean is None:
        _lean = Lean()
    canon = _lean.ask("sshcanon " + raw)
    if canon == "bad-op":
        return "uncanonical " + raw
    return canon


# ---- wire helpers ---------------------------------------------------------------------------
def hx(s):
    b = s.encode("utf-8")
    return b.hex() if b else "-"


def unhx(s):
    return "" if s == "-" else bytes.fromhex(s).decode("utf-8")


def opt(v, f=str):
    return "" if v is None else f(v)


def lst(items):
    items = list(items)
    return ",".join(items) if items else "."


def auth_tok(a):
    if a is None:
        return ""
    if a[0] in ("n", "u"):
        return a[0]
    if a[0] == "t":
        return f"t:{a[1]}:{hx(a[2])}"
    return f"{a[0]}:{hx(a[1])}"


def host_tok(kind, wd, user=None, via=None, sup=None, hostname=None, port=None, hk=None, opts=None, auth=None, mux=None):
    return "/".join(["H", kind, opt(sup), opt(via), opt(user, hx), hx(wd), opt(hostname, hx), opt(port),
                     opt(hk, lambda b: "1" if b else "0"), opt(opts, lambda l: lst(hx(o) for o in l)),
                     auth_tok(auth), opt(mux, lambda b: "1" if b else "0")])


def lab(kind, user="lab", wd="/tmp/wd"):
    return host_tok(kind, wd, user=user)


def copy_op(a, pa, b, pb):
    return f"copy/{a}/{hx(pa)}/{b}/{hx(pb)}"


# ---- the small-scope product ----------------------------------------------------------------
USERS = [None, "root", "a@b"]
PORTS = [None, 2222, 1]
HKS = [None, False, True]
OPTS = [None, [], ["ProxyJump=x", "A B"]]
MUXS = [None, False, True]
# authenticators: `texec` / `tother` are tbot-Path keys on the executing host / on another machine
AUTHS = [None, ("n",), ("k", "/k/id"), ("l", "/home/u/.ssh/id_ed"), "texec", "tother", ("w", "hunter2"), ("u",)]

# pairings: (name, machines before the remote, kind of the remote, index of the executing host, paramiko needed)
#   the remote machine is always the last host; `other` is the second operand of copy
PAIRINGS = [
    "same",          # both paths on the remote machine itself (cp there)
    "clone",         # the remote machine and a clone of it
    "jump-generic",  # ssh machine and the generic lab-host it was created from
    "jump-local",    # ssh machine and the local host it was created from
    "local-ssh",     # ssh machine (created from a generic lab-host) and an unrelated local host
    "local-paramiko",  # paramiko machine and a local host
    "two-remotes",   # two unrelated ssh machines
    "generic-ssh",   # ssh machine and a generic lab-host it was NOT created from
    "jump-clone",    # ssh machine and a clone of the generic lab-host it was created from
]


def product_case(pairing, direction, user, port, hk, opts, auth, mux):
    """hosts: 0 = generic lab-host, 1 = local host, 2 = spare generic lab-host, then the remote (3) and extras"""
    pm = 1 if pairing == "local-paramiko" else 0
    hosts = [lab("g", "lab", "/home/lab/wd"), lab("l", "me", "/tmp/wd"), lab("g", "spare", "/")]
    r = 3
    kind = "p" if pairing == "local-paramiko" else "s"
    via = None if kind == "p" else (1 if pairing == "jump-local" else 0)
    other = {"same": r, "clone": r + 1, "jump-generic": 0, "jump-local": 1, "local-ssh": 1, "local-paramiko": 1,
             "two-remotes": r + 1, "generic-ssh": 2, "jump-clone": r + 1}[pairing]
    exech = other if other < r else 0
    if auth == "texec":
        auth = ("t", exech, "/t/key")
    elif auth == "tother":
        auth = ("t", 2 if exech != 2 else 0, "/t/key")
    if kind == "p" and user is None:
        user = "pu"
    hosts.append(host_tok(kind, "/r", user=user, via=via, hostname="board", port=port, hk=hk, opts=opts,
                          auth=auth, mux=mux))
    if pairing == "clone":
        hosts.append(f"C/{r}")
    elif pairing == "two-remotes":
        hosts.append(host_tok("s", "/r2", user="u2", via=0, hostname="other"))
    elif pairing == "jump-clone":
        hosts.append("C/0")
    if direction == "connect":
        op = f"connect/{r}"
    elif direction == "to":
        op = copy_op(other, "/src/f", r, "/dst/g")
    else:
        op = copy_op(r, "/src/f", other, "/dst/g")
    return " ".join([f"pm/{pm}", op] + hosts)


def product_space():
    dirs_for = lambda p: ("to", "from") if p == "local-paramiko" else ("to", "from", "connect")  # noqa: E731
    for pairing in PAIRINGS:
        for direction in dirs_for(pairing):
            if direction == "connect" and pairing not in ("jump-generic", "jump-local"):
                continue
            for cfg in itertools.product(USERS, PORTS, HKS, OPTS, AUTHS, MUXS):
                yield (pairing, direction) + cfg


_SPACE = None


def space():
    global _SPACE
    if _SPACE is None:
        _SPACE = list(product_space())
    return _SPACE


def exhaustive(params):
    for t in space():
        yield product_case(*t)


# ---- random machine sets ----------------------------------------------------------------------
R_USERS = ["root", "tb", "a@b", "", "üser", "x y", "-l"]
R_HOSTS = ["board", "10.0.0.7", "h:22", "ex ample", "", "fe80::1%eth0", "-oProxyCommand=x"]
R_WDS = ["/tmp/wd", "/", "/w d/x", "/home/u/.cache/tbot", "//"]
R_PATHS = ["/a/f", "f", "/d ir/x", "-o", "/", "rel/p.bin", "/ä"]
R_OPTS = ["ProxyJump=x", "A B", "BatchMode=yes", "StrictHostKeyChecking=no", "-o", "", "ControlMaster=auto",
          "ProxyCommand=ssh -W %h:%p gw", "BatchMode=no"]
R_KEYS = ["/k/id", "rel key", "~/.ssh/id_rsa", "-i", ""]
R_NORM = ["/k/id", "/home/u/.ssh/id_ed", "k", "/sp ace/id", "~/.ssh/id_board", "~"]
R_PW = ["hunter2", "-p", "", "p w", "ssh"]


def rand_cfg(rng, i, kinds):
    c = {}
    if rng.random() < 0.6:
        c["user"] = rng.choice(R_USERS)
    if rng.random() < 0.6:
        c["port"] = rng.choice([22, 2222, 1, 65535, 0, 10022])
    if rng.random() < 0.6:
        c["hk"] = rng.random() < 0.5
    if rng.random() < 0.6:
        c["opts"] = [rng.choice(R_OPTS) for _ in range(rng.choice([0, 1, 1, 2, 3]))]
    if rng.random() < 0.7:
        k = rng.choice("nklttwu")
        if k in "nu":
            c["auth"] = (k,)
        elif k == "k":
            c["auth"] = ("k", rng.choice(R_KEYS))
        elif k == "l":
            c["auth"] = ("l", rng.choice(R_NORM))
        elif k == "t":
            c["auth"] = ("t", rng.randrange(i), rng.choice(R_NORM)) if i else ("n",)
        else:
            c["auth"] = ("w", rng.choice(R_PW))
    if rng.random() < 0.6:
        c["mux"] = rng.random() < 0.5
    return c


def random_case(rng):
    pm = rng.random() < 0.4
    n = rng.choice([2, 3, 3, 4, 4, 5])
    toks, kinds, cfgs, vias = [], [], [], []
    for i in range(n):
        r = rng.random()
        if i > 0 and r < 0.12:
            j = rng.randrange(i)
            toks.append(f"{rng.choice('CA')}/{j}")
            kinds.append(kinds[j]); cfgs.append(cfgs[j]); vias.append(vias[j])
            continue
        if i == 0:
            kind = rng.choice("lgg" + ("p" if pm else ""))
        else:
            kind = rng.choice("lgssss" + ("pp" if pm else ""))
        sup = None
        cands = [j for j in range(i) if kinds[j] == kind and not toks[j].startswith(("C", "A"))]
        if cands and rng.random() < 0.15:
            sup = rng.choice(cands)
        wd = rng.choice(R_WDS)
        if kind in "lg":
            toks.append(host_tok(kind, wd, user=rng.choice(R_USERS), sup=sup))
            kinds.append(kind); cfgs.append({}); vias.append(None)
            continue
        c = rand_cfg(rng, i, kinds)
        if sup is not None:
            c = {**cfgs[sup], **c}      # resolved attributes of the subclass
        if kind == "p" and "user" not in c:
            c["user"] = rng.choice(R_USERS)
        hostname = rng.choice(R_HOSTS)
        via = rng.randrange(i) if kind == "s" else None
        toks.append(host_tok(kind, wd, user=c.get("user"), via=via, sup=sup, hostname=hostname, port=c.get("port"),
                             hk=c.get("hk"), opts=c.get("opts"), auth=c.get("auth"), mux=c.get("mux")))
        kinds.append(kind); cfgs.append(c); vias.append(via)
    ssh = [i for i in range(n) if kinds[i] == "s"]
    if ssh and rng.random() < 0.3:
        op = f"connect/{rng.choice(ssh)}"
    else:
        a = rng.randrange(n)
        r = rng.random()
        if r < 0.35 and ssh:                      # an ssh machine and the host it was created from
            a = rng.choice(ssh); b = vias[a]
        elif r < 0.6:                             # a local host and anything
            loc = [i for i in range(n) if kinds[i] == "l"]
            b = rng.choice(loc) if loc else rng.randrange(n)
        else:
            b = rng.randrange(n)
        if rng.random() < 0.5:
            a, b = b, a
        op = copy_op(a, rng.choice(R_PATHS), b, rng.choice(R_PATHS))
    return " ".join([f"pm/{1 if pm else 0}", op] + toks)


def gen_case(rng, params):
    if rng.random() < 0.5:
        sp = space()
        return product_case(*sp[rng.randrange(len(sp))])
    return random_case(rng)


# ---- evidence helpers ---------------------------------------------------------------------------
def _hosts(line):
    return line.split()[2:]


def _kinds(line):
    ks = []
    for t in _hosts(line):
        f = t.split("/")
        ks.append(ks[int(f[1])] if f[0] in "CA" else f[1])
    return ks


def classify(line, obs):
    toks = line.split()
    op = toks[1].split("/")
    ks = [toks[0], "op=" + op[0], "hosts=%d" % len(toks[2:])]
    kinds = _kinds(line)
    if op[0] == "copy":
        a, b = int(op[1]), int(op[3])
        ks.append("pair=%s>%s%s" % (kinds[a], kinds[b], "(same-index)" if a == b else ""))
    res = obs.split()[0] if obs else "?"
    ks.append("res=" + res)
    ks.append("cmds=%d" % obs.count(";P:"))
    for t in toks[2:]:
        f = t.split("/")
        if f[0] == "H" and f[1] in "sp":
            ks.append("auth=" + (f[10].split(":")[0] or "unset"))
            ks.append("set=%d" % sum(1 for x in (f[4], f[7], f[8], f[9], f[10], f[11]) if x != ""))
        elif f[0] in "CA":
            ks.append("rel=" + f[0])
        if f[0] == "H" and f[2] != "":
            ks.append("rel=subclass")
    return ks


def nontrivial(line, obs):
    return ";P:" in obs


def _refs(tok):
    """host indices a host token refers to, as (field position, value)"""
    f = tok.split("/")
    out = []
    if f[0] in "CA":
        out.append((1, int(f[1])))
    else:
        if f[2] != "":
            out.append((2, int(f[2])))
        if f[3] != "":
            out.append((3, int(f[3])))
        a = f[10].split(":")
        if a[0] == "t":
            out.append((10, int(a[1])))
    return out


def _drop_host(toks, k):
    """the case without host k (None if something refers to it)"""
    op = toks[1].split("/")
    idx = [1] if op[0] == "connect" else [1, 3]
    if any(int(op[i]) == k for i in idx):
        return None
    hosts = toks[2:]
    new = []
    for i, t in enumerate(hosts):
        if i == k:
            continue
        f = t.split("/")
        for pos, v in _refs(t):
            if v == k:
                return None
            if v > k:
                if pos == 10:
                    a = f[10].split(":"); a[1] = str(v - 1); f[10] = ":".join(a)
                else:
                    f[pos] = str(v - 1)
        new.append("/".join(f))
    for i in idx:
        if int(op[i]) > k:
            op[i] = str(int(op[i]) - 1)
    return " ".join([toks[0], "/".join(op)] + new)


def shrink_candidates(line):
    toks = line.split()
    hosts = toks[2:]
    for k in reversed(range(len(hosts))):
        c = _drop_host(toks, k)
        if c:
            yield c
    for i, t in enumerate(hosts):
        f = t.split("/")
        if f[0] != "H":
            continue
        for pos in (4, 7, 8, 9, 10, 11, 2):
            if f[pos] != "" and not (pos == 4 and f[1] in "lgp"):
                g = list(f); g[pos] = ""
                yield " ".join(toks[:2] + hosts[:i] + ["/".join(g)] + hosts[i + 1:])
        if f[9] not in ("", "."):
            o = f[9].split(",")
            for j in range(len(o)):
                g = list(f); g[9] = lst(o[:j] + o[j + 1:])
                yield " ".join(toks[:2] + hosts[:i] + ["/".join(g)] + hosts[i + 1:])
        a = f[10].split(":")
        if a[0] in ("k", "l", "w", "t") and len(a[-1]) > 2:
            g = list(f); g[10] = ":".join(a[:-1] + ["61"])
            yield " ".join(toks[:2] + hosts[:i] + ["/".join(g)] + hosts[i + 1:])
        for pos in (4, 5, 6):
            if f[pos] not in ("", "-") and len(f[pos]) > 2:
                g = list(f); g[pos] = "2f" if pos == 5 else "61"
                yield " ".join(toks[:2] + hosts[:i] + ["/".join(g)] + hosts[i + 1:])
    op = toks[1].split("/")
    if op[0] == "copy":
        for pos in (2, 4):
            if len(op[pos]) > 2:
                g = list(op); g[pos] = "61"
                yield " ".join([toks[0], "/".join(g)] + hosts)
    if toks[0] == "pm/1" and not any(t.startswith("H/p/") for t in hosts):
        yield " ".join(["pm/0"] + toks[1:])


def _dec_arg(a):
    f = a.split("/")
    return repr(unhx(f[1])) if f[0] == "s" else f"Path(host {f[1]}, {unhx(f[2])!r})"


def _dec_obs(obs):
    out = []
    for t in obs.split():
        f = t.split(";")
        if len(f) != 3:
            out.append(t)
            continue
        c = f[2].split(":")
        if c[0] == "P":
            d = lambda s: [] if s == "." else [unhx(x) for x in s.split(",")]  # noqa: E731
            out.append(f"host {f[0]} {'open_channel' if f[1] == 'c' else 'exec0'}: {unhx(c[2])} "
                       f"sshpass={None if c[1] == '_' else unhx(c[1])!r} -o{sorted(d(c[3]))} -i{d(c[4])} port{d(c[5])} "
                       f"operands=[{', '.join(_dec_arg(a) for a in c[6].split(','))}]")
        else:
            out.append(f"host {f[0]} {'open_channel' if f[1] == 'c' else 'exec0'}: "
                       + " ".join(_dec_arg(a) for a in c[1].split(",")))
    return out


def explain(line, impl, model):
    return {"implementation": _dec_obs(impl), "model": _dec_obs(model)}
