"""C07: channel ownership — random borrow/take/IO/config histories over every handle ever
created for one transport, each op probed from outside."""
import contextlib
import vclock
vclock.install()
import tbot  # noqa: E402
import tbot.error  # noqa: E402
from tbot.machine.channel import channel as tch  # noqa: E402
import mockio  # noqa: E402
from wire import hx, unhx, opt  # noqa: E402

tbot.log.VERBOSITY = -1
KIND = "own"
SPECS = ["C07"]
THEOREMS = ["C07.step_ok", "C07.run_refines", "C07.c07"]
QUICK_N, THOROUGH_N = 6000, 100000
QUICK_BUDGET, THOROUGH_BUDGET = 40, 900
CASE_WALL = 20
RULE = ("random histories of <= 25 calls (borrow nested to depth <= 4, take, exceptional/normal end of borrow, every kind of "
        "I/O call, closed/fileno/close/__exit__, configuration mutations and read-backs) addressed to every handle created so "
        "far, including stale, lent and taken ones; non-trivial = the history contains a call on a lent or taken handle; "
        "distinct = distinct histories")
TRUSTED = ["copy.deepcopy semantics for the channel configuration"]
ASSUMPTIONS = ["no I/O is attempted after the transport was closed (out of the property's scope)"]

IO_CALLS = ["read", "write", "send", "sendline", "sendcontrol", "fileno", "readline", "read_until_timeout", "expect"]


class Boom(Exception):
    pass


class BaseBoom(BaseException):
    pass


EXIT_EXCS = [Boom, KeyboardInterrupt, BaseBoom, GeneratorExit, SystemExit]


def gen_case(rng, params):
    n_handles, depth, ops, closed = 1, 0, [], False
    used, made, pending, dropped = [], [], [], set()
    for _ in range(rng.randint(3, 25)):
        h = rng.randrange(n_handles)
        if h in dropped:
            h = 0
        k = rng.random()
        if k < 0.08 and not closed:
            # a read_iter() generator of that handle: created (and advanced once) / advanced again later — an iterator
            # that is already running is I/O through the handle it was made from
            ops.append(rng.choice([f"it+:{h}", f"it.:{h}", f"it.:{h}"]))
        elif k < 0.32 and not closed:
            # which call: drawn per op, biased to the kinds used earlier in the history (a call made before the
            # ownership change must not have left anything behind that answers for the handle afterwards)
            if used and rng.random() < 0.5:
                c = rng.choice(used)
            else:
                c = rng.randrange(len(IO_CALLS))
            used.append(c)
            ops.append(f"io:{h}:{c}")
        elif k < 0.42:
            ops.append(f"closed:{h}")
        elif k < 0.49 and depth < 4:
            ops.append(f"b+:{h}"); depth += 1; n_handles += 1   # (the model decides whether a handle is created)
            made.append(n_handles - 1)
        elif k < 0.52 and depth < 4:
            # the borrow context is CREATED now and entered later (handed to an ExitStack, say): what counts is the
            # state of the handle when the context is entered
            ops.append(f"bc:{h}"); pending.append(h)
        elif k < 0.55 and pending and depth < 4:
            pending.pop(0)
            ops.append("be"); depth += 1; n_handles += 1
            made.append(n_handles - 1)
        elif k < 0.64 and depth > 0:
            ops.append("b-"); depth -= 1
            if made:
                b = made.pop()
                if rng.random() < 0.3 and str(b) not in map(str, pending):
                    # the borrower object is dropped and collected (a helper function returned): nothing may happen to
                    # the transport the lender got back
                    ops.append(f"drop:{b}"); dropped.add(b)
        elif k < 0.66:
            ops.append(f"fb:{h}")             # a borrow() that fails while it is being set up (harness-level, see _run)
        elif k < 0.74:
            ops.append(f"take:{h}"); n_handles += 1
        elif k < 0.80:
            ops.append(f"sp:{h}:{rng.choice(['none', '6162', '3e20'])}")
        elif k < 0.84:
            ops.append(f"sbl:{h}:{rng.choice(['-', '03', '0304'])}")
        elif k < 0.88:
            ops.append(f"ad:{h}:{rng.choice(['4142', '78'])}:{rng.randint(0, 2)}")
        elif k < 0.91:
            ops.append(f"ss:{h}:{rng.choice(['-', '10'])}:{rng.choice([1, 32])}")
        elif k < 0.97:
            ops.append(f"cfg:{h}")
        elif k < 0.985:
            ops.append(f"close:{h}"); closed = True
        else:
            ops.append(f"exit:{h}"); closed = True
    # a handle id may not exist if a borrow/take was refused; such ops are answered `badop` on both sides
    return " ".join(ops)


_death = {}


def dcls(i):
    if i not in _death:
        _death[i] = type(f"D{i}", (tch.DeathStringException,), {"idx": i})
    return _death[i]


class _NoCopy:
    """a log stream that cannot be deep-copied (as a real file object or sys.stdout cannot)"""
    def write(self, s): return len(s)
    def flush(self): pass
    def __deepcopy__(self, memo): raise TypeError("cannot copy this stream")


def cfg_str(ch):
    p = "none" if ch.prompt is None else hx(ch.prompt)
    ds = "+".join(f"{hx(s)}.{e.idx}" for (s, e, _r) in ch.death_strings) or "."
    sd = "-" if ch.slow_send_delay is None else str(vclock.to_ticks(ch.slow_send_delay))
    return f"c/{p}/{hx(bytes(ch._write_blacklist))}/{ds}/{sd}/{ch.slow_send_chunksize}"


def lean_line(line):
    """the Lean side knows one kind of I/O: `io:<h>` (which call it is, and whether it is made through a running
    iterator, must not matter)"""
    out, pending = [], []
    for op in line.split():
        f = op.split(":")
        if f[0] == "bc":
            pending.append(f[1])            # creating the context is not an event
        elif f[0] == "be":
            out.append(f"b+:{pending.pop(0)}" if pending else "io:9999")
        elif f[0] in ("drop", "fb"):
            pass                            # nor is dropping a handle object, nor a borrow() whose set-up FAILED
        else:
            out.append(f"io:{f[1]}" if f[0] in ("io", "it+", "it.") else op)
    return " ".join(out)


def model_request(line, impl):
    return KIND + " " + lean_line(line)


def spec_line(line):
    return lean_line(line)


def run_impl(line):
    with vclock.CLOCK:
        return _run(line)


def _run(line):
    vclock.CLOCK.reset(0)
    io = mockio.ScriptIO([(i, b"a\r\n") for i in range(3000)])
    # the first handle is an instance of the channel class tbot itself creates for local machines (its own
    # constructor would spawn a shell; the transport of this harness is put in instead)
    from tbot.machine.channel import subprocess as tsub
    first = tsub.SubprocessChannel.__new__(tsub.SubprocessChannel)
    tch.Channel.__init__(first, io)
    handles = [first]
    pending = []    # borrow contexts created but not entered yet: (handle index, context manager)
    frames = []     # generator-based context managers of open borrows
    iters = {}      # handle index -> its running read_iter() generator
    out = []
    rot = 0
    for op in line.split():
        f = op.split(":")
        if f[0] == "bc":
            h = int(f[1])
            if h < len(handles) and handles[h] is not None:
                try:
                    pending.append((h, handles[h].borrow()))
                except (tbot.error.ChannelTakenError, tbot.error.ChannelBorrowedError):
                    pending.append((h, None))       # (a refusal at creation time: it is repeated at entry below)
            else:
                pending.append((h, None))
            continue
        if f[0] == "fb":
            # a borrow() whose set-up fails: a log stream that cannot be deep-copied is attached, so the copy of the
            # channel object that borrow() makes raises.  No borrower ever exists; the attempt must leave NOTHING behind
            # (for the model it is not an event) — the operations that follow show whether the lender was locked out
            h = int(f[1])
            if h < len(handles) and handles[h] is not None:
                try:
                    with handles[h].with_stream(_NoCopy()):
                        cm = handles[h].borrow()
                        cm.__enter__()
                        cm.__exit__(None, None, None)
                        out.append("fb-did-not-fail")
                except (TypeError, tbot.error.ChannelTakenError, tbot.error.ChannelBorrowedError):
                    pass
            continue
        if f[0] == "drop":
            import gc
            h = int(f[1])
            if h < len(handles):
                handles[h] = None
            del h
            gc.collect()
            continue
        try:
            res = None
            if f[0] == "be":
                if not pending:
                    res = "badop"
                else:
                    h, cm = pending.pop(0)
                    if h >= len(handles) or handles[h] is None:
                        res = "badop"
                    else:
                        if cm is None:
                            cm = handles[h].borrow()
                        new = cm.__enter__()
                        frames.append((cm, (len(frames) + h) % 2 == 1))
                        handles.append(new); res = f"n{len(handles) - 1}"
            elif f[0] == "b-":
                if not frames:
                    res = "badop"
                else:
                    cm, exceptional = frames.pop()
                    if exceptional:
                        exc_t = EXIT_EXCS[rot % len(EXIT_EXCS)]
                        exc = exc_t("body")
                        try:
                            cm.__exit__(exc_t, exc, None)
                        except BaseException as e:
                            if e is not exc:
                                raise
                    else:
                        cm.__exit__(None, None, None)
                    res = "ok"
            else:
                h = int(f[1])
                if h >= len(handles) or handles[h] is None:
                    res = "badop"
                else:
                    ch = handles[h]
                    k = f[0]
                    if k in ("it+", "it."):
                        it = iters.get(h)
                        if k == "it+" or it is None:
                            it = iters[h] = ch.read_iter(timeout=None)
                        try:
                            try:
                                next(it)
                            except StopIteration:
                                it = iters[h] = ch.read_iter(timeout=None)
                                next(it)
                        except BaseException:
                            iters.pop(h, None)       # a generator that raised is finished
                            raise
                        res = "ok"
                    elif k == "io":
                        if len(f) > 2:
                            call = IO_CALLS[int(f[2]) % len(IO_CALLS)]
                        else:
                            call = IO_CALLS[rot % len(IO_CALLS)]; rot += 1
                        if call == "read": ch.read(1, timeout=1.0)
                        elif call == "write": ch.write(b"x")
                        elif call == "send": ch.send("y")
                        elif call == "sendline": ch.sendline("z")
                        elif call == "sendcontrol": ch.sendcontrol("C")
                        elif call == "fileno": ch.fileno()
                        elif call == "readline": ch.readline(timeout=1.0)
                        elif call == "read_until_timeout": ch.read_until_timeout(vclock.TICK)
                        elif call == "expect": ch.expect("a", timeout=1.0)
                        res = "ok"
                    elif k == "closed":
                        res = "b1" if ch.closed else "b0"
                    elif k == "close":
                        ch.close(); res = "ok"
                    elif k == "exit":
                        ch.__exit__(None, None, None); res = "ok"
                    elif k == "b+":
                        cm = ch.borrow()
                        new = cm.__enter__()
                        frames.append((cm, (len(frames) + h) % 2 == 1))
                        handles.append(new); res = f"n{len(handles) - 1}"
                    elif k == "take":
                        new = ch.take()
                        handles.append(new); res = f"n{len(handles) - 1}"
                    elif k == "sp":
                        ch.prompt = None if f[2] == "none" else unhx(f[2]); res = "ok"
                    elif k == "sbl":
                        rot += 1
                        if rot % 2:
                            ch._write_blacklist = list(unhx(f[2]))
                        else:
                            ch._write_blacklist[:] = list(unhx(f[2]))      # changed in place (like `+=` / append)
                        res = "ok"
                    elif k == "ad":
                        ch.add_death_string(unhx(f[2]), dcls(int(f[3]))); res = "ok"
                    elif k == "ss":
                        ch.slow_send_delay = None if f[2] == "-" else int(f[2]) * vclock.TICK
                        ch.slow_send_chunksize = int(f[3]); res = "ok"
                    elif k == "cfg":
                        res = cfg_str(ch)
                    else:
                        raise ValueError(op)
        except tbot.error.ChannelTakenError:
            res = "et"
        except tbot.error.ChannelBorrowedError:
            res = "eb"
        out.append(f"{res};{1 if io.closed else 0};{io.close_calls}")
    for cm, _ in reversed(frames):
        try:
            cm.__exit__(None, None, None)
        except Exception:
            pass
    return " ".join(out)


def classify(line, obs):
    ks = []
    for op, o in zip(line.split(), obs.split()):
        ks.append("op=" + op.split(":")[0])
        r = o.split(";")[0]
        ks.append("res=" + (r if r in ("ok", "eb", "et", "b0", "b1", "badop") else r[0]))
    return ks


def nontrivial(line, obs):
    return any(o.split(";")[0] in ("eb", "et") for o in obs.split())


def shrink_candidates(line):
    ops = line.split()
    for i in range(len(ops)):
        yield " ".join(ops[:i] + ops[i + 1:])
