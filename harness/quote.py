"""Implementation side of the quoting checks C01Q / C19Q (driver kind `quote`).

Runs the REAL `Bash.escape`, `Ash.escape`, `UBootShell.escape` (and through them `shlex.quote`,
`_hush_quote`, the `linux.special` tokens) on stub machines that are never connected, and the REAL
`bash` / `dash` binaries for the validation of the POSIX splitter model.  Prints observations in
the wire syntax of lean/TbotVerif/Driver/Quote.lean.

case lines (after the kind `quote`):
    esc <bash|ash> <bl> <args>      hush <bl> <args>      split <line>
    <args> = . | item{,item};  item = s:<hex> | p:<hex> | r:<hex> | t:<name> | d:<name>:<hex> | o
"""
import os, subprocess, sys, tempfile

import tbot

tbot.log.VERBOSITY = -1
from tbot.machine import board, connector, linux  # noqa: E402

from wire import hx, unhx  # noqa: E402

KIND = "quote"
CASE_WALL = 20


class StubBash(connector.SubprocessConnector, linux.Bash):
    name = "stub-bash"


class StubAsh(connector.SubprocessConnector, linux.Ash):
    name = "stub-ash"


class StubUBoot(connector.SubprocessConnector, board.UBootShell):
    name = "stub-uboot"


_MACH = {}


def machine(kind):
    """the machines are only constructed, never entered: `escape` needs no channel"""
    if kind not in _MACH:
        _MACH[kind] = {"bash": StubBash, "ash": StubAsh, "hush": StubUBoot}[kind]()
    return _MACH[kind]


STATIC = {"pipe": "Pipe", "then": "Then", "and": "AndThen", "or": "OrElse", "bg": "Background"}
REDIR = {"out": "RedirStdout", "err": "RedirStderr", "both": "RedirBoth", "in": "RedirStdin",
         "aout": "AppendStdout", "aerr": "AppendStderr", "aboth": "AppendBoth"}


class Unsupported(Exception):
    pass


def text(h):
    try:
        return unhx(h).decode("utf-8")
    except UnicodeDecodeError:
        raise Unsupported("non-utf8-str")


def build_args(host, spec):
    """wire items -> the Python objects handed to `escape`"""
    if spec == ".":
        return []
    out = []
    for item in spec.split(","):
        f = item.split(":")
        if f[0] == "s" and len(f) == 2:
            out.append(text(f[1]))
        elif f[0] == "p" and len(f) == 2:
            out.append(linux.Path(_path_host(host), text(f[1])))
        elif f[0] == "r" and len(f) == 2:
            out.append(linux.Raw(text(f[1])))
        elif f[0] == "t" and len(f) == 2 and f[1] in STATIC:
            out.append(getattr(linux, STATIC[f[1]]))
        elif f[0] == "d" and len(f) == 3 and f[1] in REDIR:
            out.append(getattr(linux, REDIR[f[1]])(linux.Path(_path_host(host), text(f[2]))))
        elif f == ["o"]:
            out.append(object())
        else:
            raise Unsupported("item " + item)
    return out


def _path_host(host):
    # a linux.Path needs a Linux host; for the U-Boot stub any Linux stub will do (it is rejected anyway)
    return host if isinstance(host, linux.LinuxShell) else machine("bash")


def run_escape(kind, spec):
    host = machine(kind)
    try:
        args = build_args(host, spec)
    except Unsupported as e:
        return "unsupported/" + str(e).replace(" ", "_")
    try:
        s = host.escape(*args)
    except TypeError:
        return "x:TypeError"
    try:
        return "l:" + hx(s.encode("utf-8"))
    except UnicodeEncodeError:
        return "unsupported/unencodable"


# ---- real shells --------------------------------------------------------------------------

HELPER = 'l=$1; set --; eval "set -- $l" || exit 9; printf "%s\\0" "$#" "$@"'
SHELLS = [("bash", ["/bin/bash", "--norc", "--noprofile"]), ("dash", ["/bin/dash"])]


def tier():
    if "--tier" in sys.argv:
        return sys.argv[sys.argv.index("--tier") + 1]
    return os.environ.get("VERIF_TIER", "quick")


def locales():
    return ["C.UTF-8", "C"] if tier() == "thorough" else ["C.UTF-8"]


_CWD = None


def shell_words(argv, line: bytes, lc):
    """argument vector the shell derives from `set -- <line>`; None on a syntax error.  Runs in an
    empty scratch directory with an empty PATH (belt and braces: only lines the model accepts get here)."""
    global _CWD
    if _CWD is None:
        _CWD = tempfile.mkdtemp(prefix="quote-shell-")
        import atexit, shutil
        atexit.register(shutil.rmtree, _CWD, True)
    p = subprocess.run(argv + ["-c", HELPER, "_", line], stdin=subprocess.DEVNULL, stdout=subprocess.PIPE,
                       stderr=subprocess.DEVNULL, env={"LC_ALL": lc, "PATH": "/nonexistent"}, timeout=10, cwd=_CWD)
    if p.returncode != 0:
        return None
    parts = p.stdout.split(b"\0")
    if not parts or parts[-1] != b"":
        return None
    parts = parts[:-1]
    n = int(parts[0])
    ws = parts[1:]
    if len(ws) != n:
        return None
    return ws


_LEAN = None


def lean():
    global _LEAN
    if _LEAN is None:
        from leanproc import Lean
        _LEAN = Lean()
    return _LEAN


def words_wire(ws):
    return "w:" + (",".join(hx(w) for w in ws) if ws else ".")


def run_split(h):
    """One-directional validation: only lines the Lean splitter ACCEPTS are handed to the real
    shells (a refused line may contain live operators, substitutions or redirections, which must
    not be executed here); for those the shells must print exactly the model's words."""
    line = unhx(h)
    if b"\0" in line:
        return "unsupported/nul"
    verdict = lean().ask("quote split " + h)
    if verdict == "hazard":
        return "hazard"
    results = {}
    for name, argv in SHELLS:
        for lc in locales():
            ws = shell_words(argv, line, lc)
            results[(name, lc)] = None if ws is None else tuple(ws)
    vals = set(results.values())
    if len(vals) != 1:
        return "shells-disagree/" + "/".join(f"{k[0]}.{k[1]}={'ERR' if v is None else words_wire(v)[2:]}"
                                             for k, v in sorted(results.items()))
    (v,) = vals
    if v is None:
        return "shell-syntax-error"
    return words_wire(list(v))


def run_case(line):
    toks = line.split()
    if toks[0] == "esc" and len(toks) == 4 and toks[1] in ("bash", "ash"):
        return run_escape(toks[1], toks[3])
    if toks[0] == "hush" and len(toks) == 3:
        return run_escape("hush", toks[2])
    if toks[0] == "split" and len(toks) == 2:
        return run_split(toks[1])
    return "unsupported/case"


# ---- generator building blocks (everything from the one rng) -----------------------------------

SAFE = "abzAZ09_@%+=:,./-"
POSIX_HAZ = ["'", '"', "\\", "$", "`", "!", "*", "?", "[", "]", "{", "}", "~", "#", ";", "&", "|", "<", ">", "(", ")",
             " ", "\t", "\n", "^"]
HUSH_HAZ = ["'", '"', "\\", "$", ";", "&", "|", "#", " ", "=", "*", "?", "!", "`", "~", "(", ")", "<", ">", "{", "}"]
NONASCII = ["é", "ÿ", "\u0080", "✓", "￿", "\U0001f600", "\U0010ffff", "߿", "ࠀ"]
CTRL = [chr(c) for c in list(range(1, 32)) + [127] if c not in (13,)]
SNIPPETS_POSIX = ["$x", "${x}", "$(id)", "`id`", "!!", "a b", "'\"'", "\\'", "\\\\", "*.c", "~root", "a;b", "a&&b", "$?",
                  "\\\n", "''", '""', "'\\''", "-n", "--", "a=b"]
SNIPPETS_HUSH = ["$x", "${x}", "a;b", "a&&b", "a||b", "#c", "\\'", "\\\\", "'\\''", "\\", "a\\", "\\\\\\", "''", '""',
                 "a b", "$?", "=> ", "a'b", "'", "\\'\\"]


def gen_string(rng, haz, snippets, allow_ctrl, long_ok=True):
    r = rng.random()
    if r < 0.06:
        return ""
    if r < 0.16:
        return "".join(rng.choice(SAFE) for _ in range(rng.randint(1, 8)))
    if r < 0.22:
        return rng.choice(snippets)
    if long_ok and r < 0.25:
        n = rng.randint(500, 530)
    else:
        n = rng.choice([1, 1, 2, 2, 3, 3, 4, 5, 6, 8, 12, 20])
    out = []
    for _ in range(n):
        k = rng.random()
        if k < 0.35:
            out.append(rng.choice(SAFE))
        elif k < 0.75:
            out.append(rng.choice(haz))
        elif k < 0.85:
            out.append(rng.choice(NONASCII))
        elif k < 0.92:
            out.append(rng.choice(snippets))
        elif allow_ctrl and k < 0.97:
            out.append(rng.choice(CTRL))
        else:
            out.append(rng.choice(SAFE))
    return "".join(out)


def gen_path(rng, haz):
    """an absolute, already normalised path (PurePosixPath leaves it unchanged)"""
    comps = []
    for _ in range(rng.randint(1, 3)):
        c = "".join(rng.choice(SAFE + "".join(h for h in haz if h != "/") + "é") for _ in range(rng.randint(1, 5)))
        if c in (".", ""):
            c = "x"
        comps.append(c.replace("/", "_").replace("\0", "_"))
    return "/" + "/".join(comps)


def chars(s):
    return hx(s.encode("utf-8"))


BLACKLISTS = [b"", b"", b"\x03", bytes([0, 3, 4, 0x15, 0x17, 0x1a, 0x1c, 0x7f]), b"$", b"a", b"\n", b"\r\n", b" ", b"'",
              b'"\x03', b"\\", bytes(range(0, 32))]


def gen_bl(rng):
    return hx(rng.choice(BLACKLISTS))


def arg_items(spec):
    return [] if spec == "." else spec.split(",")


def items_wire(items):
    return ",".join(items) if items else "."


def shrink_text(s):
    """shorter variants of a str (character-wise, so UTF-8 stays valid)"""
    for i in range(len(s)):
        yield s[:i] + s[i + 1:]
    if len(s) > 4:
        yield s[: len(s) // 2]
        yield s[len(s) // 2:]
    for i, c in enumerate(s):
        if c != "a" and c not in "'\\\"$ ":
            yield s[:i] + "a" + s[i + 1:]


def shrink_items(items):
    for i in range(len(items)):
        yield items[:i] + items[i + 1:]
    for i, it in enumerate(items):
        f = it.split(":")
        if f[0] in ("s", "r", "p", "d") and f[-1] != "-":
            try:
                s = unhx(f[-1]).decode("utf-8")
            except UnicodeDecodeError:
                continue
            for t in shrink_text(s):
                if f[0] in ("p", "d") and not t.startswith("/"):
                    continue
                yield items[:i] + [":".join(f[:-1] + [chars(t)])] + items[i + 1:]
        if f[0] in ("t", "d", "p", "r", "o"):
            yield items[:i] + ["s:61"] + items[i + 1:]


def shrink_candidates(line):
    toks = line.split()
    if toks[0] == "split":
        b = unhx(toks[1])
        for i in range(len(b)):
            yield "split " + hx(b[:i] + b[i + 1:])
        return
    head, bl, spec = toks[:-2], toks[-2], toks[-1]
    if bl != "-":
        yield " ".join(head + ["-", spec])
    for cand in shrink_items(arg_items(spec)):
        yield " ".join(head + [bl, items_wire(cand)])
    if toks[0] == "esc" and toks[1] == "ash":
        yield " ".join(["esc", "bash"] + toks[2:])
