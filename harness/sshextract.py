"""C20 parameters: the defaults of the connection properties of `SSHConnector` and
`ParamikoConnector`, read from instances of bare user-style subclasses (behavioural: import,
instantiate, look).  paramiko is not installed here, so `connector/paramiko.py` is imported
with an empty stand-in module named `paramiko`; nothing of it is ever called."""
import importlib
import sys
import types


def _paramiko_connector():
    from tbot.machine import connector
    if hasattr(connector, "ParamikoConnector"):
        return connector.ParamikoConnector

    class _Anything(types.ModuleType):
        def __getattr__(self, name):
            if name.startswith("__"):
                raise AttributeError(name)
            return type(name, (), {})

    saved = sys.modules.get("paramiko", None)
    sys.modules["paramiko"] = _Anything("paramiko")
    try:
        mod = importlib.import_module("tbot.machine.connector.paramiko")
        return mod.ParamikoConnector
    finally:
        sys.modules.pop("tbot.machine.connector.paramiko", None)
        if saved is None:
            sys.modules.pop("paramiko", None)
        else:
            sys.modules["paramiko"] = saved


def extract(p):
    from tbot.machine import connector, linux
    from tbot.machine.linux import auth

    class S(connector.SSHConnector, linux.Bash):
        hostname = "h"
        username = "u"

    s = S(None)
    p["sshDefaultPort"] = int(s.port)
    p["sshDefaultIgnoreHostkey"] = bool(s.ignore_hostkey)
    p["sshDefaultMux"] = bool(s.use_multiplexing)
    # the model hard-codes these two; fail loudly if the tree disagrees
    assert s.ssh_config == [], "SSHConnector.ssh_config default is not []"
    assert isinstance(s.authenticator, auth.NoneAuthenticator), "SSHConnector.authenticator default changed"

    PC = _paramiko_connector()

    class P(PC, linux.Bash):
        hostname = "h"
        username = "u"

    q = P()
    p["pmDefaultPort"] = int(q.port)
    p["pmDefaultIgnoreHostkey"] = bool(q.ignore_hostkey)
    assert isinstance(q.authenticator, auth.NoneAuthenticator), "ParamikoConnector.authenticator default changed"
