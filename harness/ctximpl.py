"""Run a context program (wire form) on the REAL `tbot.Context` with instrumented machine classes
and print the same observation line the Lean model prints (`Ctx.Wire.obs`).

Case line:   <ka> <roe> <deps> <initFaults> <downFaults> <program tokens…>
  deps        classes separated by `/`; each `.` or a `,`-list of `d:x` (dependency class, exclusive flag)
  faults      `.` or `,`-list of 1-based ordinals of machine initialisations / machine teardowns that raise
  program     `R:c:reset:excl:roe` … `)`   with ctx.request(role c, …): …        (roe ∈ 0 1 -)
              `C` … `)`                    with ctx: …
              `K:ka:roe` … `)`             with ctx.reconfigure(keep_alive=, reset_on_error_by_default=): …
              `T` … `)`                    try: … except BaseException: pass
              `raise` | `skip` | `td:c`    raise an exception / pytest.skip() / ctx.teardown_if_alive(role c)

Observation: blank separated events
  i:c:o d:c:o        machine of class c, object o initialised / torn down   (o = id() renamed by first appearance)
  y:c:o r:c          a program request yielded o / the request block was left
  q:c:o u:c          a request made inside from_context yielded o / was released
  C+ Cx C-           `with ctx` entered / body finished / left
  t:c:b              teardown_if_alive returned b
  x:k:n              exception n of kind k created by the harness (b body, s skip, fi init fault, fd teardown fault)
  l:k:n              exception n leaves a request / ctx / reconfigure / teardown_if_alive statement
  c:k:n              exception n caught by a `T` block
  end:-  end:k:n     outcome of the whole program
No hooks in tbot: the machines are ordinary `machine.Machine` subclasses whose connector logs."""
import contextlib
import sys

import tbot
import tbot.error
import tbot.role
from tbot import machine

tbot.log.VERBOSITY = -1
# generators that are finalised by the garbage collector (only on a tree with the F9 defect) must not spam stderr
sys.unraisablehook = lambda *a: None

try:
    import _pytest.outcomes as _po
    Skipped = _po.Skipped
except Exception:  # pragma: no cover
    Skipped = None


class BodyError(Exception):
    pass


class BodyInterrupt(BaseException):
    """bodies are also left by non-`Exception` exceptions (KeyboardInterrupt-like)"""


class InitFault(Exception):
    pass


class DownFault(Exception):
    pass


class InitFaultB(BaseException):
    """every second injected fault is a non-`Exception` exception (KeyboardInterrupt-like)"""


class DownFaultB(BaseException):
    pass


class Stub:
    """stands in for the channel: never touched by Context / Machine life-cycle code"""


class Harness:
    def __init__(self, ka, roe, deps, fi, fd):
        self.log = []
        self.deps = deps
        self.fi, self.fd = set(fi), set(fd)
        self.n_init = 0
        self.n_down = 0
        self.objs = {}      # id(obj) -> number
        self.excs = {}      # id(exc) -> number
        self.keep = []      # keep every object alive so that id() is never reused
        self.n_raise = 0
        self.ctx = tbot.Context(keep_alive=ka, reset_on_error_by_default=roe)
        self.roles = [type(f"Role{c}", (tbot.role.Role,), {}) for c in range(len(deps))]
        self.classes = [self.make_class(c) for c in range(len(deps))]
        for c, cls in enumerate(self.classes):
            self.ctx.register(cls, self.roles[c])
            assert self.ctx.get_machine_class(self.roles[c]) is cls

    # ---- naming ------------------------------------------------------------------------
    def oid(self, o):
        if id(o) not in self.objs:
            self.objs[id(o)] = len(self.objs)
            self.keep.append(o)
        return self.objs[id(o)]

    def kind(self, e):
        if isinstance(e, (BodyError, BodyInterrupt)):
            return "b"
        if Skipped is not None and isinstance(e, Skipped):
            return "s"
        if isinstance(e, (InitFault, InitFaultB)):
            return "fi"
        if isinstance(e, (DownFault, DownFaultB)):
            return "fd"
        if isinstance(e, tbot.error.ContextError):
            return "ctx"
        return "other/" + type(e).__name__

    def exc(self, tag, e):
        if id(e) not in self.excs:
            self.excs[id(e)] = len(self.excs)
            self.keep.append(e)
        self.log.append(f"{tag}:{self.kind(e)}:{self.excs[id(e)]}")

    # ---- instrumented machine classes ---------------------------------------------------
    def make_class(self, c):
        H = self

        class M(machine.Machine):
            cls_index = c

            def __init__(self, *built_from):
                self.built_from = built_from
                self.failing_init = False

            @classmethod
            @contextlib.contextmanager
            def from_context(cls, ctx):
                # same shape as board.Connector.from_context / ConsoleConnector.from_context
                with contextlib.ExitStack() as cx:
                    got = []
                    for d, excl in H.deps[c]:
                        entered = [False]
                        cx.callback(lambda d=d, entered=entered: entered[0] and H.log.append(f"u:{d}"))
                        if excl:
                            b = cx.enter_context(ctx.request(H.roles[d], exclusive=True))
                        else:
                            b = cx.enter_context(ctx.request(H.roles[d]))
                        entered[0] = True
                        H.log.append(f"q:{d}:{H.oid(b)}")
                        got.append(b)
                    # every other class hands out an instance of a class DERIVED at run time (as tbot's default
                    # build-host role does with its proxy class): the context files it under the registered class
                    made = type(f"{cls.__name__}Proxy", (cls,), {}) if c % 2 == 1 else cls
                    m = cx.enter_context(made(*got))
                    yield m

            @contextlib.contextmanager
            def _connect(self):
                H.n_init += 1
                H.log.append(f"i:{c}:{H.oid(self)}")
                try:
                    yield Stub()
                finally:
                    H.log.append(f"d:{c}:{H.oid(self)}")
                    if not self.failing_init:
                        H.n_down += 1
                        if H.n_down in H.fd:
                            e = (DownFault if H.n_down % 2 else DownFaultB)(f"teardown {H.n_down}")
                            H.exc("x", e)
                            raise e

            @contextlib.contextmanager
            def _init_shell(self):
                yield None

            def init(self):
                if H.n_init in H.fi:
                    self.failing_init = True
                    e = (InitFault if H.n_init % 2 else InitFaultB)(f"init {H.n_init}")
                    H.exc("x", e)
                    raise e

            def clone(self):
                raise NotImplementedError

        M.__name__ = M.__qualname__ = f"Mach{c}"
        return M

    # ---- program interpreter ------------------------------------------------------------
    def run_block(self, body):
        for s in body:
            self.run_stmt(s)

    def run_stmt(self, s):
        k = s[0]
        if k == "R":
            _, c, reset, excl, roe, body = s
            try:
                kw = {}
                if reset:
                    kw["reset"] = True
                if excl:
                    kw["exclusive"] = True
                if roe is not None:
                    kw["reset_on_error"] = roe
                entered = False
                self.n_req = getattr(self, "n_req", 0) + 1
                try:
                    if self.n_req % 3 == 0:
                        # the documented other way to make a request: through a handle (`with ctx() as cx:`), whose
                        # block is the life-time of the request
                        with self.ctx() as cx:
                            m = cx.request(self.roles[c], **kw)
                            entered = True
                            self.log.append(f"y:{c}:{self.oid(m)}")
                            self.run_block(body)
                    else:
                        with self.ctx.request(self.roles[c], **kw) as m:
                            entered = True
                            self.log.append(f"y:{c}:{self.oid(m)}")
                            self.run_block(body)
                finally:
                    if entered:
                        self.log.append(f"r:{c}")
            except BaseException as e:
                self.exc("l", e)
                raise
        elif k == "C":
            self.log.append("C+")
            try:
                with self.ctx:
                    try:
                        self.run_block(s[1])
                    finally:
                        self.log.append("Cx")
            except BaseException as e:
                self.log.append("C-")
                self.exc("l", e)
                raise
            else:
                self.log.append("C-")
        elif k == "K":
            _, ka, roe, body = s
            try:
                with self.ctx.reconfigure(keep_alive=ka, reset_on_error_by_default=roe):
                    self.run_block(body)
            except BaseException as e:
                self.exc("l", e)
                raise
        elif k == "T":
            try:
                self.run_block(s[1])
            except BaseException as e:
                self.exc("c", e)
        elif k == "raise":
            self.n_raise += 1
            e = BodyError("body") if self.n_raise % 2 else BodyInterrupt("body")
            self.exc("x", e)
            raise e
        elif k == "skip":
            e = Skipped("skipped")
            self.exc("x", e)
            raise e
        elif k == "td":
            try:
                b = self.ctx.teardown_if_alive(self.roles[s[1]])
                self.log.append(f"t:{s[1]}:{1 if b else 0}")
            except BaseException as e:
                self.exc("l", e)
                raise
        else:
            raise ValueError(s)


# ---- wire parsing ---------------------------------------------------------------------------
def obool(t):
    return None if t == "-" else t == "1"


def parse_case(line):
    toks = line.split()
    ka, roe = toks[0] == "1", toks[1] == "1"
    deps = []
    for part in toks[2].split("/"):
        deps.append([] if part == "." else [(int(x.split(":")[0]), x.split(":")[1] == "1") for x in part.split(",")])
    fi = [] if toks[3] == "." else [int(x) for x in toks[3].split(",")]
    fd = [] if toks[4] == "." else [int(x) for x in toks[4].split(",")]
    prog, rest = parse_block(toks[5:], top=True)
    assert not rest
    return ka, roe, deps, fi, fd, prog


def parse_block(toks, top=False):
    out = []
    while toks:
        t = toks[0]
        if t == ")":
            if top:
                raise ValueError("unbalanced )")
            return out, toks[1:]
        toks = toks[1:]
        if t.startswith("R:"):
            _, c, r, x, o = t.split(":")
            body, toks = parse_block(toks)
            out.append(("R", int(c), r == "1", x == "1", obool(o), body))
        elif t == "C":
            body, toks = parse_block(toks)
            out.append(("C", body))
        elif t.startswith("K:"):
            _, ka, roe = t.split(":")
            body, toks = parse_block(toks)
            out.append(("K", obool(ka), obool(roe), body))
        elif t == "T":
            body, toks = parse_block(toks)
            out.append(("T", body))
        elif t in ("raise", "skip"):
            out.append((t,))
        elif t.startswith("td:"):
            out.append(("td", int(t[3:])))
        else:
            raise ValueError(t)
    if not top:
        raise ValueError("missing )")
    return out, []


def run_case(line):
    ka, roe, deps, fi, fd, prog = parse_case(line)
    H = Harness(ka, roe, deps, fi, fd)
    old = sys.getrecursionlimit()
    try:
        H.run_block(prog)
        H.log.append("end:-")
    except BaseException as e:
        if isinstance(e, (KeyboardInterrupt, SystemExit, MemoryError)) or type(e).__name__ == "WallTimeout":
            raise
        H.exc("end", e)
    finally:
        sys.setrecursionlimit(old)
    return " ".join(H.log)


if __name__ == "__main__":
    for ln in sys.stdin:
        ln = ln.strip()
        if ln and not ln.startswith("#"):
            print(run_case(ln))
