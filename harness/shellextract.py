"""Parameters of the Linux shell drivers, observed from the running code."""


def extract(p: dict) -> None:
    from tbot.machine.linux import bash, ash
    p["bashPrompt"] = bytes(bash.TBOT_PROMPT)
    p["ashPrompt"] = bytes(ash.TBOT_PROMPT)
    # black-lists: run the real _init_shell against the real shells and look
    import shellio
    for kind, key in (("bash", "bashBlacklist"), ("dash", "ashBlacklist")):
        m = shellio.make_machine(kind)
        with m:
            p[key] = bytes(sorted(m.ch._write_blacklist))
        m._verif_io["io"].close()
