"""Generators for channel op-sequence cases (wire form)."""
import regen
from wire import hx, opt, lst

PROMPTS = [b"PROMPT> ", b"=> ", b"$ ", b"ab", b"aab", b"aa", b"\r\n# ", b"x", "\u279c ".encode(), "\xe9> ".encode()]
ALPHA = b"abx \r\n"


def rbytes(rng, n, alphabet=ALPHA):
    return bytes(rng.choice(alphabet) for _ in range(n))


def utf8_bits(rng):
    return rng.choice([b"\xc3\xa9", b"\xe2\x9c\x93", b"\xf0\x9f\x98\x80", b"\xc3", b"\xe2\x9c", b"\xff",
                       b"\x80", b"\xf0\x9f", b"\xed\xa0\x80", b"\xc0\xaf", b"\xf4\x90"])


def gen_stream(rng, prompt: bytes, n_cmds=1, with_tail=True):
    """output pieces that look like shell traffic: noise, look-alikes, CR/LF, split UTF-8,
    then (usually) the prompt"""
    out = bytearray()
    for _ in range(n_cmds):
        for _ in range(rng.randint(0, 6)):
            k = rng.random()
            if k < 0.35:
                out += rbytes(rng, rng.randint(1, 6))
            elif k < 0.55 and prompt:
                out += prompt[: rng.randint(1, len(prompt))]          # look-alike prefix
            elif k < 0.65 and prompt:
                out += prompt                                          # full prompt mid-stream
            elif k < 0.8:
                out += rng.choice([b"\r\n", b"\n\r", b"\r", b"\n", b"\r\r\n", b"\r\n\r"])
            else:
                out += utf8_bits(rng)
        if with_tail and rng.random() < 0.85:
            out += prompt
    return bytes(out)


def cut(rng, data: bytes, mode=None):
    """random composition of `data` into non-empty pieces"""
    if not data:
        return []
    mode = mode or rng.choice(["one", "bytes", "few", "rand", "rand"])
    if mode == "one":
        return [data]
    if mode == "bytes":
        return [data[i:i + 1] for i in range(len(data))]
    n = len(data)
    if mode == "few":
        k = min(n - 1, rng.randint(1, 3))
    else:
        k = rng.randint(0, n - 1)
    cuts = sorted(rng.sample(range(1, n), k)) if n > 1 and k > 0 else []
    pieces, last = [], 0
    for c in cuts + [n]:
        pieces.append(data[last:c]); last = c
    return pieces


def page_cut(rng, data: bytes, page: int, marks=()):
    """pieces of EXACTLY `page` bytes (the most one transport read hands out): filler is put in front of `data` so
    that a page boundary falls at an interesting offset — one of `marks` (ends of prompts / matches), or the end of the
    data, give or take a byte — and what follows arrives as further pieces.  Returns (new data, pieces)."""
    ends = [m for m in marks if 0 < m <= len(data)] or [len(data)]
    target = rng.choice(ends) + rng.choice([0, 0, 0, -1, 1])
    target = max(1, min(len(data), target))
    pad = (-target) % page
    if pad + target < page:
        pad += page
    k = rng.choice([1, 1, 2]) if pad + target >= 2 * page else 1
    filler = bytes(rng.choice(b"xyz.") for _ in range(pad))
    data = filler + data
    cut_at = pad + target
    head = [data[i:i + page] for i in range(0, cut_at, page)]
    rest = data[cut_at:]
    tail = cut(rng, rest, rng.choice(["one", "few", "rand"])) if rest else []
    return data, head + tail


def schedule(rng, pieces, mode=None, t_max=4096):
    """arrival ticks, non-decreasing"""
    mode = mode or rng.choice(["zero", "zero", "steady", "burst", "rand"])
    ticks, t = [], 0
    gap = rng.choice([1, 256, 512, 1024, 1536])
    for i, _ in enumerate(pieces):
        if mode == "zero":
            t = 0
        elif mode == "steady":
            t += gap
        elif mode == "burst":
            if rng.random() < 0.3:
                t += rng.choice([512, 1024, 3072])
        else:
            t += rng.choice([0, 0, 1, 100, 512, 1024, 2048])
        ticks.append(t)
    return ticks


def script_wire(ticks, pieces):
    return lst(f"{t}@{hx(p)}" for t, p in zip(ticks, pieces))


def gen_pat(rng, literal_only=False):
    if literal_only or rng.random() < 0.65:
        b = rng.choice(PROMPTS) if rng.random() < 0.6 else rbytes(rng, rng.randint(1, 4), b"abx\r\n ")
        return regen.Pat("lit", b)
    return regen.Pat("re", regen.gen(rng, b"abx >\r\n", depth=rng.randint(1, 3)))


def timeout_choice(rng):
    return rng.choice([None, None, 0, 1, 512, 1024, 3072])


def case_line(chunk, slice_, script, accept, ops):
    return " ".join([str(chunk), str(slice_), script, lst(str(a) for a in accept)] + ops)
