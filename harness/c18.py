"""C18 — board bring-up reaches the login-complete state for any console timing or times out
duly.  The REAL board classes (boardimpl.py) against the Lean model (`board …`) on generated
configurations and staged consoles (boardgen.py); `Spec.C18` — a reference monitor over the
transport/power/hook events — evaluated on the implementation's observation."""
import itertools
import boardimpl
import boardgen as g
from wire import hx

KIND = "board"
SPECS = ["C18"]
THEOREMS = ["C18.run_spec", "C18.run_monitor", "C18.coopB_sound", "C18.monitorOk_unfold", "C18.bringup_final", "C18.coop_success", "C18.coop_spec", "C18.model_verdict", "C18.model_deadline_linux", "C18.model_deadline_uboot",
            "C18.C18_unfold", "C18.accepted_start", "C18.deadline_linux", "C18.deadline_uboot",
            "C18.timeout_only_when_configured", "C18.ok_only_at_end", "C18.credentials", "C18.password_skipped",
            "C18.hitOf_sound", "C18.bootlogs", "C18.log_grows", "C18.f10_asIs_rejected",
            "Board.lnxUp_sim", "Board.ubUp_sim", "Board.ubLoop_sim", "Board.ubBoot_sim", "Board.waitLoop_out",
            "Board.waitLoop_progress", "Board.riTake_progress", "Board.sim_rd", "Board.sim_wr"]
LEAN_MODULES = ["TbotVerif.Props.C18Ex"]
QUICK_N, THOROUGH_N = 4000, 60000
QUICK_BUDGET, THOROUGH_BUDGET = 40, 600
CASE_WALL = 20
RULE = ("random configurations (U-Boot only / Linux / Linux through U-Boot; autoboot prompt default regex, literal, "
        "random regex or None; keys; login_delay 0/2 s/0.3 s; no_password_timeout None/5 s/1 s/0.1 s; boot_timeout "
        "None/0/0.5…10 s; ± askfirst; password None/empty/non-empty; literal or regex password prompt) x consoles that "
        "follow the protocol with garbage before the prompts, cut whole/few/many/byte-wise, on four tempo profiles, "
        "with one fault (stall, truncated prompt, late piece, trailing output, ^C answered, wrong trigger, a stage ending "
        "at a deadline +-1 tick, random stages); a case is non-trivial when at least two deliveries and one write "
        "happened or bring-up failed after a delivery; distinct = distinct case lines")
TRUSTED = ["harness/boardio.py implements the console of Model/Board.lean (`stamp`, `insertPiece`, `react`) and the "
           "transport contract of Model/Channel.lean (`ioRead`, `ioWrite`); compared event by event on every case",
           "CPython `re` agrees with the Lean matcher on the regex subset (C02/C04 checks)",
           "`EventIO.write`'s replace chain is `Log.normalise` (C17 check)"]
ASSUMPTIONS = ["virtual time: tbot is infinitely fast, the transport honours its time-out (C06)",
               "user name and password contain no byte of the write black-list in force and fit one send slice",
               "the bring-up is observed up to login complete (machines composed with RawShell); the shell hand-shake "
               "after it has no deadline in tbot and is the subject of C01",
               "the bootlog is compared as `EventIO` stores it: per delivered fragment, UTF-8 decoding with replacement, "
               "the seven terminal-control sequences deleted and CR/LF pairs normalised (`Log.normalise`, C17)"]


def gen_case(rng, params):
    return g.gen_case(rng, params)


def run_impl(line):
    return boardimpl.run_case(line)


def _events(obs):
    return obs.split()[3:]


_lean = None


def is_coop(line):
    """does the case satisfy the hypotheses of theorem (c)?  (`Spec.coopB`, decided by the Lean driver)"""
    global _lean
    if _lean is None:
        from leanproc import Lean
        _lean = Lean()
    return _lean.ask("coop " + line) == "1"


def classify(line, obs):
    toks = line.split()
    ks = []
    mode = ("ublnx" if toks[2] != "-" and toks[3] != "-" else "ub" if toks[3] == "-" else "lnx")
    ks.append("mode=" + mode)
    o = obs.split()
    ks.append("res=" + o[0].split("/")[0])
    evs = _events(obs)
    nr = sum(1 for e in evs if e.startswith("r/") and not e.endswith("/!"))
    ks.append("deliveries=" + ("0" if nr == 0 else "1" if nr == 1 else "2-5" if nr <= 5 else "6-20" if nr <= 20 else "21+"))
    nint = sum(1 for e in evs if e.startswith("w/") and e.endswith("/03"))
    ks.append("intr=" + ("0" if nint == 0 else "1-3" if nint <= 3 else "4+"))
    ks.append("chunk=" + toks[0])
    if toks[2] != "-":
        f = toks[2].split(";")
        ks.append("autoboot=" + ("none" if f[0] == "~" else "default" if f[0] == boardimpl.DEFAULT_AUTOBOOT_WIRE
                                 else "literal" if f[0].startswith("L") else "regex"))
        ks.append("ubT=" + f[3])
    if toks[3] != "-":
        f = toks[3].split(";")
        ks.append("askfirst=" + ("no" if f[0] == "~" else "yes"))
        ks.append("delay=" + f[2])
        ks.append("password=" + ("none" if f[4] == "~" else "set"))
        ks.append("npt=" + f[6])
        ks.append("lnxT=" + f[7])
        if f[4] != "~" and o[0] == "ok":
            nw = [e for e in evs if e.startswith("w/")]
            ks.append("password-sent=" + ("yes" if nw and nw[-1].split("/")[2] == hx(bytes.fromhex(f[4] if f[4] != "-" else "") + b"\r") else "no"))
    # how far did it get
    last = "power"
    for e in evs:
        if e.startswith("u/"):
            last = "uboot"
        elif e.startswith("b/"):
            last = "booted"
        elif e.startswith("l/"):
            last = "linux"
    ks.append("reached=" + last)
    ks.append("cooperative-console=" + ("yes" if is_coop(line) else "no"))
    return ks


def nontrivial(line, obs):
    evs = _events(obs)
    nr = sum(1 for e in evs if e.startswith("r/") and not e.endswith("/!"))
    nw = sum(1 for e in evs if e.startswith("w/"))
    return (nr >= 2 and nw >= 1) or (nr >= 1 and not obs.startswith("ok"))


def shrink_candidates(line):
    toks = line.split()
    head, init, stages = toks[:4], toks[4], toks[5:]

    def join(h, i, s):
        return " ".join(h + [i] + s)

    # drop a stage
    for i in range(len(stages)):
        yield join(head, init, stages[:i] + stages[i + 1:])
    # simplify the configuration
    if head[2] != "-":
        f = head[2].split(";")
        for k, v in ((0, "~"), (3, "-"), (1, "0d"), (2, hx(b"=> "))):
            if f[k] != v:
                yield join(head[:2] + [";".join(f[:k] + [v] + f[k + 1:]), head[3]], init, stages)
        if head[3] != "-":
            yield join(head[:2] + ["-", head[3]], init, stages)
            yield join(head[:2] + [head[2], "-"], init, stages)
    if head[3] != "-":
        f = head[3].split(";")
        for k, v in ((0, "~"), (2, "0"), (4, "~"), (6, "-"), (7, "-"), (3, hx(b"u")), (5, "L" + hx(b"assword: "))):
            if f[k] != v:
                yield join(head[:3] + [";".join(f[:k] + [v] + f[k + 1:])], init, stages)
    if head[0] != "4096":
        yield join(["4096"] + head[1:], init, stages)
    # simplify outputs: drop / merge pieces, zero delays, shorten payloads
    outs = [("", init)] + [tuple(s.split(":")) for s in stages]

    def rebuild(outs):
        return join(head, outs[0][1], [f"{t}:{o}" for t, o in outs[1:]])

    for k, (trig, o) in enumerate(outs):
        ps = [] if o == "." else o.split(",")
        for i in range(len(ps)):
            rest = ps[:i] + ps[i + 1:]
            yield rebuild(outs[:k] + [(trig, ",".join(rest) if rest else ".")] + outs[k + 1:])
        for i in range(len(ps) - 1):
            t1, h1 = ps[i].split("@")
            t2, h2 = ps[i + 1].split("@")
            m = ps[:i] + [f"{int(t1) + int(t2)}@{h1}{h2}"] + ps[i + 2:]
            yield rebuild(outs[:k] + [(trig, ",".join(m))] + outs[k + 1:])
        for i, p in enumerate(ps):
            t, h = p.split("@")
            if t != "0":
                for nt in ("0", str(int(t) // 2), str(int(t) - 1)):
                    m = ps[:i] + [f"{nt}@{h}"] + ps[i + 1:]
                    yield rebuild(outs[:k] + [(trig, ",".join(m))] + outs[k + 1:])
            if len(h) > 2:
                for nh in (h[2:], h[:-2]):
                    m = ps[:i] + [f"{t}@{nh}"] + ps[i + 1:]
                    yield rebuild(outs[:k] + [(trig, ",".join(m))] + outs[k + 1:])


def explain(line, impl, model):
    return "events differ at: " + next((f"#{i}: impl {a} / model {b}" for i, (a, b) in
                                        enumerate(itertools.zip_longest(impl.split(), model.split())) if a != b), "-")


def exhaustive(params):
    """small scope, complete: Linux stand-alone with two-byte prompts; every composition of the
    transcript of each stage into pieces x delays on a grid around the deadlines x the
    configuration grid x a stall after every stage"""
    login, pwp, ask = b"l:", b"p:", b"E!"
    for askfirst, delay, pw, npt, T in itertools.product((False, True), (0, 2), (None, b"s"), (None, 3), (None, 4, 8)):
        texts = []
        texts.append((b"k" + ask + b"g") if askfirst else (b"k" + login))
        if askfirst:
            texts.append(b"\r" + login)
        if delay:
            texts.append(login)
        texts.append(b"u" + pwp if pw is not None else b"#")
        if pw is not None:
            texts.append(b"#")
        cfg = ";".join(["~" if not askfirst else hx(ask), hx(login), str(delay), hx(b"u"), "~" if pw is None else hx(pw),
                        "L" + hx(pwp), g.optw(npt), g.optw(T)])
        for stall in range(len(texts) + 1):
            nst = min(stall, len(texts))
            grids = [(0, 1, 3, 4, 5)] * min(nst, 2) + [(0, 1, 4)] * max(0, nst - 2)
            for dts in itertools.product(*grids):
                for mask in range(1 << 2):
                    outs = []
                    for k, text in enumerate(texts[:stall]):
                        if mask >> (k % 2) & 1 and len(text) > 1:
                            cutp = len(text) - 1
                            outs.append([(dts[k], text[:cutp]), (1 if k % 2 else 0, text[cutp:])])
                        else:
                            outs.append([(dts[k], text)])
                    if not outs:
                        outs = [[]]
                    for chunk in (1, params["readChunkSize"]):
                        yield " ".join([str(chunk), "64", "-", cfg, g.pcs(outs[0])] + [f"c:{g.pcs(o)}" for o in outs[1:]])
PARAM_EXTRACTORS = ["boardextract"]
