"""C06S — auxiliary check of C06: `SubprocessChannelIO.read()` (the select loop in slices of
MIN_READ_WAIT bounded by `end_time`, which also notices that the subprocess is gone) and the 10 s
guard of `.write()` honour the `ChannelIO` contract the channel-level timeout proofs assume:
data as soon as it is there, `TimeoutError` at exactly t0+T and only if nothing was readable up to
then, never without a timeout, `ChannelClosedError` less than one slice after the subprocess went
and never before pending data was delivered, every select slice within the time remaining.

case: <mrw> <wguard> <gone|-> <wready|-> <script> <accept> <op>*    (harness/subioimpl.py)
"""
import itertools

import subioimpl
from wire import hx, unhx, opt

KIND = "subio"
SPECS = ["C06S"]
THEOREMS = [
    "C06S.spec_holds", "C06S.timeout_exact", "C06S.never_late", "C06S.never_early", "C06S.slice_bound",
    "C06S.no_timeout_without_deadline", "C06S.data_asap", "C06S.closed_within_slice", "C06S.zero_timeout_poll",
    "C06S.hang_iff", "C06S.write_guard",
    "C06S.loop_post", "C06S.read_ok", "C06S.write_ok",
    "C06S.chanRead_eq_ioRead", "C06S.chanRead_spec", "C06S.chanRead_le", "C06S.chanRead_timed",
    "C06S.subprocess_refines_scripted", "C06S.minReadWait_pos", "C06S.slice_is_module_attr",
]
LEAN_MODULES = ["TbotVerif.Props.C06S"]
PARAM_EXTRACTORS = ["subioextract"]
QUICK_N, THOROUGH_N = 5000, 60000
QUICK_BUDGET, THOROUGH_BUDGET = 20, 400
CASE_WALL = 20
RULE = ("1-4 calls (85% read, 15% write) on one SubprocessChannelIO over a scripted pty; slice = the extracted "
        "MIN_READ_WAIT on the tick grid (307) in 60% of the cases, else 1 / 100 / 1024 ticks; T in {None, 0, 1 tick, "
        "slice-1, slice, slice+1, 1.17 / 2 / 2.34 / 3 / 3.17 slices (358, 717, 973 for 307), 10 slices+7}; the next piece "
        "arrives before the call / at the call / inside the first slice / exactly at a slice boundary / between slices / "
        "one tick before, at, one tick after the deadline / never; n in {1, 2, 5, 4096} against pieces of 1-9 bytes and "
        "rarely 4097+; subprocess gone never / before the call / at the call / inside a slice / at a slice boundary / at "
        "the deadline / after it; write: master writable at once / within / exactly at / one tick after the guard / never, "
        "partial and zero acceptance. Non-trivial: a read needed >= 2 select slices, or ended by TimeoutError after >= 1 "
        "positive slice; distinct = distinct case lines")
TRUSTED = [
    "harness/subioimpl.py: scripted select / os.read / os.write / Popen.poll and the virtual clock; select(t) reports a "
    "descriptor that becomes ready exactly at now+t (as Linux do_select does: one more look after the timer fired); "
    "os.read hands out at most n bytes of the head piece",
    "MIN_READ_WAIT is set per case to a value on the 2^-10 s grid (the extracted 0.3 s is recorded as "
    "subioMinReadWaitMicros and rounded to 307 ticks); the write guard (10 s) cannot be set and is used as extracted",
]
ASSUMPTIONS = [
    "virtual time: the Python between two clock reads costs nothing; select() has no latency or granularity",
    "the kernel keeps no hang-up state on the pty master (tbot holds the slave open itself), so `closed` = Popen.poll()",
]

DATA = [b"a", b"ab", b"xyz", b"hello", b"123456789"]


def piece_wire(t, d):
    return f"{t}@{hx(d)}"


def case_line(mrw, wguard, gone, wready, script, accept, ops):
    sc = ",".join(piece_wire(t, d) for t, d in script) if script else "."
    ac = ",".join(str(a) for a in accept) if accept else "."
    return f"{mrw} {wguard} {opt(gone)} {opt(wready)} {sc} {ac} " + " ".join(ops)


def t_choices(m):
    return [None, None, 0, 1, max(m - 1, 0), m, m + 1, m + m // 6 + 1, 2 * m, 2 * m + m // 3 + 1, 3 * m,
            3 * m + m // 6 + 1, 10 * m + 7]


def arrival(rng, t0, T, m):
    """arrival tick of the next piece relative to a read called at t0 with timeout T; None = never"""
    D = t0 + (T if T is not None else rng.choice([m, 2 * m + 5, 4 * m]))
    k = rng.choice(["before", "atcall", "first", "boundary", "between", "d-1", "d", "d+1", "never", "late"])
    if k == "before":
        return max(0, t0 - rng.choice([1, 7, 400]))
    if k == "atcall":
        return t0
    if k == "first":
        return t0 + rng.randint(1, max(1, m - 1))
    if k == "boundary":
        return t0 + m * rng.choice([1, 2, 3])
    if k == "between":
        return t0 + m * rng.choice([1, 2]) + rng.randint(1, max(1, m - 1))
    if k == "d-1":
        return max(t0, D - 1)
    if k == "d":
        return D
    if k == "d+1":
        return D + 1
    if k == "late":
        return D + rng.choice([m, 3 * m + 1])
    return None


def gen_case(rng, params):
    m0 = params["subioMinReadWait"]
    m = m0 if rng.random() < 0.6 else rng.choice([1, 100, 1024])
    wguard = params["subioWriteGuard"]
    nops = rng.choice([1, 1, 2, 2, 3, 4])
    script, ops, accept = [], [], []
    t = 0           # planned time (exact as long as the subprocess does not go and nothing hangs)
    last_tick = 0
    wready = 0
    first = None
    for i in range(nops):
        gap = rng.choice([0, 0, 0, 1, 5, m, 1000])
        t0 = t + gap
        if rng.random() < 0.15:
            if i == 0 or wready == 0:
                wready = rng.choice([0, 0, 0, t0 + 5000, t0 + wguard, t0 + wguard + 1, None])
            buf = rng.choice(DATA)
            if rng.random() < 0.4:
                accept.append(rng.choice([0, 1, 2, 100]))
            ops.append(f"w:{hx(buf)}:{gap}")
            if wready is None or wready > t0 + wguard:
                t = t0 + wguard
            else:
                t = max(t0, wready)
            continue
        T = rng.choice(t_choices(m))
        if m == 1 and T is not None and T > 50:
            T = rng.choice([2, 3, 17])
        n = rng.choice([1, 2, 5, 4096, 4096])
        if first is None:
            first = (t0, T)
        a = arrival(rng, t0, T, m)
        if a is not None:
            a = max(a, last_tick)
            d = rng.choice(DATA) if rng.random() < 0.97 else bytes([97 + (j % 26) for j in range(rng.choice([4097, 5000]))])
            script.append((a, d))
            last_tick = a
            if rng.random() < 0.25:       # a second piece close behind
                a2 = a + rng.choice([0, 1, m])
                script.append((a2, rng.choice(DATA)))
                last_tick = a2
        ops.append(f"r:{n}:{opt(T)}:{gap}")
        # planned end of the call
        nxt = script_head_after(script, ops, t0)
        D = None if T is None else t0 + T
        if nxt is not None and (D is None or nxt <= D):
            t = max(t0, nxt)
        elif D is not None:
            t = D
        else:
            break                          # would hang (unless the subprocess goes): last call
    gone = None
    if rng.random() < 0.35 and first is not None:
        t0, T = first
        D = t0 + (T if T is not None else 3 * m)
        gone = rng.choice([0, max(0, t0 - 1), t0, t0 + 1, t0 + rng.randint(1, max(1, m - 1)), t0 + m, t0 + m + 1,
                           t0 + 2 * m, max(0, D - 1), D, D + 1, D + 2 * m, t + rng.choice([0, 1, m])])
    return case_line(m, wguard, gone, wready, script, accept, ops)


def script_head_after(script, ops, t0):
    """arrival tick of the first piece that the reads so far have not consumed (planning only: one piece per read)"""
    reads = sum(1 for o in ops if o.startswith("r:")) - 1
    return script[reads][0] if reads < len(script) else None


def run_impl(line):
    return subioimpl.run_case(line)


def parse(line):
    f = line.split()
    return {"mrw": int(f[0]), "wguard": int(f[1]), "gone": subioimpl.optn(f[2]), "wready": subioimpl.optn(f[3]),
            "script": subioimpl.parse_script(f[4]), "accept": subioimpl.nlist(f[5]), "ops": f[6:]}


def tclass(T, m):
    if T is None:
        return "none"
    if T == 0:
        return "0"
    if T == 1:
        return "1tick"
    if T < m:
        return "<slice"
    if T == m:
        return "=slice"
    if T % m == 0:
        return "k*slice"
    if T > 8 * m:
        return "large"
    return "non-multiple>slice"


def classify(line, obs):
    c = parse(line)
    m = c["mrw"]
    ks = [f"mrw={m}", f"nops={len(c['ops'])}", "gone=" + ("never" if c["gone"] is None else "scripted")]
    outs = obs.split()
    t = 0
    unread = list(c["script"])
    for i, op in enumerate(c["ops"]):
        f = op.split(":")
        o = outs[i].split("/") if i < len(outs) else None
        if o is None or len(o) != 3:
            break
        t0 = t + int(f[-1])
        res = o[0].split(":")[0]
        nsel = 0 if o[2] == "." else o[2].count(",") + 1
        if f[0] == "r":
            T = subioimpl.optn(f[2])
            ks.append("T=" + tclass(T, m))
            ks.append("read=" + res)
            ks.append("slices=" + (str(nsel) if nsel < 4 else "4+"))
            ks.append("n=" + f[1])
            a = unread[0][0] if unread else None
            if a is None:
                ks.append("arrival=never")
            else:
                D = None if T is None else t0 + T
                if a < t0:
                    ks.append("arrival=before-call")
                elif a == t0:
                    ks.append("arrival=at-call")
                elif D is not None and a == D:
                    ks.append("arrival=at-deadline")
                elif D is not None and a == D - 1:
                    ks.append("arrival=deadline-1")
                elif D is not None and a == D + 1:
                    ks.append("arrival=deadline+1")
                elif (a - t0) % m == 0:
                    ks.append("arrival=slice-boundary")
                elif a - t0 < m:
                    ks.append("arrival=first-slice")
                elif D is not None and a > D:
                    ks.append("arrival=after-deadline")
                else:
                    ks.append("arrival=between-slices")
            g = c["gone"]
            if g is not None:
                D = None if T is None else t0 + T
                ks.append("gone=" + ("before-call" if g < t0 else "at-call" if g == t0 else
                                     "at-deadline" if D is not None and g == D else
                                     "after-deadline" if D is not None and g > D else
                                     "slice-boundary" if (g - t0) % m == 0 else "inside-slice"))
            if res == "d":
                k = len(unhx(o[0].split(":")[1]))
                ks.append("data=" + ("partial-piece" if unread and k < len(unread[0][1]) else "whole-piece"))
                if unread:
                    tick, d = unread[0]
                    unread = ([(tick, d[k:])] if k < len(d) else []) + unread[1:]
        else:
            ks.append("write=" + res)
        t = int(o[1])
    return ks


def nontrivial(line, obs):
    ops = line.split()[6:]
    for op, o in zip(ops, obs.split()):
        f = o.split("/")
        if not op.startswith("r:") or len(f) != 3 or f[2] == ".":
            continue
        sel = f[2].split(",")
        if len(sel) >= 2 and f[0] != "to":
            return True
        if f[0] == "to" and any(x != "0" for x in sel):
            return True
    return False


def shrink_candidates(line):
    c = parse(line)

    def emit(**kw):
        d = dict(c)
        d.update(kw)
        return case_line(d["mrw"], d["wguard"], d["gone"], d["wready"], d["script"], d["accept"], d["ops"])

    ops = c["ops"]
    for i in range(len(ops)):
        if len(ops) > 1:
            yield emit(ops=ops[:i] + ops[i + 1:])
    for i in range(len(c["script"])):
        yield emit(script=c["script"][:i] + c["script"][i + 1:])
    if c["gone"] is not None:
        yield emit(gone=None)
    if c["wready"] is not None:
        yield emit(wready=0)
    if c["accept"]:
        yield emit(accept=[])
    for i, (t, d) in enumerate(c["script"]):
        if len(d) > 1:
            yield emit(script=c["script"][:i] + [(t, d[:1])] + c["script"][i + 1:])
        for t2 in (0, t // 10, t // 2, t - 1):
            if 0 <= t2 < t and (i == 0 or t2 >= c["script"][i - 1][0]):
                yield emit(script=c["script"][:i] + [(t2, d)] + c["script"][i + 1:])
    for i, op in enumerate(ops):
        f = op.split(":")
        if f[-1] != "0":
            yield emit(ops=ops[:i] + [":".join(f[:-1] + ["0"])] + ops[i + 1:])
        if f[0] == "r":
            if f[1] != "1":
                yield emit(ops=ops[:i] + [":".join(["r", "1"] + f[2:])] + ops[i + 1:])
            if f[2] != "-":
                T = int(f[2])
                for T2 in (0, 1, T // 10, T // 2, T - 1):
                    if 0 <= T2 < T:
                        yield emit(ops=ops[:i] + [":".join(["r", f[1], str(T2), f[3]])] + ops[i + 1:])
    for m2 in (1, 2, 3, c["mrw"] // 10, c["mrw"] // 2):
        if 0 < m2 < c["mrw"]:
            yield emit(mrw=m2)
    if c["gone"] is not None:
        for g2 in (0, c["gone"] // 10, c["gone"] // 2, c["gone"] - 1):
            if 0 <= g2 < c["gone"]:
                yield emit(gone=g2)


def exhaustive(params):
    """every (timeout, arrival, gone, n) on a grid of 0-3 slices of 3 ticks around a read called at tick 2, and every
    pair of such reads without a scripted exit"""
    m, wg = 3, params["subioWriteGuard"]
    Ts = [None] + list(range(0, 11))
    arr = [None] + list(range(0, 14))
    gones = [None] + list(range(0, 14))
    for T, a, g, n in itertools.product(Ts, arr, gones, [1, 4]):
        script = [] if a is None else [(a, b"ab")]
        yield case_line(m, wg, g, 0, script, [], [f"r:{n}:{opt(T)}:2"])
    for T1, a1, T2, a2 in itertools.product(Ts, arr, Ts, [None, 0, 1, 2, 3, 4, 6, 7]):
        if a1 is None:
            continue
        script = [(a1, b"ab")] + ([] if a2 is None else [(a1 + a2, b"c")])
        yield case_line(m, wg, None, 0, script, [], [f"r:1:{opt(T1)}:2", f"r:4:{opt(T2)}:1"])


def key_zero_timeout_poll(line, impl, model):
    """known-finding key (only needed if the repair is NOT applied): the first differing call is a read with
    timeout 0 for which data was already waiting — the implementation raises TimeoutError, the contract (and the
    model) return the data"""
    ops = line.split()[6:]
    io, mo = impl.split(), model.split()
    for op, a, b in zip(ops, io, mo):
        if a != b:
            f = op.split(":")
            return f[0] == "r" and f[2] == "0" and a.startswith("to/") and b.startswith("d:")
    return False


def explain(line, impl, model):
    ops = line.split()[6:]
    for i, (a, b) in enumerate(zip(impl.split(), model.split())):
        if a != b:
            return (f"call {i} ({ops[i] if i < len(ops) else '?'}): implementation {a} (outcome/time of return/select "
                    f"timeouts, ticks of 2^-10 s), contract-conforming model {b}")
    return ""
