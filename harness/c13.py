"""C13: machine contexts init once, unwind fully on any failure, and always power off.

Case line (see lean/TbotVerif/Model/Life.lean, namespace Wire):
    <bases> <delay> <session>*
    bases   = comma list over  pg pk (PreConnectInitializer)  cg ck (Connector)  lg lk (lab-host: the connector
              is then the REAL connector.ConsoleConnector, whose _connect enters host.clone() first)  ig ik (Initializer)
              w (board.PowerControl)  sg sk (Shell)  qg qk (PostShellInitializer)  h (class overrides init());
              second letter = style of the step's context manager (g generator / k class; u generator / t class
              whose clean-up HANDLES the exception passing through it — not for the lab-host), id = position
    delay   = powercycle_delay in ticks
    session = <gap>;<E|B|K>;<faults>;<body>     one `with m: body` on the ONE machine object of the case
              faults over e<id> x<id> (enter/exit of a step)  c<id> n<id> o<id> f<id> (power_check raises /
              returns False, poweron, poweroff)  h<id> (init hook);   body over [ ] m<k> r<k>
Observation: one `<trace>;<exc>;<rc>` per session plus one for the fault-free fresh entry the runner appends."""
import itertools
import lifeimpl

KIND = "life"
SPECS = ["C13"]
THEOREMS = [
    "C13.nested_enter_silent", "C13.nested_exit_silent", "C13.unwind_spec", "C13.enterSteps_spec",
    "C13.machSteps_eq_specOrder", "C13.runBody_spec", "C13.session_spec", "C13.run_spec",
    "C13.machEnter_fresh", "C13.exc_iff_raised", "C13.power_off_count", "C13.power_off_exactly_once", "C13.power_off_position",
    "C13.refused_no_power", "C13.conn_exit_after_power_off", "C13.fresh_entry_reinit", "C13.powercycle_delay_exact",
    # steps whose context manager handles the exception passing through it
    "C13.unwind_spec_handling", "C13.enterUnit_spec", "C13.enterUnits_split", "C13.enterSteps_split", "C13.enterSteps_spec",
    "C13.machEnter_fresh_handling", "C13.session_spec_handling", "C13.expectedExc_plain", "C13.exc_iff_raised_handling",
    "C13.no_raise_no_exc", "C13.body_exception_always_propagates", "C13.setup_exception_always_propagates",
    "C13.teardown_fault_propagates_unless_handled", "C13.pendingFault_eq_some_iff", "C13.handled_steps_still_torn_down",
    "C13.spec_eq_plain", "C13.spec_eq_plain_of_no_handlers", "C13.handlesOf_mro",
]
LEAN_MODULES = ["TbotVerif.Props.C13"]
QUICK_N, THOROUGH_N = 15000, 90000
QUICK_BUDGET, THOROUGH_BUDGET = 40, 600
CASE_WALL = 20
RULE = ("machine classes composed with type() from 0-3 instrumented mixins of each kind (PreConnectInitializer, "
        "Initializer, PostShellInitializer; generator- and class-style context managers), a stub Connector (or the real "
        "ConsoleConnector over a stub lab-host) and Shell; in a quarter of the cases one to three of the steps' context "
        "managers HANDLE the exception passing through them (class style: __exit__ returns True; generator style: "
        "except around the yield), "
        "board.PowerControl at every position among the initialisers, optional init() override, bases mostly in "
        "documented order and sometimes shuffled; 1-3 sessions on one machine object, each nesting the context 1-4 "
        "times with markers and an optional raise, with no / one / two / several injected faults over every enter, "
        "exit, power_check (raise and False), poweron, poweroff and hook callback, raised as Exception, BaseException "
        "or KeyboardInterrupt subclasses; powercycle_delay and inter-session gaps on the virtual clock. "
        "non-trivial = at least one injected fault fired or the body raised in some session; distinct = distinct case lines")
TRUSTED = ["CPython's contextlib.ExitStack / contextmanager behave as modelled in Life.unwind (tested by the same cases)",
           "flat compositions: the MRO of type(name, bases, ns) lists the mixins in declaration order"]
ASSUMPTIONS = ["the context of the lab-host clone of a ConsoleConnector never handles (suppresses) exceptions: handling the "
               "exception of a failing connect() makes the generator ConsoleConnector._connect return without yielding "
               "(contextlib raises RuntimeError) — a misuse, outside the domain (Life.Kind.mayHandle); every other "
               "step's context manager may handle, with faults at every set-up, body and tear-down point",
               "enter/exit histories are balanced (`with` statements); at most one PowerControl and one connector/shell "
               "per class (Python's MRO cannot express more)",
               "mixins subclass their Initializer base directly (indirect subclasses are skipped by the cls.__bases__ "
               "test in Machine.__enter__ — outside the property's domain, DESIGN C13)"]

CM = "plciqs"


def run_impl(line):
    return lifeimpl.run_case(line)


def lean_line(line):
    """the line the Lean side sees: the model has no notion of HOW the class was assembled (`<delay>@<k>`: the last
    k bases were a class of their own, entered once before; `+m`, `+r`) — that must be invisible in the observation.
    (The styles t/u of a step that handles exceptions in its clean-up ARE modelled: `Step.handles`.)"""
    toks = line.split()
    if len(toks) < 2:
        return line
    return " ".join([toks[0], toks[1].replace("+m", "").replace("+r", "").split("@")[0]] + toks[2:])


def model_request(line, impl):
    return KIND + " " + lean_line(line)


def spec_line(line):
    return lean_line(line)


# ---- generators --------------------------------------------------------------------------
def gen_bases(rng):
    sty = lambda: rng.choice("gk")  # noqa: E731
    pre = ["p" + sty() for _ in range(rng.choice([0, 0, 1, 1, 2, 3]))]
    ini = ["i" + sty() for _ in range(rng.choice([0, 1, 1, 2, 2, 3]))]
    post = ["q" + sty() for _ in range(rng.choice([0, 0, 1, 1, 2, 3]))]
    if rng.random() < 0.8:
        ini.insert(rng.randint(0, len(ini)), "w")
    bases = pre + ["c" + sty()] + ini + ["s" + sty()] + post
    r = rng.random()
    if r < 0.25:
        rng.shuffle(bases)
    elif r < 0.4:            # tbot's usual declaration order: connector first, shell last
        bases = ["c" + sty()] + pre + ini + post + ["s" + sty()]
    if rng.random() < 0.7:
        bases.insert(rng.randint(0, len(bases)), "h")
    if rng.random() < 0.3:
        bases.insert(rng.randint(0, len(bases)), "l" + sty())
    return bases


def fault_points(bases):
    pts = []
    for i, b in enumerate(bases):
        if b[0] in CM:
            pts += [f"e{i}", f"x{i}"]
        elif b == "w":
            pts += [f"c{i}", f"n{i}", f"o{i}", f"f{i}"]
        elif b == "h":
            pts.append(f"h{i}")
    return pts


def gen_body(rng):
    depth = rng.choice([0, 0, 1, 1, 2, 3])
    ops, d, k = [], 0, 1
    # a walk that reaches `depth` and returns to 0, with markers in between
    target = [1] * depth + [-1] * depth
    if depth >= 2 and rng.random() < 0.4:   # re-enter at an inner level: [ [ ] [ ] ]
        target = [1, 1, -1, 1, -1, -1] + ([1, -1] if depth == 3 else [])
    for step in target:
        if rng.random() < 0.4:
            ops.append(f"m{k}"); k += 1
        ops.append("[" if step > 0 else "]")
        d += step
    if rng.random() < 0.4:
        ops.append(f"m{k}")
    if rng.random() < 0.3:
        ops.insert(rng.randint(0, len(ops)), f"r{rng.randint(1, 9)}")
    return ops


def gen_session(rng, bases, pts):
    mode = rng.random()
    if mode < 0.12:
        faults = []
    elif mode < 0.55:
        faults = [rng.choice(pts)]
    elif mode < 0.82 or len(pts) < 3:
        faults = rng.sample(pts, min(2, len(pts)))
    else:
        faults = rng.sample(pts, rng.randint(3, min(6, len(pts))))
    gap = rng.choice([0, 0, 1, 2, 5, 20])
    return f"{gap};{rng.choice('EEBK')};{','.join(sorted(faults)) or '.'};{','.join(gen_body(rng)) or '.'}"


def gen_case(rng, params):
    bases = gen_bases(rng)
    pts = fault_points(bases)
    delay = str(rng.choice([0, 0, 3, 5, 10]))
    r = rng.random()
    if r < 0.25:
        # one to three steps handle exceptions in their clean-up (all fault points stay in play: what an outer handling
        # step does to the exception raised by an inner tear-down is part of the model)
        cms = [i for i, b in enumerate(bases) if b[0] in CM and b[0] != "l"]   # (a handling lab-host clone() makes the real ConsoleConnector._connect generator not yield: a misuse, not a case)
        for i in rng.sample(cms, min(len(cms), rng.choice([1, 1, 2, 3]))):
            bases[i] = bases[i][0] + {"g": "u", "k": "t"}[bases[i][1]]
    elif r < 0.45:
        # the class is derived from a complete machine class that has been used before
        delay += "@%d" % rng.randint(2, max(2, len(bases) - 1))
    elif r < 0.6:
        # one class of the composition provides two kinds of step
        delay += "+m"
    elif r < 0.7:
        # a step mixin is refined by a subclass that overrides the hook and delegates to it
        delay += "+r"
    sessions = [gen_session(rng, bases, pts) for _ in range(rng.choice([1, 1, 2, 3]))]
    return " ".join([",".join(bases), delay] + sessions)


def exhaustive(params):
    """every single fault point and every pair of fault points (body raise included as a point), for every
    composition with <= 1 mixin of each kind (plus two with 2 initialisers), PowerControl at every position
    among the initialisers, bodies nesting the context 1-4 times; then every pair of sessions
    (faulted, fault-free) to see the machine come up again.  Then, for the compositions with <= 6 bases, every choice
    of one or two steps whose context manager HANDLES the exception passing through it (class style for one, generator
    style for the other), with every single fault point, every pair and (<= 5 bases) every triple of them"""
    comps = []
    for npre, nini, npost in itertools.product([0, 1], [0, 1, 2], [0, 1]):
        for wpos in list(range(nini + 1)) + [None]:
            ini = ["ig"] * nini
            if wpos is not None:
                ini.insert(wpos, "w")
            comps.append(["pg"] * npre + ["ck"] + ini + ["sg"] + ["qk"] * npost + ["h"])
            if npre == 0 and npost == 0:
                comps.append(["lk", "cg"] + ini + ["sg", "h"])
    bodies = [[], ["["], ["[", "["], ["[", "[", "["]]
    for bases in comps:
        pts = fault_points(bases) + ["body"]
        combos = [()] + [(p,) for p in pts] + list(itertools.combinations(pts, 2))
        for depth, opens in enumerate(bodies):
            if depth not in (0, 3) and len(bases) > 6:
                continue
            for combo in combos:
                faults = sorted(p for p in combo if p != "body")
                body = opens + (["r1"] if "body" in combo else ["m1"]) + ["]"] * len(opens)
                yield (f"{','.join(bases)} 4 0;E;{','.join(faults) or '.'};{','.join(body)} "
                       f"1;E;.;{','.join(body)}")
    for bases in comps:
        if len(bases) > 6:
            continue
        cms = [i for i, b in enumerate(bases) if b[0] in CM and b[0] != "l"]
        pts = fault_points(bases) + ["body"]
        combos = [()] + [(p,) for p in pts] + list(itertools.combinations(pts, 2))
        if len(bases) <= 5:
            combos += list(itertools.combinations(pts, 3))
        for hs in [(i,) for i in cms] + list(itertools.combinations(cms, 2)):
            hb = list(bases)
            for n, i in enumerate(hs):
                hb[i] = hb[i][0] + "tu"[n]
            for combo in combos:
                faults = sorted(p for p in combo if p != "body")
                body = ["r1"] if "body" in combo else ["m1"]
                yield f"{','.join(hb)} 0 0;E;{','.join(faults) or '.'};{','.join(body)}"


# ---- evidence ----------------------------------------------------------------------------
def _sessions(line):
    return [s.split(";") for s in line.split()[2:]]


def classify(line, obs):
    toks = line.split()
    bases = toks[0].split(",")
    ks = ["steps=%d" % len([b for b in bases if b != "h"]), "connector=" + ("console" if any(b[0] == "l" for b in bases) else "stub"),
          "power=" + (str([b for b in bases if b[0] in "iw"].index("w")) if "w" in bases else "none"),
          "hook=%d" % ("h" in bases), "sessions=%d" % (len(toks) - 2), "delay=" + ("0" if toks[1].replace("+m", "").replace("+r", "").split("@")[0] == "0" else ">0"),
          "class=" + ("derived" if "@" in toks[1] else "two-role-mixin" if "+m" in toks[1] else "refined-mixin" if "+r" in toks[1] else "flat"),
          "handling-steps=%d" % sum(len(b) == 2 and b[1] in "tu" for b in bases)]
    handling = [i for i, b in enumerate(bases) if len(b) == 2 and b[1] in "tu"]
    canon = ["i" if b == "w" else b[0] for b in bases if b != "h" and b[0] != "l"]
    ks.append("order=" + ("documented" if canon == sorted(canon, key="pcisq".index) else "shuffled"))
    for (gap, sty, faults, body), o in zip(_sessions(line), obs.split()):
        fl = [] if faults == "." else faults.split(",")
        ks.append("faults=%s" % (len(fl) if len(fl) < 3 else "3+"))
        ops = [] if body == "." else body.split(",")
        depth = d = 0
        for op in ops:
            d += (op == "[") - (op == "]")
            depth = max(depth, d)
        ks.append("nest=%d" % (depth + 1))
        trace, exc, rc = o.split(";")
        evs = [] if trace == "." else trace.split(",")
        for t in _fired(fl, evs):
            ks.append("fired=" + t[0])
        if handling:
            # tear-down faults (exit of a registered step, power-off on the exit stack) that fired in a composition with
            # handling steps, and whether one of them was handled by a step further out (did not reach the caller)
            td = [t for t in _fired(fl, evs) if t[0] == "x" or (t[0] == "f" and "o" + t[1:] not in fl)]
            if td:
                ks.append("handling+teardown-fault")
                ks.append("handling+teardown-fault:" + ("reached-caller" if exc in td else "handled-or-replaced"))
            if any(e[0] == "r" for e in evs) or _fired(fl, [e for e in evs if e[0] in "ecoh"]):
                ks.append("handling+own-exception:" + ("reached-caller" if exc != "-" and exc not in td else
                                                       "replaced-by-teardown-fault" if exc != "-" else "LOST"))
        ks.append("exc=" + (exc[0] if exc != "-" else "none") + sty)
        if any(e[0] == "z" for e in evs):
            ks.append("slept")
        ks.append("init=" + ("failed" if _fired(fl, [e for e in evs if e[0] in "ecoh"]) else "complete"))
    return ks


def _fired(fl, evs):
    """injected faults whose callback is in the log (n<id> = power_check returned False fires at c<id>)"""
    fl = set(fl)
    return {e for e in evs if e in fl} | {"n" + e[1:] for e in evs if e[0] == "c" and "n" + e[1:] in fl}


def nontrivial(line, obs):
    """at least one fault fired (its callback is in the log) or the body raised"""
    for (gap, sty, faults, body), o in zip(_sessions(line), obs.split()):
        trace = o.split(";")[0]
        evs = [] if trace == "." else trace.split(",")
        if _fired([] if faults == "." else faults.split(","), evs) or any(e[0] == "r" for e in evs):
            return True
    return False


def shrink_candidates(line):
    """drop a session, a fault, a body op pair or marker, a base class (renumbering the ids), the delay, a gap"""
    toks = line.split()
    bases, delay, sess = toks[0].split(","), toks[1], toks[2:]
    if "@" in delay or "+m" in delay or "+r" in delay:
        yield " ".join([toks[0], delay.replace("+m", "").replace("+r", "").split("@")[0]] + sess)
    for i in range(len(sess)):
        yield " ".join([toks[0], delay] + sess[:i] + sess[i + 1:])
    for i, s in enumerate(sess):
        gap, sty, faults, body = s.split(";")
        fl = [] if faults == "." else faults.split(",")
        ops = [] if body == "." else body.split(",")

        def put(gap=gap, sty=sty, fl=fl, ops=ops):
            s2 = f"{gap};{sty};{','.join(fl) or '.'};{','.join(ops) or '.'}"
            return " ".join([toks[0], delay] + sess[:i] + [s2] + sess[i + 1:])
        for j in range(len(fl)):
            yield put(fl=fl[:j] + fl[j + 1:])
        for j, op in enumerate(ops):
            if op[0] in "mr":
                yield put(ops=ops[:j] + ops[j + 1:])
            elif op == "[":
                d = 0
                for k in range(j, len(ops)):
                    d += (ops[k] == "[") - (ops[k] == "]")
                    if d == 0:
                        yield put(ops=ops[:j] + ops[j + 1:k] + ops[k + 1:])
                        break
        if gap != "0":
            yield put(gap="0")
        if sty != "E":
            yield put(sty="E")
    if delay.replace("+m", "").replace("+r", "").split("@")[0] != "0":
        yield " ".join([toks[0], "@".join(["0"] + delay.split("@")[1:])] + sess)
    for i, b in enumerate(bases):
        if b[0] in "cs":
            continue
        nb = bases[:i] + bases[i + 1:]

        def ren(t):
            if t[0] in "[]mr" or not t[1:].isdigit():
                return t
            n = int(t[1:])
            return None if n == i else t[0] + str(n - 1 if n > i else n)
        new = []
        for s in sess:
            gap, sty, faults, body = s.split(";")
            fl = [] if faults == "." else [ren(t) for t in faults.split(",")]
            fl = [t for t in fl if t]
            new.append(f"{gap};{sty};{','.join(fl) or '.'};{body}")
        yield " ".join([",".join(nb), delay] + new)

def explain(line, impl, model):
    return ("per session: log of callbacks (e/x = enter/exit of step id, c/o/f = power check/on/off, h = init hook, "
            "[ ] m r = body), exception tag that reached the caller, _rc afterwards; last record = fresh fault-free entry")
