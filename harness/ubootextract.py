"""Parameters of the `UBoot` cluster, observed on the running code (called from extract_more.py):
the write black-list `UBootShell._init_shell` installs (read off the channel after the real
`_init_shell` ran against the console simulator), the default prompt, and the prompt `exec`
waits for in its `crc32` special case (seen by a recording Channel subclass)."""


def extract(p: dict) -> None:
    import vclock
    from tbot.machine import board, channel
    import mockio
    import ubootimpl

    default = board.UBootShell.prompt
    default = default.encode("utf-8") if isinstance(default, str) else bytes(default)
    p["ubootPrompt"] = default
    m, io, con = ubootimpl.make_machine(default)
    with vclock.CLOCK:
        vclock.CLOCK.reset()
        with m:
            p["ubootBlacklist"] = bytes(sorted(set(m.ch._write_blacklist)))

    seen = []

    class Spy(channel.Channel):
        __slots__ = ()

        def read_until_prompt(self, prompt=None, timeout=None):
            seen.append(prompt)
            return super().read_until_prompt(prompt=prompt, timeout=timeout)

    def probe(prompt, cmd):
        del seen[:]
        m, io, con = ubootimpl.make_machine(prompt, channel_cls=Spy)
        with vclock.CLOCK:
            vclock.CLOCK.reset()
            with m:
                del seen[:]
                con.table = ([cmd, b"0", b"4"], b"crc32 for 00000000 ... 00000003 ==> 2144df1c\n", 0)
                try:
                    m.exec(cmd.decode(), "0", "4")
                except (Exception, mockio.Hang):   # only the prompt the call waited for is of interest here
                    pass
        ov = [x for x in seen if x is not None]
        return ov[0] if ov else None

    ov = probe(b"=> ", b"crc32")
    assert ov is not None, "crc32 workaround not triggered for the '=> ' prompt"
    assert probe(default, b"crc32") is None and probe(b"=> ", b"md5sum") is None
    p["ubootCrcOverride"] = ov.encode("utf-8") if isinstance(ov, str) else bytes(ov)
