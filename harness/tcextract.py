"""C16 (cluster Tc): parameters of the testcase/CLI model re-extracted from the tbot tree."""


def extract(p):
    """tcTopNesting: `tbot.log.NESTING` right after `log_event.tbot_start()` in a process that has
    done nothing else with it (module level `NESTING = -1`, `tbot_start` adds one) — the level the
    top-level testcases of both command line tools run at.  Observed, not parsed."""
    import contextlib, io
    import tbot.log, tbot.log_event
    saved = tbot.log.NESTING
    try:
        with contextlib.redirect_stdout(io.StringIO()):
            tbot.log_event.tbot_start()
        top = int(tbot.log.NESTING)
    finally:
        tbot.log.NESTING = saved
    if top < 0:
        raise ValueError("NESTING after tbot_start() is negative: %d" % top)
    p["tcTopNesting"] = top
