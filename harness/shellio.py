"""Real shells on a real pty behind a re-fragmenting transport: the environment of the shell
properties (C01, C09, C10, C11).  Nothing in tbot is patched; `FragIO` is an ordinary ChannelIO."""
import fcntl, os, pty, random, select, struct, subprocess, sys, tempfile, termios, time

import tbot
import verbosity
import tbot.error
from tbot.machine import channel, connector, linux
from tbot.machine.channel import channel as tch

tbot.log.VERBOSITY = -1
HERE = os.path.dirname(os.path.abspath(__file__))


def build_helper():
    """compile harness/helper/tbvhelper.c into the build cache (outside git)"""
    src = os.path.join(HERE, "helper", "tbvhelper.c")
    out_dir = os.path.join(os.path.dirname(HERE), "lean", ".lake", "helper")
    os.makedirs(out_dir, exist_ok=True)
    exe = os.path.join(out_dir, "tbvhelper")
    if not os.path.exists(exe) or os.path.getmtime(exe) < os.path.getmtime(src):
        subprocess.check_call(["cc", "-O1", "-o", exe, src])
    return exe


class FragIO(tch.ChannelIO):
    """a shell on a pty; reads are re-fragmented according to `sizes` (a callable returning the
    size of the next piece) and optionally delayed so that the pty's own pieces get merged"""

    def __init__(self, argv, sizes=None, linger=0.0, env=None):
        self.master, self.slave = pty.openpty()
        def pre():
            # default signal dispositions for the shell, however this check was started (see runimpl.RunIO)
            import signal
            for sig in (signal.SIGINT, signal.SIGQUIT, signal.SIGTSTP, signal.SIGTTIN, signal.SIGTTOU, signal.SIGHUP,
                        signal.SIGTERM, signal.SIGPIPE):
                signal.signal(sig, signal.SIG_DFL)

        self.p = subprocess.Popen(argv, stdin=self.slave, stdout=self.slave, stderr=self.slave,
                                  start_new_session=True, env=env, preexec_fn=pre)
        fl = fcntl.fcntl(self.master, fcntl.F_GETFL)
        fcntl.fcntl(self.master, fcntl.F_SETFL, fl | os.O_NONBLOCK)
        self.buf = bytearray()
        self.sizes = sizes or (lambda: 4096)
        self.linger = linger
        self.rx = bytearray()       # everything the shell sent
        self.tx = bytearray()       # everything written to the shell
        self.pieces = []            # sizes handed out
        self._closed = False

    def write(self, buf: bytes) -> int:
        if self.closed:
            raise tbot.error.ChannelClosedError
        _, w, _ = select.select([], [self.master], [], 10.0)
        if self.master not in w:
            raise TimeoutError("write timeout exceeded")
        # a transport may take fewer bytes than it is given (`wmax`: how many at most this time)
        n = os.write(self.master, buf[: self.wmax()] if getattr(self, "wmax", None) else buf)
        self.tx += buf[:n]
        verbosity.through_debug_log(self, bytes(buf), True)
        return n

    def _fill(self, timeout):
        end = None if timeout is None else time.monotonic() + timeout
        while True:
            t = 0.3 if end is None else min(0.3, end - time.monotonic())
            if t <= 0:
                raise TimeoutError()
            r, _, _ = select.select([self.master], [], [], t)
            if self.master in r:
                break
            if self.closed:
                raise tbot.error.ChannelClosedError
        if self.linger:
            time.sleep(self.linger)
        try:
            data = os.read(self.master, 65536)
        except (BlockingIOError, OSError):
            raise tbot.error.ChannelClosedError
        self.buf += data
        self.rx += data

    def read(self, n: int, timeout=None) -> bytes:
        if not self.buf:
            self._fill(timeout)
        k = max(1, min(n, len(self.buf), self.sizes()))
        out = bytes(self.buf[:k])
        del self.buf[:k]
        self.pieces.append(k)
        return verbosity.through_debug_log(self, out)

    def close(self) -> None:
        if self._closed:
            return
        self._closed = True
        try:
            self.p.terminate()
        except Exception:
            pass
        for fd in (self.slave, self.master):
            try:
                os.close(fd)
            except OSError:
                pass
        try:
            self.p.communicate(timeout=5)
        except Exception:
            self.p.kill()

    def fileno(self) -> int:
        return self.master

    @property
    def closed(self) -> bool:
        if self._closed:
            return True
        self.p.poll()
        return self.p.returncode is not None

    def update_pty(self, columns: int, lines: int) -> None:
        s = struct.pack("HHHH", lines, columns, 0, 0)
        fcntl.ioctl(self.master, termios.TIOCSWINSZ, s, False)


SHELLS = {
    "bash": (["bash", "--norc", "--noprofile", "--noediting", "-i"], linux.Bash),
    "dash": (["dash", "-i"], linux.Ash),
}


# the configuration a console channel carries when it is handed over (`take()`) by a machine of another kind: a
# prompt of its own and a black-list of every control character except CR / LF
FOREIGN_BLACKLIST = [c for c in range(0x20) if c not in (0x0A, 0x0D)] + [0x7F]
FOREIGN_PROMPT = b"OTHER-MACHINE> "


def make_machine(kind, sizes=None, linger=0.0, chunk=None, inherited=False):
    """an un-entered tbot machine of class Bash / Ash talking to real bash / dash; `inherited`: the channel comes from
    another machine (as the console channel of a board does, or the channel `UBootShell.boot()` returns): it was
    configured by that machine and then taken — the new shell's initialisation has to replace all of it"""
    argv, shell_cls = SHELLS[kind]
    env = dict(os.environ)
    env.update({"PS1": "$ ", "ENV": "", "HISTFILE": "/dev/null", "LC_ALL": "C.UTF-8", "TERM": "dumb"})
    holder = {}

    class M(connector.Connector, shell_cls):
        name = "frag-" + kind

        def _connect(self):
            io = FragIO(argv, sizes, linger, env)
            holder["io"] = io
            ch = channel.Channel(io)
            if chunk is not None:
                ch.__class__ = type("ChannelChunk", (channel.Channel,), {"READ_CHUNK_SIZE": chunk, "__slots__": ()})
            if inherited:
                ch._write_blacklist = list(FOREIGN_BLACKLIST)
                ch.prompt = FOREIGN_PROMPT
                ch = ch.take()
                # … and it is a slow console whose transport takes a few bytes at a time
                ch.slow_send_delay = 0.0002
                ch.slow_send_chunksize = 24
                _rng = random.Random(chunk)
                io.wmax = lambda: _rng.choice([1, 2, 5, 17, 24, 4096])
            return ch

        def clone(self):
            raise NotImplementedError

        @property
        def workdir(self):
            return linux.Path(self, "/tmp")

    m = M()
    m._verif_io = holder
    return m
