"""Run C09 cases (environment variables, subshell blocks) on the REAL Bash / Ash classes against
real bash / dash on a pty behind the re-fragmenting transport of shellio.  One fresh machine per
case; nothing in tbot is patched."""
import contextlib, os, random, shutil, tempfile

import tbot
import tbot.error
from tbot.machine import linux
import shellio
from wire import hx, unhx, chars, lst

_dir = None
_exe = None
_counter = [0]
NDIRS = 3
TRACKED = "fC"


def setup():
    """helper program, scratch directory with the directories `cd` goes to, and an `ash` on PATH
    (Ash.subshell() spawns `ash`; this system only has dash, which is what Ash drives here)"""
    global _dir, _exe
    if _dir is None:
        _exe = shellio.build_helper()
        _dir = os.path.realpath(tempfile.mkdtemp(prefix="tbv-env-"))
        for i in range(NDIRS):
            os.mkdir(os.path.join(_dir, f"d{i}"))
        os.mkdir(os.path.join(_dir, "bin"))
        os.symlink(shutil.which("dash"), os.path.join(_dir, "bin", "ash"))
        os.environ["PATH"] = os.path.join(_dir, "bin") + os.pathsep + os.environ.get("PATH", "")
    return _exe, _dir


def cleanup():
    global _dir
    if _dir is not None:
        shutil.rmtree(_dir, ignore_errors=True)
        _dir = None


import atexit
atexit.register(cleanup)


def make_machine(kind, chunk):
    """like shellio.make_machine, but PS1 is NOT in the shell's environment: an exported PS1 is
    inherited by the shell a subshell block spawns, which then shows the TBOT prompt before
    `_init_shell` has set it (see ASSUMPTIONS of c09)"""
    from tbot.machine import channel, connector
    argv, shell_cls = shellio.SHELLS[kind]
    env = dict(os.environ)
    env.update({"ENV": "", "HISTFILE": "/dev/null", "LC_ALL": "C.UTF-8", "TERM": "dumb"})
    env.pop("PS1", None)
    holder = {}

    class M(connector.Connector, shell_cls):
        name = "env-" + kind

        def _connect(self):
            io = shellio.FragIO(argv, None, 0.0, env)
            holder["io"] = io
            ch = channel.Channel(io)
            ch.__class__ = type("ChannelChunk", (channel.Channel,), {"READ_CHUNK_SIZE": chunk, "__slots__": ()})
            return ch

        def clone(self):
            raise NotImplementedError

        @property
        def workdir(self):
            return linux.Path(self, "/tmp")

        @contextlib.contextmanager
        def _init_shell(self):
            # fault injection from outside tbot: the (complete) initialisation of the shell is followed by a failure
            # while the context is still being entered — what `_init_shell()` raising looks like to its caller
            with super()._init_shell():
                if getattr(self, "_verif_fail_init", False):
                    self._verif_fail_init = False
                    raise InitFault("injected failure of the shell initialisation")
                yield

    m = M()
    m._verif_io = holder
    return m


def new_id():
    _counter[0] += 1
    return str(_counter[0])


def concrete(line):
    """fill in the symbolic parts of a case line: `@k` = the k-th scratch directory, `@P` = the
    helper program prefix (exe, dir, fresh id) — so that model and implementation see the same
    command lines"""
    exe, d = setup()
    out = []
    for tok in line.split():
        f = tok.split(":")
        for i, x in enumerate(f):
            if x == "@P":
                f[i] = ",".join([hx(exe.encode()), hx(d.encode()), hx(new_id().encode())])
            elif len(x) == 2 and x[0] == "@" and x[1].isdigit():
                f[i] = hx(os.path.join(d, "d" + x[1]).encode())
        out.append(":".join(f))
    return " ".join(out)


def exc_tag(e):
    if isinstance(e, tbot.error.IllegalDataException):
        return "illegal"
    if isinstance(e, tbot.error.CommandFailure):
        return "command-failure"
    if isinstance(e, tbot.error.InvalidRetcodeError):
        return "invalid-retcode"
    if isinstance(e, tbot.error.UncleanShellError):
        return "unclean"
    if isinstance(e, TimeoutError):
        return "timeout"
    return "other:" + type(e).__name__


class Marker(Exception):
    """the exception a test body raises"""


class MarkerB(BaseException):
    """… and every second time one that is not an `Exception` (KeyboardInterrupt-like)"""


MARKERS = (Marker, MarkerB)
_marker_rot = [0]


class InitFault(Exception):
    """injected: the initialisation of the shell a subshell block started fails"""


class Broken(Exception):
    def __init__(self, tag):
        self.tag = tag


def parse_prog(toks):
    """token list -> nested node list; nodes: ('op', tok) | ('raise',) | ('sub', guarded, body)"""
    def seq(i):
        nodes = []
        while i < len(toks) and toks[i] != "]":
            t = toks[i]
            if t == "[x":
                if i + 1 >= len(toks) or toks[i + 1] != "]":
                    raise ValueError("[x takes no body")
                nodes.append(("subfail",))
                i += 2
            elif t in ("[", "[?"):
                body, j = seq(i + 1)
                if j >= len(toks) or toks[j] != "]":
                    raise ValueError("unbalanced")
                nodes.append(("sub", t == "[?", body))
                i = j + 1
            elif t == "!":
                nodes.append(("raise",))
                i += 1
            else:
                nodes.append(("op", t))
                i += 1
        return nodes, i
    nodes, i = seq(0)
    if i != len(toks):
        raise ValueError("unbalanced")
    return nodes


class Ctx:
    def __init__(self, m, io, exe, d):
        self.m, self.io, self.exe, self.d = m, io, exe, d
        self.out = []
        self.broken = False
        self.n_tx = self.n_pc = 0

    def mark(self):
        self.n_tx, self.n_pc = len(self.io.tx), len(self.io.pieces)

    def rec(self, kind, val, traffic=True):
        if traffic:
            t = hx(bytes(self.io.tx[self.n_tx:])) + "/" + lst(str(k) for k in self.io.pieces[self.n_pc:])
        else:
            t = "-/."
        self.out.append(f"{kind}={val}/{t}")


def _list(s):
    return [] if s == "." else [unhx(x) for x in s.split(",")]


SLOW_EXIT = 2.6     # seconds the (sub)shell takes to terminate after a `T` step


def run_op(tok, cx):
    if tok == "T":
        # not an observation: make the CURRENT shell slow to terminate (an EXIT trap that sleeps, like a shell started
        # through a wrapper that cleans up) — leaving a subshell block then has to wait for the outer prompt however
        # long that takes
        if not cx.broken:
            try:
                cx.m.exec0("trap", f"sleep {SLOW_EXIT}", "EXIT")
            except Exception:
                cx.broken = True
        return
    f = tok.split(":")
    kind = {"s": "set", "g": "get", "p": "probe", "c": "cd", "w": "pwd", "o": "setopt", "O": "getopt", "e": "echo",
            "x": "run"}[f[0]]
    m = cx.m
    cx.mark()
    traffic = kind != "getopt"
    if cx.broken:
        cx.rec(kind, "err:broken", traffic)
        return
    try:
        if kind == "set":
            value = unhx(f[2]).decode("utf-8")
            arg = value
            if value.startswith("/") and "\n" not in value and value == str(__import__("pathlib").PurePosixPath(value)) and len(value) % 2:
                # the documented other form of the value: a Path of this machine (its path is what gets exported)
                arg = linux.Path(m, value)
            ret = m.env(unhx(f[1]).decode(), arg)
            val = "ok" if ret == value else "err:bad-return"
        elif kind == "get":
            val = "s:" + chars(m.env(unhx(f[1]).decode()))
        elif kind == "probe":
            pre = [x.decode() for x in _list(f[1])]
            cid = pre[2]
            with open(os.path.join(cx.d, f"env.{cid}"), "wb") as fh:
                fh.write(unhx(f[2]))
            vf = os.path.join(cx.d, f"envval.{cid}")
            if os.path.exists(vf):
                os.remove(vf)
            m.exec0(*pre)
            raw = open(vf, "rb").read() if os.path.exists(vf) else None
            val = "err:no-probe" if raw is None else ("v:!" if raw == b"\x01" else "v:" + hx(raw))
        elif kind == "cd":
            m.exec0("cd", unhx(f[1]).decode())
            val = "ok"
        elif kind == "pwd":
            val = "s:" + chars(m.exec0("pwd"))
        elif kind == "setopt":
            m.exec0("set", ("-" if f[2] == "1" else "+") + unhx(f[1]).decode())
            val = "ok"
        elif kind == "getopt":
            flags = m.exec0("echo", linux.Raw("$-"))
            val = "f:" + hx("".join(c for c in TRACKED if c in flags).encode())
        elif kind == "echo":
            rc, text = m.exec("echo", " " + unhx(f[1]).decode("utf-8"))
            val = f"rc:{rc}:{chars(text)}:!"
        else:
            pre = [x.decode() for x in _list(f[1])]
            cid = pre[2]
            for k_, data in (("out", unhx(f[3])), ("status", f[4].encode())):
                with open(os.path.join(cx.d, f"{k_}.{cid}"), "wb") as fh:
                    fh.write(data)
            af = os.path.join(cx.d, f"argv.{cid}")
            if os.path.exists(af):
                os.remove(af)
            rc, text = m.exec(*(pre + [a.decode("utf-8") for a in _list(f[2])]))
            if os.path.exists(af):
                argv = lst(hx(x) for x in open(af, "rb").read().split(b"\0")[:-1])
            else:
                argv = "!"
            val = f"rc:{rc}:{chars(text)}:{argv}"
    except Exception as e:
        val = "err:" + exc_tag(e)
        if not isinstance(e, (tbot.error.IllegalDataException, tbot.error.CommandFailure)):
            cx.broken = True
    cx.rec(kind, val, traffic)


def run_nodes(nodes, cx):
    for nd in nodes:
        if nd[0] == "op":
            run_op(nd[1], cx)
        elif nd[0] == "subfail":
            # a subshell block whose shell fails to initialise: the error reaches the caller, who handles it and goes
            # on — the machine must be back in the shell it was in (nothing of it is an observation)
            if cx.broken:
                continue
            cx.m._verif_fail_init = True
            try:
                with cx.m.subshell():
                    cx.broken = True            # the body must not be reached
            except InitFault:
                pass
            except Exception:
                cx.broken = True
            finally:
                cx.m._verif_fail_init = False
        elif nd[0] == "raise":
            cx.rec("raise", "ok", False)
            _marker_rot[0] += 1
            raise (Marker if _marker_rot[0] % 2 else MarkerB)()
        else:
            _, guarded, body = nd
            if cx.broken:
                cx.rec("enter", "err:broken", False)
                raise Broken("broken")
            entered = False
            try:
                with cx.m.subshell():
                    entered = True
                    cx.rec("enter", "ok", False)
                    run_nodes(body, cx)
                cx.rec("exit", "ok", False)
            except MARKERS:
                # the `finally` of subshell() ran and did not raise: the same exception travels on
                cx.rec("exit", "ok", False)
                if not guarded:
                    raise
            except Broken:
                raise
            except Exception as e:
                cx.rec("exit" if entered else "enter", "err:" + exc_tag(e), False)
                cx.broken = True
                raise Broken(exc_tag(e))


def run_case(line, seed):
    """line = '<bash|ash> <chunk> <cwd> <prog token>*' (concrete); returns the observation line"""
    exe, d = setup()
    toks = line.split()
    kind = "dash" if toks[0] == "ash" else "bash"
    chunk = int(toks[1])
    cwd = unhx(toks[2]).decode()
    nodes = parse_prog(toks[3:])
    rng = random.Random(seed)
    mode = rng.choice(["1", "small", "mixed", "mixed", "big"])
    sizes = {"1": lambda: 1, "small": lambda: rng.choice([1, 2, 3]), "big": lambda: 4096,
             "mixed": lambda: rng.choice([1, 2, 3, 7, 23, 50, 512, 4096])}[mode]
    m = make_machine(kind, chunk)
    try:
        with contextlib.ExitStack() as stack:
            try:
                stack.enter_context(m)
                m.exec0("cd", cwd)
            except Exception as e:
                return "machine-failed:" + type(e).__name__
            io = m._verif_io["io"]
            io.sizes = sizes
            io.linger = rng.choice([0.0, 0.0, 0.002])
            cx = Ctx(m, io, exe, d)
            try:
                run_nodes(nodes, cx)
                end = "end:normal"
            except MARKERS:
                end = "end:raised:user"
            except Broken as b:
                end = "end:raised:" + b.tag
            return " ".join(cx.out + [end])
    finally:
        try:
            m._verif_io["io"].close()
        except Exception:
            pass


import verbosity  # noqa: E402
run_case = verbosity.wrap(run_case)   # one case in eight runs at Verbosity.CHANNEL
