"""C12 case generators: the exhaustive grid of DESIGN.md §4 C12 (segment alphabet ^ (<= 3) x all
unary operations x binary operations with every alphabet element as argument), the host grid
(same / clone / clone of clone / foreign same class / foreign other class x every host-taking entry
point) and random operation sequences.  Case syntax: lean/TbotVerif/Driver/Path.lean."""
import itertools
import json
import os

from pathimpl import hx, P, unhx

VERIF = os.path.dirname(os.path.dirname(os.path.abspath(__file__)))

ALPHABET = ["", ".", "..", "/", "//x", "///x", "a", "a/", "a/b", "/a", "a.b", "a.tar.gz", ".h", "a.",
            "a b", "é"]
# glob patterns for match() beyond the alphabet (no character classes: outside the model)
PATTERNS = ["*", "*.b", "a*", "?", "/*", "*/*", "**", "a/*", "*.gz", "//*", "*/", "?.?", "/", "*b"]
# machine table of every generated case: 0 = a fresh Bash machine, 1 = its clone, 2 = clone of the
# clone, 3 = another fresh instance of the same class, 4 = a fresh instance of the Ash class,
# 5 = clone of 4
MACHINES = "n0,c0,c1,n0,n1,c4"
NM = 6
CLONE_CLASS = [0, 0, 0, 3, 4, 4]


def quirk_enabled():
    """the `with_suffix('')`-on-stem-'.' finding is generated only once it is listed as known
    (or when asked for with C12_QUIRK=1, to see the violation)"""
    if os.environ.get("C12_QUIRK") == "1":
        return True
    try:
        kf = json.load(open(os.path.join(VERIF, "known_findings.json")))
        return any(k.get("property") == "C12" and k.get("key") == "kf_with_suffix_dot_stem"
                   and k.get("status") == "known" for k in kf)
    except Exception:
        return False


def segs_wire(segs):
    return "/".join(hx(s) for s in segs) if segs else "."


def args_wire(args):
    return ",".join(args) if args else "."


def unary_queries():
    qs = ["str", "parts", "name", "suffix", "suffixes", "stem", "abs", "plen", "plist", "o:parent"]
    qs += [f"o:par:{'~%d' % -i if i < 0 else i}" for i in range(-4, 5)]
    qs += ["psl:-:-", "psl:1:-", "psl:-:~1", "psl:~2:5", "psl:2:1", "psl:~9:9"]
    return qs


def binary_queries(host, pure):
    qs = []
    for s in ALPHABET:
        h = hx(s)
        qs += [f"o:jp:s{h}", f"o:div:s{h}", f"o:rdiv:s{h}", f"o:wn:{h}", f"o:ws:{h}", f"o:wx:{h}",
               f"o:rel:s{h}", f"isrel:s{h}", f"match:{h}",
               f"o:div:t{host}:{h}", f"o:rel:t{host}:{h}", f"isrel:t{host}:{h}", f"cmp:t{host}:{h}",
               f"o:rdiv:q:{h}"]
    qs += [f"match:{hx(s)}" for s in PATTERNS]
    qs += ["o:jp:.", "o:rel:.", "isrel:.", "o:div:i", "o:rdiv:i", "o:jp:@,@", "o:rel:@", "isrel:@", "cmp:@",
           f"o:jp:s{hx('x')},s{hx('/y')},s{hx('z')}", f"o:rel:s{hx('/')},s{hx('a')}"]
    return qs


_UNARY = unary_queries()


def grid_case(mode, segs, host=0):
    qs = _UNARY + binary_queries(host, mode == "pure")
    args = args_wire(["s" + hx(s) for s in segs])
    return f"{mode} {MACHINES} {host} {args} . {';'.join(qs)}"


def grid_tuples():
    for n in range(0, 4):
        yield from itertools.product(ALPHABET, repeat=n)


def host_queries(rng_or_none, segs2):
    """every host-taking entry point against every machine of the table"""
    qs = []
    s2 = segs_wire(segs2)
    for h in range(NM):
        qs += [f"at:{h}", f"esc:{h}", f"auth:{h}"]
        qs += [f"redir:{k}:{h}" for k in range(7)]
        qs += [f"bg:{h},@,-", f"bg:{h},-,@", f"bg:{h},@,@", f"bg:{h},-,-"]
        for g in range(NM):
            qs += [f"bg:{h},@,t{g}:{s2}", f"bg:{h},t{g}:{s2},@"]
        qs += [f"o:jp:t{h}:{s2}", f"o:div:t{h}:{s2}", f"o:rel:t{h}:{s2}", f"isrel:t{h}:{s2}", f"cmp:t{h}:{s2}",
               f"o:jp:s{hx('x')},t{h}:{s2},i", f"o:jp:i,t{h}:{s2}", f"o:rel:t{h}:{s2},t0:{s2}",
               f"o:rdiv:q:{s2}"]
    qs.append("auth:-")
    return qs


def host_case(host, segs, segs2, ctor_host=None):
    """base path on machine `host`; optionally a constructor argument that is a path of `ctor_host`"""
    args = ["s" + hx(s) for s in segs]
    if ctor_host is not None:
        args = args[:1] + [f"t{ctor_host}:{segs_wire(segs2)}"] + args[1:]
    return f"tpath {MACHINES} {host} {args_wire(args)} . {';'.join(host_queries(None, segs2))}"


def host_grid():
    paths = [("/a/b",), ("a b",), ("x", "/tmp/f"), ()]
    for host in range(NM):
        for segs in paths:
            for segs2 in (("/a/b",), ("c",)):
                yield host_case(host, segs, segs2)
                for ch in range(NM):
                    yield host_case(host, segs, segs2, ctor_host=ch)


# ---- random operation sequences ------------------------------------------------------------
CHARS = ["a", "b", ".", "/", " ", "é", "*", "?", "x", "'"]


def rand_str(rng, quirk):
    r = rng.random()
    if r < 0.6:
        return rng.choice(ALPHABET)
    if quirk and r < 0.75:
        return rng.choice(["..a", "a/..b", "..a.b", "/x/..é"])
    return "".join(rng.choice(CHARS) for _ in range(rng.randint(0, 6)))


def rand_host(rng, host, valid=0.85):
    """a machine index: mostly one that is clone-equivalent to `host`"""
    if rng.random() < valid:
        return rng.choice([h for h in range(NM) if CLONE_CLASS[h] == CLONE_CLASS[host]])
    return rng.randrange(NM)


def rand_arg(rng, quirk, allow_self, pure, host=0):
    r = rng.random()
    if r < 0.62:
        return "s" + hx(rand_str(rng, quirk))
    segs = segs_wire([rand_str(rng, quirk) for _ in range(rng.choice([1, 1, 2, 0]))])
    if r < 0.86:
        return f"t{rand_host(rng, host)}:{segs}"
    if r < 0.93:
        return "q:" + segs
    if r < 0.98 and allow_self:
        return "@"
    return "i" if rng.random() < 0.5 else "s" + hx(rand_str(rng, quirk))


def rand_int(rng, n=None):
    """an index into a sequence of length n: mostly in range (either sign)"""
    if n is not None and n > 0 and rng.random() < 0.8:
        i = rng.randint(-n, n - 1)
    else:
        i = rng.randint(-5, 5)
    return "~%d" % -i if i < 0 else str(i)


GOOD_NAMES = ["x", "a.b", "..", "a b", "é.txt", ".h", "a.tar.gz", "y."]


def rand_op(rng, quirk, pure, host=0, cur=None):
    """one path-valued operation; `cur` (a PurePosixPath, or None when unknown) steers the choice
    towards operations that succeed"""
    kinds = ["parent", "par", "wn", "ws", "wx", "jp", "jp", "div", "div", "rdiv", "rel", "rel"]
    if cur is not None and cur.name == "" and rng.random() < 0.9:
        kinds = [k for k in kinds if k not in ("wn", "ws", "wx")]
    k = rng.choice(kinds)
    if k == "parent":
        return k
    if k == "par":
        return "par:" + rand_int(rng, None if cur is None else len(cur.parents))
    if k in ("wn", "ws"):
        nm = rng.choice(GOOD_NAMES) if rng.random() < 0.8 else rand_str(rng, quirk)
        return f"{k}:{hx(nm)}"
    if k == "wx":
        if quirk and rng.random() < 0.5:
            return "wx:-"
        return "wx:" + hx(rng.choice(["", ".h", ".tar", ".é", ".", "x", ".a/b"] if rng.random() < 0.3
                                     else ["", ".h", ".tar", ".é"]))
    if k == "rel" and cur is not None and rng.random() < 0.75:
        anc = rng.choice([cur] + list(cur.parents))
        r = rng.random()
        if r < 0.6:
            return "rel:s" + hx(str(anc))
        if r < 0.9:
            return f"rel:t{rand_host(rng, host)}:{hx(str(anc))}"
        return "rel:q:" + hx(str(anc))
    if k in ("jp", "rel"):
        n = rng.choice([1, 1, 1, 2, 3, 0]) if k == "jp" else rng.choice([1, 1, 1, 2])
        return f"{k}:" + args_wire([rand_arg(rng, quirk, True, pure, host) for _ in range(n)])
    if k == "div":
        return "div:" + rand_arg(rng, quirk, True, pure, host)
    a = rand_arg(rng, quirk, False, pure, host)
    while a[0] == "t":      # `Path / Path` is the left operand's `__truediv__`, i.e. `div`
        a = rand_arg(rng, quirk, False, pure, host)
    return "rdiv:" + a


def rand_query(rng, quirk, pure, host=0, cur=None):
    r = rng.random()
    if r < 0.25:
        return rng.choice(_UNARY)
    if r < 0.50:
        return "o:" + rand_op(rng, quirk, pure, host, cur)
    if r < 0.58:
        if cur is not None and rng.random() < 0.5:
            anc = rng.choice([cur] + list(cur.parents))
            return rng.choice([f"isrel:s{hx(str(anc))}", f"isrel:t{rand_host(rng, host)}:{hx(str(anc))}"])
        n = rng.choice([1, 1, 2, 0])
        return "isrel:" + args_wire([rand_arg(rng, quirk, True, pure, host) for _ in range(n)])
    if r < 0.68:
        return "match:" + hx(rng.choice(PATTERNS + ALPHABET + [rand_str(rng, quirk)]))
    if r < 0.76:
        if cur is not None and rng.random() < 0.4:      # an equal path on some machine
            return f"cmp:t{rand_host(rng, host, 0.6)}:{hx(str(cur))}"
        a = rand_arg(rng, quirk, True, pure, host)
        while a[0] not in "t@":
            a = rand_arg(rng, quirk, True, pure, host)
        return "cmp:" + a
    if r < 0.80:
        n = None if cur is None else len(cur.parents)
        return f"psl:{rng.choice(['-', rand_int(rng, n)])}:{rng.choice(['-', rand_int(rng, n)])}"
    h = rand_host(rng, host, 0.6)
    if pure:
        return rng.choice([f"at:{h}", f"esc:{h}"])
    k = rng.choice(["at", "esc", "redir", "bg", "auth"])
    if k in ("at", "esc"):
        return f"{k}:{h}"
    if k == "redir":
        return f"redir:{rng.randrange(7)}:{h}"
    if k == "auth":
        return "auth:" + rng.choice(["-", str(h)])

    def f():
        r2 = rng.random()
        if r2 < 0.3:
            return "-"
        if r2 < 0.6:
            return "@"
        if r2 < 0.7 and cur is not None:
            return f"t{rand_host(rng, h, 0.7)}:{hx(str(cur))}"
        return f"t{rand_host(rng, h, 0.7)}:{segs_wire([rand_str(rng, quirk)])}"
    return f"bg:{h},{f()},{f()}"


def random_case(rng, quirk):
    """a mostly valid case: the chain is steered by evaluating it on pathlib while it is generated"""
    import pathimpl
    pure = rng.random() < 0.4
    host = 0 if pure else rng.choice([0, 0, 1, 2, 3, 4, 5])
    args = [rand_arg(rng, quirk, False, pure, host) for _ in range(rng.choice([0, 1, 1, 2, 2, 3, 4]))]
    env = pathimpl.Env(True, [], 0)
    try:
        cur = env.mk(env.args(args_wire(args), None))
    except Exception:
        cur = None
    chain = []
    for _ in range(rng.choice([0, 1, 2, 3])):
        op = rand_op(rng, quirk, pure, host, cur)
        chain.append(op)
        if cur is not None:
            try:
                cur = env.apply(cur, op)
            except Exception:
                cur = None
    qs = [rand_query(rng, quirk, pure, host, cur) for _ in range(rng.randint(1, 8))]
    return (f"{'pure' if pure else 'tpath'} {MACHINES} {host} {args_wire(args)} "
            f"{';'.join(chain) if chain else '.'} {';'.join(qs)}")


# ---- the with_suffix quirk (see Spec/Path.lean `opQuirk`) -----------------------------------
def has_quirk(line):
    """True when some step of the case is `with_suffix('')` on a path whose stem is '.'
    (evaluated on pathlib; hosts are irrelevant for that)."""
    if "wx:-" not in line:
        return False
    import pathimpl
    toks = line.split()
    env = pathimpl.Env(True, [], 0)
    try:
        p = env.mk(env.args(toks[3], None))
    except Exception:
        return False
    if toks[4] != ".":
        for op in toks[4].split(";"):
            if op == "wx:-" and p.stem == ".":
                return True
            try:
                p = env.apply(p, op)
            except Exception:
                return False
    return p.stem == "." and "o:wx:-" in toks[5].split(";")
