"""C08 at the level of its consumers: the REAL `UBootShell.exec` (on the simulated console of
ubootsim) and the REAL `Bash`/`Ash.exec` (on real bash / dash) attach the command's log event as a
stream; what ends up in that event must be exactly the output the command returned.
case:  exec-log uboot <prompt> <chunk> <cuts> <cmd>*      cmd = <word,…>/<out>/<status>
       exec-log bash|ash <chunk> <cmd>*                    cmd = <out>/<status> | r | rc   (r/rc: an interactive
                                                            run("true") / run("cat") … terminate0() in between)
obs:   one token per command  <returned text>/<logged text>   (or err:<tag>)"""
import tbot
import tbot.log_event
from wire import hx, unhx, chars, lst

_captured = []
_orig_command = tbot.log_event.command


def _capturing_command(*a, **k):
    ev = _orig_command(*a, **k)
    rec = {"text": None}
    orig_close = ev.close

    def close():
        if rec["text"] is None:
            try:
                rec["text"] = ev.getvalue()
            except ValueError:
                rec["text"] = ""
        orig_close()

    ev.close = close
    _captured.append(rec)
    return ev


def _run_uboot(toks):
    import vclock, ubootimpl, mockio
    prompt, chunk = unhx(toks[0]), int(toks[1])
    cuts = [] if toks[2] == "." else [int(x) for x in toks[2].split(",")]
    m, io, con = ubootimpl.make_machine(prompt, chunk)
    out = []
    with vclock.CLOCK:
        vclock.CLOCK.reset()
        m.__enter__()
        io.cuts = list(cuts)
        for tok in toks[3:]:
            w, o, st = tok.split("/")
            args = [unhx(x) for x in w.split(",")]
            con.table = (list(args), unhx(o), int(st))
            del _captured[:]
            try:
                rc, text = m.exec(*[a.decode() for a in args])
                logged = _captured[0]["text"] if _captured else None
                out.append(chars(text) + "/" + chars(logged if logged is not None else "<no-event>"))
            except (Exception, mockio.Hang) as e:
                out.append("err:" + type(e).__name__)
        try:
            m.__exit__(None, None, None)
        except BaseException:
            pass
    return " ".join(out)


def _run_shell(kind, toks):
    import random, os, shellimpl
    exe, d = shellimpl.setup()
    chunk = int(toks[0])
    m = shellimpl.get_machine("dash" if kind == "ash" else "bash", chunk)
    io = m._verif_io["io"]
    rng = random.Random(len(" ".join(toks)))
    io.sizes = lambda: rng.choice([1, 2, 3, 7, 50, 4096])
    out = []
    try:
        for tok in toks[1:]:
            if tok in ("r", "rc"):
                # an interactive command in between (run() borrows the channel, the proxy attaches the event as a
                # stream with the prompt suppressed): it contributes no pair, but nothing it held back may turn up in
                # the log of the NEXT command
                if tok == "r":
                    with m.run("true") as c:
                        c.terminate0()
                else:
                    with m.run("cat") as c:
                        c.sendline("x", read_back=True)
                        c.read_until_timeout(0.05)
                        c.sendcontrol("D")
                        c.terminate0()
                continue
            o, st = tok.split("/")
            cid = shellimpl.new_id()
            open(os.path.join(d, f"out.{cid}"), "wb").write(unhx(o))
            open(os.path.join(d, f"status.{cid}"), "w").write(st)
            del _captured[:]
            rc, text = m.exec(exe, d, cid)
            logged = _captured[0]["text"] if _captured else None
            out.append(chars(text) + "/" + chars(logged if logged is not None else "<no-event>"))
    except BaseException:
        shellimpl.drop_machine(("dash" if kind == "ash" else "bash", chunk))
        raise
    return " ".join(out)


def _run_overlap(toks):
    """attachments (all with the prompt shown) that overlap WITHOUT being nested: `a<k>` attaches stream k, `d<k>`
    detaches it — in any order —, `r` reads what is there.  Every stream must hold exactly what was read while it was
    attached: pairs <expected>/<actual>, expected computed here from the reads."""
    import contextlib, vclock, mockio, chanimpl
    from tbot.machine.channel import channel as tch
    chunk, script, ops = int(toks[0]), chanimpl.parse_script(toks[1]), toks[2:]
    out = []
    with vclock.CLOCK:
        vclock.CLOCK.reset(0)
        io = mockio.ScriptIO(script, [])
        ch = tch.Channel(io)
        ch.__class__ = type("ChannelChunk", (tch.Channel,), {"READ_CHUNK_SIZE": chunk, "__slots__": ()})
        open_cms, sinks, expect = {}, {}, {}

        class Sink:
            def __init__(self):
                self.parts = []

            def write(self, s):
                self.parts.append(s)

        for op in ops:
            k = op[1:]
            if op[0] == "a" and k not in open_cms:
                sinks[k], expect[k] = Sink(), []
                cm = ch.with_stream(sinks[k], show_prompt=True)
                cm.__enter__()
                open_cms[k] = cm
            elif op[0] == "d" and k in open_cms:
                open_cms.pop(k).__exit__(None, None, None)
            elif op == "r":
                try:
                    data = ch.read(timeout=vclock.TICK)
                except (TimeoutError, mockio.Hang):
                    data = b""
                for j in open_cms:
                    expect[j].append(data)
        for k in list(open_cms):
            open_cms.pop(k).__exit__(None, None, None)
        for k in sorted(sinks):
            want = b"".join(expect[k]).decode("utf-8", errors="replace")
            out.append(chars(want) + "/" + chars("".join(sinks[k].parts)))
    return " ".join(out) if out else "-/-"


def run(line):
    toks = line.split()
    assert toks[0] == "exec-log"
    if toks[1] == "overlap":
        return _run_overlap(toks[2:])
    tbot.log_event.command = _capturing_command
    try:
        if toks[1] == "uboot":
            return _run_uboot(toks[2:])
        return _run_shell(toks[1], toks[2:])
    finally:
        tbot.log_event.command = _orig_command


def gen(rng, params):
    plain = b"abcdefghij 0123456789=>:-_"
    def out(forbidden=(b"=> ", b"U-Boot> ", b"=>\n")):
        # domain: look-alikes of the prompt are welcome, the complete prompt inside the output is not (the shell
        # classes take it for the end of the command — outside C08 and C19 alike)
        while True:
            lines = []
            for _ in range(rng.randint(0, 3)):
                lines.append(bytes(rng.choice(plain) for _ in range(rng.randint(0, 12))))
            o = b"\n".join(lines) + (b"\n" if rng.random() < 0.8 else b"")
            if not any(f in o for f in forbidden) and not o.endswith(b"=>"):
                return o
    if rng.random() < 0.3:
        # overlapping attachments, detached in any order
        import changen as g
        data = bytes(rng.choice(b"abcdefgh \n") for _ in range(rng.randint(4, 30)))
        pieces = g.cut(rng, data)
        ops, open_, nxt = [], [], 0
        for _ in range(rng.randint(4, 12)):
            r = rng.random()
            if r < 0.35 and len(open_) < 3:
                ops.append(f"a{nxt}"); open_.append(nxt); nxt += 1
            elif r < 0.6 and open_:
                ops.append(f"d{open_.pop(rng.randrange(len(open_)))}")
            else:
                ops.append("r")
        return " ".join(["exec-log", "overlap", str(rng.choice([1, 2, 3, 64])), g.script_wire([0] * len(pieces), pieces)] + ops)
    if rng.random() < 0.7:
        prompt = rng.choice([b"=> ", b"=> ", b"U-Boot> "])
        chunk = rng.choice([1, 3, 64, params["readChunkSize"]])
        cuts = lst(str(rng.choice([1, 2, 3, 5, 9, 40])) for _ in range(rng.randint(0, 30)))
        cmds = []
        for _ in range(rng.randint(2, 5)):
            name = rng.choice([b"crc32", b"crc32", b"echo", b"version", b"md"])
            words = [name] + [bytes(rng.choice(b"abc123") for _ in range(rng.randint(1, 4))) for _ in range(rng.randint(0, 2))]
            o = out()
            if name == b"crc32" and not o.endswith(b"\n"):
                o += b"\n"
            cmds.append("/".join([lst(hx(w) for w in words), hx(o), str(rng.choice([0, 0, 1]))]))
        return " ".join(["exec-log", "uboot", hx(prompt), str(chunk), cuts] + cmds)
    kind = rng.choice(["bash", "ash"])
    cmds = ["/".join([hx(out()), str(rng.choice([0, 0, 3]))]) for _ in range(rng.randint(2, 4))]
    if rng.random() < 0.6:
        cmds.insert(rng.randint(0, len(cmds) - 1), rng.choice(["r", "rc"]))
    return " ".join(["exec-log", kind, str(rng.choice([1, 64, params["readChunkSize"]]))] + cmds)
