"""U-Boot console simulator: a line-by-line transcription of `UBoot.Con` / `UBoot.feed` /
`Hush.split` (lean/TbotVerif/Model/UBoot.lean, Model/Hush.lean) behind a REACTIVE ChannelIO on
the virtual clock.  There is no U-Boot binary here; the real `UBootShell` talks to this, the Lean
model talks to the Lean console, and `ubootimpl` has every line this tokenizer sees re-tokenised
by `Hush.hushWords` through the driver — the two must agree."""
import vclock
import verbosity
from mockio import Hang
from tbot.machine.channel import channel as tch

CR, LF = 13, 10
SPECIAL = bytes([0x00, 0x01, 0x02, 0x03, 0x04, 0x05, 0x06, 0x08, 0x09, 0x0B, 0x0E, 0x0F, 0x10, 0x15, 0x17, 0x18,
                 0x1B, 0x7F])
ECHO_STATUS = b"echo $?"
SYNTAX_MSG = b"syntax error\n"
INTR_MSG = b"<INTERRUPT>\r\n"
USAGE_MSG = b"setenv - set environment variables\n"
PLAIN = set(b"abcdefghijklmnopqrstuvwxyzABCDEFGHIJKLMNOPQRSTUVWXYZ0123456789_@%+=:,./-")


def unknown_msg(name):
    return b"Unknown command '" + name + b"' - try 'help'\n"


def not_defined_msg(name):
    return b"## Error: \"" + name + b"\" not defined\n"


def bad_name_msg(name):
    return b"## Error: illegal character '=' in variable name \"" + name + b"\"\n"


def printable(c):
    return c >= 32 and c != 127


def unbs(w):
    """`done_word`'s backslash-removal pass; None: the word ends in a lone backslash"""
    out = bytearray()
    i = 0
    while i < len(w):
        if w[i] == 0x5C:
            if i + 1 >= len(w):
                return None
            out.append(w[i + 1])
            i += 2
        else:
            out.append(w[i])
            i += 1
    return bytes(out)


def hush_words(line):
    """`Hush.hushWords`: the argument vector, or None on any hazard"""
    st = "U"
    w = None          # raw bytes of the current word (None: no word started)
    acc = []

    def done():
        nonlocal w
        if w is None:
            return True
        x = unbs(w)
        if x is None:
            return False
        acc.append(x)
        w = None
        return True

    for c in line:
        if st == "U":
            if not printable(c):
                return None
            if c == 0x20:
                if not done():
                    return None
            elif c == 0x27:
                w = w if w is not None else bytearray()
                st = "S"
            elif c == 0x22:
                w = w if w is not None else bytearray()
                st = "D"
            elif c == 0x5C:
                w = w if w is not None else bytearray()
                w.append(c)
                st = "E"
            elif c in PLAIN:
                w = w if w is not None else bytearray()
                w.append(c)
            else:
                return None
        elif st == "E":
            if not printable(c):
                return None
            w.append(c)
            st = "U"
        elif st == "S":
            if not printable(c):
                return None
            if c == 0x27:
                st = "U"
            else:
                w.append(c)
        else:  # "D"
            if c == 0x22:
                st = "U"
            elif c in PLAIN:
                w.append(c)
            else:
                return None
    if st != "U":
        return None
    if not done():
        return None
    return acc


def cook(out):
    return out.replace(b"\n", b"\r\n")


class Console:
    def __init__(self, prompt):
        self.prompt = bytes(prompt)
        self.line = bytearray()
        self.status = 0
        self.env = []            # list of (name, value), most recent first
        self.table = None        # (argv, out, status)
        self.ran = []            # ("a", argv) | ("q",) | ("h", line)
        self.tokenised = []      # every line handed to hush_words, with the result

    # -- environment
    def env_get(self, k):
        for n, v in self.env:
            if n == k:
                return v
        return None

    def env_del(self, k):
        self.env = [(n, v) for n, v in self.env if n != k]

    def env_set(self, k, v):
        self.env_del(k)
        self.env.insert(0, (k, v))

    def builtin(self, argv):
        cmd, rest = argv[0], argv[1:]
        if cmd == b"setenv":
            if not rest:
                return USAGE_MSG, 1
            name, vals = rest[0], rest[1:]
            if not name or b"=" in name:
                return bad_name_msg(name), 1
            if not vals:
                self.env_del(name)
            else:
                self.env_set(name, b" ".join(vals))
            return b"", 0
        if cmd == b"printenv" and len(rest) == 1:
            v = self.env_get(rest[0])
            if v is None:
                return not_defined_msg(rest[0]), 1
            return rest[0] + b"=" + v + b"\n", 0
        return unknown_msg(cmd), 1

    def dispatch(self, argv):
        self.ran.append(("a", list(argv)))
        if self.table is not None and self.table[0] == argv:
            self.status = self.table[2]
            return self.table[1]
        out, self.status = self.builtin(argv)
        return out

    def run_line(self, line):
        if line == ECHO_STATUS:
            out = str(self.status).encode() + b"\n"
            self.status = 0
            self.ran.append(("q",))
            return out
        ws = hush_words(line)
        self.tokenised.append((line, ws))
        if ws is None:
            self.status = 1
            self.ran.append(("h", line))
            return SYNTAX_MSG
        if not ws:
            return b""
        return self.dispatch(ws)

    def feed1(self, c):
        if c == CR or c == LF:
            line = bytes(self.line)
            self.line = bytearray()
            out = self.run_line(line)
            return b"\r\n" + cook(out) + self.prompt
        if c == 0x03:
            self.line = bytearray()
            return INTR_MSG + self.prompt
        if c in SPECIAL:
            return b""
        self.line.append(c)
        return bytes([c])

    def feed(self, data):
        return b"".join(self.feed1(c) for c in data)


class SimIO(tch.ChannelIO):
    """reactive transport: `write` feeds the console, whose answer becomes readable at once; reads
    are cut at the absolute stream offsets given by `cuts` (sizes; the head is what is left of the
    current piece) and never span the answers to two writes.  No data and no timeout = `Hang`."""

    def __init__(self, console, banner=b""):
        self.con = console
        self.segs = [bytearray(banner)] if banner else []   # one segment per answered write
        self.cuts = []
        self.pieces = []
        self.tx = bytearray()
        self.wmax = None
        self._short = False
        self._closed = False

    def write(self, buf):
        buf = bytes(buf)
        given = len(buf)
        if self.wmax is not None:
            buf = buf[: max(1, self.wmax())]       # a transport may take fewer bytes than it is given
        cont, self._short = self._short, len(buf) < given
        self.tx += buf
        ans = self.con.feed(buf)
        if ans:
            if cont and self.segs:
                self.segs[-1] += ans               # the rest of a write that was taken in parts: one answer
            else:
                self.segs.append(bytearray(ans))
        return len(buf)

    def read(self, n, timeout=None):
        clk = vclock.CLOCK
        if not self.segs:
            if timeout is None:
                raise Hang()
            clk.ticks += vclock.to_ticks(timeout)
            raise TimeoutError()
        while self.cuts and self.cuts[0] == 0:
            self.cuts.pop(0)
        seg = self.segs[0]
        k = min(n, len(seg))
        if self.cuts:
            k = min(k, self.cuts[0])
            self.cuts[0] -= k
        d = bytes(seg[:k])
        del seg[:k]
        if not seg:
            self.segs.pop(0)
        self.pieces.append(k)
        return verbosity.through_debug_log(self, d)

    def pending(self):
        return b"".join(bytes(x) for x in self.segs)

    def close(self):
        self._closed = True

    def fileno(self):
        return 99

    @property
    def closed(self):
        return self._closed

    def update_pty(self, columns, lines):
        pass
