"""Case generator, shrinker and classifier for the context properties C14 / C15.
Wire format: see ctximpl.py.  Everything random comes from the `rng` passed in."""
import itertools

# dependency graphs (DESIGN C14 K): the real chain lab <- board <- u-boot <- linux with its
# exclusivity pattern (shared, exclusive, exclusive); a diamond; a chain plus an isolated class;
# a class requested shared by one and exclusively by another dependant; a single class
GRAPHS = {
    "chain4": "./0:0/1:1/2:1",
    "diamond": "./0:0/0:0/1:0,2:0",
    "chain+iso": "./0:0/1:1/.",
    "mixed-excl": "./0:0/0:1",
    "chain3": "./0:0/1:1",
    "single": ".",
}
GRAPH_OF = {v: k for k, v in GRAPHS.items()}


def ncls(graph):
    return len(graph.split("/"))


def ob(rng):
    return rng.choice(["0", "1", "-", "-"])


def req_tok(rng, n, c=None, reset=None, excl=None, roe=None):
    c = rng.randrange(n) if c is None else c
    reset = rng.choice("0001") if reset is None else reset
    excl = rng.choice("0001") if excl is None else excl
    roe = ob(rng) if roe is None else roe
    return f"R:{c}:{reset}:{excl}:{roe}"


def gen_block(rng, n, depth, width):
    out = []
    for _ in range(rng.randint(0, width)):
        out += gen_stmt(rng, n, depth)
    return out


def gen_stmt(rng, n, depth):
    if depth <= 0:
        k = rng.choice(["raise", "skip", "td", "R", "R", "R"])
    else:
        k = rng.choice(["R", "R", "R", "R", "R", "C", "K", "T", "T", "raise", "skip", "td"])
    if k == "R":
        return [req_tok(rng, n)] + gen_block(rng, n, depth - 1, 3) + [")"]
    if k == "C":
        return ["C"] + gen_block(rng, n, depth - 1, 3) + [")"]
    if k == "K":
        return [f"K:{ob(rng)}:{ob(rng)}"] + gen_block(rng, n, depth - 1, 3) + [")"]
    if k == "T":
        return ["T"] + gen_block(rng, n, depth - 1, 3) + [")"]
    if k == "td":
        return [f"td:{rng.randrange(n)}"]
    return [k]


def faults(rng, p_none=0.5):
    def one():
        if rng.random() < p_none:
            return "."
        k = rng.choice([1, 1, 1, 2])
        return ",".join(str(x) for x in sorted({rng.randrange(1, 9) for _ in range(k)}))
    return one(), one()


def template(rng, graph, n):
    """edge cases named in DESIGN C14/C15 and section 5"""
    t = rng.randrange(8)
    top = n - 1
    if t == 0:      # F9 family: keep-alive, several instances alive at the outermost exit, a teardown fails
        body = []
        for _ in range(rng.randint(1, 3)):
            body += [req_tok(rng, n, reset="0", excl="0")] + gen_block(rng, n, 1, 1) + [")"]
        return "1", rng.choice("01"), ["C"] + body + [")"], (".", str(rng.randrange(1, 6)))
    if t == 1:      # F12 family: a dependant is rebuilt while keep-alive is reconfigured on, outer request still open
        d = rng.randrange(1, n) if n > 1 else 0
        inner = [req_tok(rng, n, c=d, reset="1", excl="0")] + gen_block(rng, n, 1, 1) + [")"]
        prog = [req_tok(rng, n, c=d, reset="0", excl="0")] + gen_block(rng, n, 0, 1) + ["K:1:" + ob(rng)] + inner + [")", ")"]
        if rng.random() < 0.7:
            prog = ["C"] + prog + [")"]
        return "0", rng.choice("01"), prog, faults(rng, 0.8)
    if t == 2:      # exclusive vs shared on one class, both nestings, with and without keep-alive
        c = rng.randrange(n)
        a = [req_tok(rng, n, c=c, excl=rng.choice("01"))]
        b = [req_tok(rng, n, c=c, excl=rng.choice("01"), reset=rng.choice("001"))] + gen_block(rng, n, 0, 1) + [")"]
        prog = ["C"] + a + ["T"] + b + [")"] + gen_block(rng, n, 1, 2) + [")"] + b + [")"]
        return rng.choice("01"), rng.choice("01"), prog, faults(rng, 0.8)
    if t == 3:      # reset_on_error: explicit / default, raise / skip, outer holder still there
        c = rng.randrange(n)
        leave = rng.choice(["raise", "skip"])
        inner = [req_tok(rng, n, c=rng.choice([c, rng.randrange(n)]), reset="0")] + gen_block(rng, n, 0, 1) + [leave, ")"]
        prog = ["C", req_tok(rng, n, c=c, reset="0"), "T"] + inner + [")"] + gen_block(rng, n, 1, 1) + [")"]
        prog += [req_tok(rng, n, c=c, reset="0"), ")", ")"]
        return rng.choice("01"), rng.choice("01"), prog, faults(rng, 0.8)
    if t == 4:      # reset under keep-alive / while held
        c = rng.randrange(n)
        prog = ["C", req_tok(rng, n, c=c, reset="0"), req_tok(rng, n, c=c, reset="1"), ")"]
        prog += gen_block(rng, n, 1, 1) + [")", req_tok(rng, n, c=rng.randrange(n)), ")", ")"]
        return rng.choice("01"), rng.choice("01"), prog, faults(rng, 0.7)
    if t == 5:      # keep-alive context used without entering it; nested `with ctx`
        prog = [req_tok(rng, n), ")", "C", "C", req_tok(rng, n), ")", ")", req_tok(rng, n), ")", ")"]
        return "1", rng.choice("01"), prog, faults(rng, 0.8)
    if t == 6:      # teardown_if_alive of a prerequisite while the dependant is alive
        prog = ["C", req_tok(rng, n, c=top, reset="0", excl="0"), f"td:{rng.randrange(n)}"] + gen_block(rng, n, 1, 2) + [")"]
        prog += gen_block(rng, n, 1, 1) + [")"]
        return rng.choice("01"), rng.choice("01"), prog, faults(rng, 0.7)
    # reconfigure on/off nests
    prog = ["C", f"K:{rng.choice('01')}:{ob(rng)}"] + gen_block(rng, n, 2, 2) + [f"K:{rng.choice('01')}:-"] + gen_block(rng, n, 1, 2) + [")", ")"]
    prog += gen_block(rng, n, 1, 1) + [")"]
    return rng.choice("01"), rng.choice("01"), prog, faults(rng, 0.7)


def gen_case(rng, params, fault_free=0.0):
    graph = rng.choice(["./0:0/1:1/2:1"] * 3 + ["./0:0/0:0/1:0,2:0"] * 2 + ["./0:0/1:1/.", "./0:0/0:1", "./0:0/1:1", "."])
    n = ncls(graph)
    if rng.random() < 0.4:
        ka, roe, prog, (fi, fd) = template(rng, graph, n)
    else:
        ka, roe = rng.choice("01"), rng.choice("01")
        prog = gen_block(rng, n, rng.choice([2, 3, 4]), 3)
        if rng.random() < 0.75:
            prog = ["C"] + prog + [")"]
        fi, fd = faults(rng)
    if rng.random() < fault_free:
        fi, fd = ".", "."
    return " ".join([ka, roe, graph, fi, fd] + prog)


# ---- program trees (for shrinking / classification) -------------------------------------------
def parse(toks):
    """token list -> nested list of [head, children] / leaf strings"""
    def block(i):
        out = []
        while i < len(toks) and toks[i] != ")":
            t = toks[i]
            if t[0] in "RCKT" and t not in ("raise",):
                body, i = block(i + 1)
                out.append([t, body])
                i += 1          # the ")"
            else:
                out.append(t)
                i += 1
        return out, i
    tree, i = block(0)
    assert i == len(toks), "unbalanced"
    return tree


def unparse(tree):
    out = []
    for s in tree:
        if isinstance(s, str):
            out.append(s)
        else:
            out += [s[0]] + unparse(s[1]) + [")"]
    return out


def variants(tree):
    """smaller / simpler trees"""
    for i, s in enumerate(tree):
        yield tree[:i] + tree[i + 1:]                       # drop a statement
        if not isinstance(s, str):
            yield tree[:i] + s[1] + tree[i + 1:]            # unwrap a block
            for sub in variants(s[1]):
                yield tree[:i] + [[s[0], sub]] + tree[i + 1:]
            h = s[0].split(":")
            if h[0] == "R":
                for j in (2, 3):
                    if h[j] == "1":
                        h2 = list(h); h2[j] = "0"
                        yield tree[:i] + [[":".join(h2), s[1]]] + tree[i + 1:]
                if h[4] != "-":
                    h2 = list(h); h2[4] = "-"
                    yield tree[:i] + [[":".join(h2), s[1]]] + tree[i + 1:]
            if h[0] == "K":
                for j in (1, 2):
                    if h[j] != "-":
                        h2 = list(h); h2[j] = "-"
                        yield tree[:i] + [[":".join(h2), s[1]]] + tree[i + 1:]


def shrink_candidates(line):
    toks = line.split()
    head, prog = toks[:5], toks[5:]
    tree = parse(prog)
    for t in variants(tree):
        yield " ".join(head + unparse(t))
    for k in (3, 4):                                        # drop faults
        if head[k] != ".":
            xs = head[k].split(",")
            for i in range(len(xs)):
                h2 = list(head); h2[k] = ",".join(xs[:i] + xs[i + 1:]) or "."
                yield " ".join(h2 + prog)
    for k in (0, 1):
        if head[k] == "1":
            h2 = list(head); h2[k] = "0"
            yield " ".join(h2 + prog)
    # smaller graph when the program only uses a prefix of the classes
    used = [int(t.split(":")[1]) for t in prog if t.startswith(("R:", "td:"))]
    parts = head[2].split("/")
    m = (max(used) + 1) if used else 1
    if m < len(parts):
        h2 = list(head); h2[2] = "/".join(parts[:m])
        yield " ".join(h2 + prog)


def depth_of(tree):
    return 0 if not tree else max((1 + depth_of(s[1])) if not isinstance(s, str) else 1 for s in tree)


def classify(line, obs):
    toks = line.split()
    ks = ["graph=" + GRAPH_OF.get(toks[2], "other"), "ka=" + toks[0], "roe_default=" + toks[1],
          "init_faults=%d" % (0 if toks[3] == "." else len(toks[3].split(","))),
          "down_faults=%d" % (0 if toks[4] == "." else len(toks[4].split(",")))]
    prog = toks[5:]
    ks.append("depth=%d" % min(depth_of(parse(prog)), 6))
    kinds = set()
    for t in prog:
        h = t.split(":")
        if h[0] == "R":
            kinds.add("req")
            if h[2] == "1": kinds.add("req.reset")
            if h[3] == "1": kinds.add("req.exclusive")
            if h[4] != "-": kinds.add("req.roe=" + h[4])
        elif h[0] == "K":
            kinds.add("reconfigure")
            if h[1] != "-": kinds.add("reconfigure.ka=" + h[1])
        elif h[0] in ("C", "T"):
            kinds.add({"C": "with-ctx", "T": "try"}[h[0]])
        elif h[0] != ")":
            kinds.add(h[0])
    ks += ["stmt=" + k for k in sorted(kinds)]
    evs = obs.split()
    seen = set()
    for e in evs:
        h = e.split(":")
        if h[0] in ("l", "c", "end") and len(h) > 2:
            seen.add("exc=" + h[1])
        if h[0] == "q":
            seen.add("dependency-request")
        if h[0] == "x" and h[1] in ("fi", "fd"):
            seen.add("fault-hit=" + h[1])
    ks += sorted(seen)
    ks.append("outcome=" + ("ok" if evs and evs[-1] == "end:-" else "exception"))
    n_init = sum(1 for e in evs if e.startswith("i:"))
    ks.append("inits=%s" % (n_init if n_init < 4 else "4-7" if n_init < 8 else "8+"))
    return ks


# ---- small-scope enumeration --------------------------------------------------------------------
def exhaustive(params, graph="./0:0/1:1"):
    """chain of three classes (shared, exclusive): every program `[C] s1 [s2] [)]` where each `si` is a leaf
    (`raise`, `td:c`) or a request with any flags whose body is empty, a leaf, or one inner request / reconfigure
    block; both keep_alive and reset_on_error defaults; no fault, and every single init / teardown fault 1..3."""
    n = ncls(graph)
    leaves = ["raise", "skip"] + [f"td:{c}" for c in range(n)]
    heads = [f"R:{c}:{r}:{x}:{o}" for c in range(n) for r in "01" for x in "01" for o in ("-", "1")]
    inner = [[]] + [[l] for l in ("raise", "td:0")] + [[f"R:{c}:{r}:{x}:-", ")"] for c in range(n) for r in "01" for x in "01"]
    inner += [["K:1:-", f"R:{c}:1:0:-", ")", ")"] for c in range(n)]
    items = [[l] for l in leaves] + [[h] + b + [")"] for h in heads for b in inner]
    flt = [(".", ".")] + [(str(k), ".") for k in (1, 2, 3)] + [(".", str(k)) for k in (1, 2, 3)]
    for ka in "01":
        for roe in "01":
            for wrap in (True, False):
                for a in items:
                    for b in [[]] + items[::29]:
                        prog = a + b
                        if wrap:
                            prog = ["C"] + prog + [")"]
                        for fi, fd in flt:
                            yield " ".join([ka, roe, graph, fi, fd] + prog)
