"""C14 — the context never has two live instances of a machine and never leaks one.
Cases: programs of nested/sequential requests over dependency graphs, fault oracles (ctxgen.py);
implementation: the real tbot.Context with instrumented machine classes (ctximpl.py)."""
import ctxgen
import ctximpl

KIND = "ctx"
SPECS = ["C14"]
THEOREMS = ["C14.inv_runSt", "C14.I1", "C14.I2_alternation", "C14.I2_no_leak", "C14.I2", "C14.I3", "C14.I4", "C14.I5",
            "C14.I6_order", "C14.spec_partial", "C14.final_ups", "C14.final_quiet",
            "C14.I6", "C14.I6_event", "C14.spec", "Ctx.ops_W", "Ctx.tdLoop_W", "Ctx.execBlock_W"]
LEAN_MODULES = ["TbotVerif.Props.C14", "TbotVerif.Props.C14Full"]
QUICK_N, THOROUGH_N = 15000, 120000
QUICK_BUDGET, THOROUGH_BUDGET = 40, 600
CASE_WALL = 20
RULE = ("random program trees (depth <= 4, width <= 3) of request{..} with all reset/exclusive/reset_on_error "
        "combinations, with ctx{..}, reconfigure{..}, try{..}, raise, skip, teardown_if_alive over the dependency graphs "
        "chain lab<-board<-u-boot<-linux (shared, exclusive, exclusive), diamond, chain+isolated, mixed shared/exclusive, "
        "single; 40% from edge-case templates (teardown failing at the keep-alive exit, rebuild under reconfigure, "
        "exclusive vs shared, reset_on_error with raise/skip, reset while held, keep-alive without `with ctx`, "
        "teardown_if_alive of a prerequisite, reconfigure nests); init/teardown faults at random ordinals 1..8 in half "
        "of the cases; a case is non-trivial when the program nests at least two levels or a dependency request was "
        "made; distinct = distinct case lines")
TRUSTED = ["harness/ctximpl.py: instrumented machine.Machine subclasses (connector logs init/down), id() renaming, "
           "exception identity by id()",
           "CPython contextlib (ExitStack, generator context managers) — the model encodes their semantics"]
ASSUMPTIONS = ["from_context implementations request their prerequisites through ctx.request inside one ExitStack "
               "(as board.Connector, LinuxUbootConnector, ConsoleConnector do) and only classes with smaller numbers "
               "(acyclic)",
               "a failing machine initialisation unwinds itself (Machine.__enter__ guard stack, property C13); "
               "a failing teardown leaves the machine down"]


def gen_case(rng, params):
    return ctxgen.gen_case(rng, params)


def run_impl(line):
    return ctximpl.run_case(line)


classify = ctxgen.classify
shrink_candidates = ctxgen.shrink_candidates


def nontrivial(line, obs):
    prog = line.split()[5:]
    return " q:" in " " + obs or ctxgen.depth_of(ctxgen.parse(prog)) >= 2


def exhaustive(params):
    return ctxgen.exhaustive(params)


def explain(line, impl, model):
    return ("Spec.C14 = I1 (one live object per class, fresh identities) & I2 (init/down alternate, all down at the end) "
            "& I3 (yielded object is up) & I4 (keep-alive off: down when the last request is left) & I5 (nothing up after "
            "the outermost `with ctx`) & I6 (dependants go down first at that exit); impl==model: %s" % (impl == model))
