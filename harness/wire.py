"""Wire format shared with lean/TbotVerif/Model/ChanRun.lean (namespace Wire)."""


def hx(b: bytes) -> str:
    return b.hex() if b else "-"


def unhx(s: str) -> bytes:
    return b"" if s == "-" else bytes.fromhex(s)


def chars(s: str) -> str:
    return hx(s.encode("utf-8"))


def opt(n) -> str:
    return "-" if n is None else str(n)


def lst(items) -> str:
    items = list(items)
    return ",".join(items) if items else "."


def b01(x) -> str:
    return "1" if x else "0"
