"""C19: U-Boot commands — output, status and environment parsed exactly (the quoting half is
C19Q).  The REAL `UBootShell` (exec / exec0 / test / env) against the console simulator
`ubootsim` (a transcription of the Lean console `UBoot.Con`), the Lean model against the Lean
console, on the same case and the same fragmentation; `Spec.C19` evaluated on what the real code
returned.

case: <prompt> <chunk> <cuts> <op>*     (see ubootimpl.py)
"""
import itertools

import quote as q
import ubootimpl
import ubootsim
from wire import hx, unhx, chars, lst

KIND = "uboot"
SPECS = ["C19"]
THEOREMS = [
    "C19.spec_holds", "C19.exec_exact", "C19.exec_crc_exact", "C19.exec0_raises_iff", "C19.test_iff",
    "C19.exec_fragmentation", "C19.env_roundtrip", "C19.special_forbidden", "C19.intr_forbidden",
    "C19.blacklist_control_only", "C19.quoting_bytes_sendable", "C19.printable_sendable", "C19.crc_override_eq",
    "C19.early_prompt_confuses", "C19.crc_defect_witness",
    "UBootExec.exec_general", "UBootExec.fetchRetcode_spec", "UBootExec.crc_text", "UBootExec.escape_sendable",
    "UBootSend.sendLoopRB_line", "UBootChan.read_exact", "UBootChan.rup_good", "UBootCon.feed_line",
    "UBootCon.runLine_escape", "UBootText.decode_sep", "UBootText.text_crc_restore", "UBootText.parseInt_digits",
    "UBootText.sliceValue_printLine", "C19Q.hushWords_escape",
]
LEAN_MODULES = ["TbotVerif.Props.C19", "TbotVerif.Props.C19Q"]
AUX = ["C19Q"]   # quoting layer: real _hush_quote vs the Lean model
QUICK_N, THOROUGH_N = 3000, 60000
QUICK_BUDGET, THOROUGH_BUDGET = 40, 900
CASE_WALL = 30
RULE = ("1-4 calls (exec/exec0/test with the console answering (out, status) for exactly that argv; env set / env get) on one "
        "UBootShell; prompt from {'=> ', 'U-Boot> ', 'U-Boot# ', '> ', '=>', non-ASCII}; READ_CHUNK_SIZE from {1,3,64,4096}; "
        "1-5 str arguments per position from {safe, quotes, backslash runs (also trailing), $ ; & | # = blanks, 2/3/4-byte "
        "UTF-8, empty, 500-530 bytes (crossing the 512-byte send slice)}, 1 in 10 with a control byte (black-listed: must be "
        "refused before anything is sent; CR/LF/other: outside the domain); the crc32 command with the '=> ' prompt; outputs: "
        "empty, no final newline, CR/LF mixes, the prompt and prompt prefixes inside and at the end without newline, '\\n=> ' "
        "inside crc32 output, invalid UTF-8, up to 5000 bytes; status from {0,1,2,127,255,2^32-1,random}; variable names "
        "plain / needing quotes / non-ASCII / with '=' / empty, values likewise; every console answer cut by a schedule from "
        "{one piece, all 1-byte, small random, mixed up to 4096}; non-trivial = an argument/name/value needs quoting, or an "
        "output contains the prompt or a prefix of it, or the crc32 override is active; distinct = distinct case lines")
TRUSTED = [
    "the U-Boot console model (`UBoot.Con`: raw-mode echo, CR→CR LF, line run on Enter, hush tokenizer `Hush.hushWords`, "
    "`\\n`→`\\r\\n` on output, `echo $?`, `setenv`/`printenv`, prompt) is written from U-Boot's cli_readline.c / cli_hush.c / "
    "serial semantics; there is NO U-Boot binary in this environment, so the console is NOT validated against U-Boot",
    "harness/ubootsim.py is a hand transcription of that console; its tokenizer is compared with `Hush.hushWords` (through "
    "the driver, `quote hsplit`) on every command line it sees, its console behaviour is compared with the Lean console "
    "through every observation (`ran`, `written`, piece sizes, return values)",
    "CPython's int() on the digits the console prints; bytes.decode('utf-8','replace'); str.replace",
]
ASSUMPTIONS = [
    "arguments, names and values are Python str (valid UTF-8 on the wire); the theorems range over printable ASCII and all "
    "non-ASCII text (every byte 0x20-0x7E or >= 0x80); control bytes are refused by the write black-list or are outside the domain",
    "no-early-prompt: the console output followed by the prompt has no shorter prefix that ends with the prompt in force "
    "(theorems: for the stream, hence for every fragmentation; Spec on the implementation: for the piece boundaries the "
    "transport actually produced)",
    "for the crc32 override the command's output ends with a newline (otherwise the '\\n=> ' prompt never arrives and tbot waits for ever)",
    "variable names are non-empty and contain no '='; values are single-line; the command line fits U-Boot's console buffer "
    "(CONFIG_SYS_CBSIZE is not modelled); status is a natural number printed in decimal",
]

PROMPTS = [b"=> ", b"=> ", b"=> ", b"U-Boot> ", b"U-Boot> ", b"U-Boot# ", b"> ", b"=>", "µBoot» ".encode()]
CMDS = ["echo", "md", "version", "mw.l", "run", "printenv", "setenv", "bdinfo", "crc32", "true", "false", "tftp"]
UTF = ["é".encode(), "✓".encode(), "😀".encode(), b"\xff", b"\xc3", b"\xe2\x9c"]
VARS = ["crc32", "bootargs", "ipaddr", "foo_1", "a", "tbot_test_env_var", "bootcmd", "a b", "x$y", "größe", "v'q", "b\\s", "a=b", "",
        "#c", "semi;colon", "✓"]


def gen_arg(rng):
    return q.gen_string(rng, q.HUSH_HAZ, q.SNIPPETS_HUSH, allow_ctrl=rng.random() < 0.1)


def gen_out(rng, prompt, crc):
    k = rng.random()
    if k < 0.08:
        return b""
    if k < 0.14:
        n = rng.choice([4095, 4096, 4097, 5000])
        return bytes(rng.choice(b"abc =>\n") for _ in range(n)) + b"\n"
    if crc and k < 0.6:
        tail = rng.choice([b"\n", b"\n", b"\n", b"", b"\n\n", b"\r\n"])
        mid = rng.choice([b"", b"", b"\n=> fake", b"\n=>", b"=> "])
        return b"crc32 for 00000000 ... 00000003 ==> 2144df1c" + mid + tail
    parts = []
    for _ in range(rng.randint(1, 6)):
        r = rng.random()
        if r < 0.35:
            parts.append(bytes(rng.choice(b"abc xyz019=>") for _ in range(rng.randint(1, 8))))
        elif r < 0.55:
            parts.append(rng.choice([b"\n", b"\n", b"\r\n", b"\n\r", b"\r", b"\n\n"]))
        elif r < 0.68:
            parts.append(prompt[: rng.randint(1, len(prompt))])            # prefix of the prompt
        elif r < 0.78:
            parts.append(prompt + rng.choice([b"x", b"\n", b"", b"=> "]))   # the prompt itself, inside
        elif r < 0.84:
            parts.append(b"\n" + prompt)
        elif r < 0.92:
            parts.append(rng.choice(UTF))
        else:
            parts.append(rng.choice([b"\x1b[1m", b"\x00", b"\t", b"\x07", b"## Error: x\n"]))
    out = b"".join(parts)
    if rng.random() < 0.7:
        out += b"\n"
    return out


def gen_status(rng):
    return rng.choice([0, 0, 0, 0, 1, 1, 2, 127, 255, 4294967295, rng.randint(0, 300), rng.randint(0, 10 ** 12)])


def gen_cuts(rng):
    k = rng.random()
    if k < 0.2:
        return []
    if k < 0.4:
        return [1] * rng.choice([40, 400, 6000])
    if k < 0.7:
        return [rng.randint(1, 9) for _ in range(rng.randint(1, 400))]
    return [rng.choice([1, 2, 3, 5, 17, 64, 511, 512, 513, 4095, 4096, 4097]) for _ in range(rng.randint(1, 60))]


def gen_op(rng, prompt, known):
    k = rng.random()
    if k < 0.6:
        kind = rng.choice(["x", "x", "x0", "t"])
        crc = rng.random() < (0.25 if prompt == b"=> " else 0.08)
        if crc:
            args = ["crc32"] + rng.choice([["0x10000008", "0x42"], ["0", "4"], [gen_arg(rng)], []])
        else:
            head = rng.choice(CMDS) if rng.random() < 0.8 else gen_arg(rng)
            args = [head] + [gen_arg(rng) for _ in range(rng.choice([0, 1, 1, 2, 2, 3, 4]))]
            if head != "crc32" and rng.random() < 0.08:
                # the word `crc32` as an ARGUMENT (a variable called crc32, `hash crc32 …`): no special case applies
                args.insert(rng.choice([1, 1, min(2, len(args))]), "crc32")
        return "/".join([kind, lst(chars(a) for a in args), hx(gen_out(rng, prompt, crc)), str(gen_status(rng))])
    var = rng.choice(VARS) if rng.random() < 0.8 else gen_arg(rng)
    if k < 0.85:
        r = rng.random()
        if r < 0.1:
            val = rng.choice(["=> ", "x=> y", "U-Boot> ", " lead", "trail ", "a=b", "12 foo !? # true; exit"])
        else:
            val = gen_arg(rng)
        known.append(var)
        return "/".join(["e", chars(var), chars(val)])
    if known and rng.random() < 0.7:
        var = rng.choice(known)
    return "/".join(["e", chars(var), "!"])


def gen_case(rng, params):
    prompt = rng.choice(PROMPTS)
    chunk = rng.choice([1, 3, 64, params["readChunkSize"], params["readChunkSize"], params["readChunkSize"]])
    known = []
    ops = [gen_op(rng, prompt, known) for _ in range(rng.choice([1, 1, 2, 2, 3, 4]))]
    cuts = gen_cuts(rng)
    full = any(f[0] != "e" and prompt in unhx(f[2]).replace(b"\n", b"\r\n") for f in (o.split("/") for o in ops))
    if full and rng.random() < 0.8:
        # the prompt itself inside an output: mostly keep piece boundaries away from it (a boundary right
        # behind it is the excluded early-prompt situation; 1 in 5 of these cases still goes there)
        chunk = params["readChunkSize"]
        cuts = rng.choice([[], [], [4096] * 4, [5000], [4096, 1, 4096]])
    return " ".join([hx(prompt), str(chunk), lst(str(c) for c in cuts)] + ops)


def run_impl(line):
    return ubootimpl.run_case(line)


def _ops(line):
    return [t.split("/") for t in line.split()[3:]]


def _strings(f):
    if f[0] == "e":
        return [unhx(f[1])] + ([] if f[2] == "!" else [unhx(f[2])])
    return [] if f[1] == "." else [unhx(a) for a in f[1].split(",")]


def _lookalike(out, prompt):
    body = out.replace(b"\n", b"\r\n")
    return any(prompt[:i] in body for i in range(1, len(prompt) + 1) if len(prompt[:i]) >= min(2, len(prompt)))


def classify(line, obs):
    toks = line.split()
    prompt = unhx(toks[0])
    ks = ["prompt=" + prompt.decode("utf-8", "replace").replace(" ", "_"), "chunk=" + toks[1]]
    cuts = [] if toks[2] == "." else toks[2].split(",")
    ks.append("cuts=" + ("none" if not cuts else "all-1" if set(cuts) == {"1"} else "small" if max(map(int, cuts)) < 10 else "mixed"))
    if obs.split("/")[0] in ("unsupported", "tokenizer-mismatch", "init-failed", "init-left-data"):
        return ks + ["obs=" + obs.split("/")[0]]
    vs = ubootimpl.verdicts(line, obs)
    for i, (f, o) in enumerate(zip(_ops(line), obs.split())):
        ks.append("verdict=" + (vs[i] if i < len(vs) else "after-stop"))
        ks.append("op=" + f[0] + ("" if f[0] != "e" else ":get" if f[2] == "!" else ":set"))
        v = o.split("/")[0]
        ks.append("res=" + v.split(":")[0] + (":" + v.split(":")[1] if v.startswith("err") else ""))
        ss = _strings(f)
        wf = True
        for b in ss:
            if any(c < 32 or c == 127 for c in b):
                wf = False
                ks.append("str:control")
            if len(b) >= 500:
                ks.append("str:long")
            if b"'" in b:
                ks.append("str:squote")
            if b"\\" in b:
                ks.append("str:backslash")
            if any(c in b"$;&|#" for c in b):
                ks.append("str:hush-special")
            if any(c >= 0x80 for c in b):
                ks.append("str:nonascii")
            if not b:
                ks.append("str:empty")
        ks.append("domain=" + ("in" if wf else "out"))
        if f[0] != "e":
            ks.append("nargs=%d" % len(ss))
            out = unhx(f[2])
            ks.append("out=" + ("0" if not out else "<100" if len(out) < 100 else "<4096" if len(out) < 4096 else "big"))
            if out and not out.endswith(b"\n"):
                ks.append("out:no-final-newline")
            if prompt in out.replace(b"\n", b"\r\n"):
                ks.append("out:contains-prompt")
            elif _lookalike(out, prompt):
                ks.append("out:prompt-prefix")
            if ss and ss[0] == b"crc32":
                ks.append("crc32:" + ("override" if prompt == b"=> " else "plain"))
            ks.append("status=" + ("0" if f[3] == "0" else "1-255" if int(f[3]) < 256 else "big"))
        ks.append("pieces=" + ("<=4" if o.split("/")[3].count(",") < 4 else "<=40" if o.split("/")[3].count(",") < 40 else "many"))
    return ks


def nontrivial(line, obs):
    toks = line.split()
    prompt = unhx(toks[0])
    if "/" not in obs or obs.split("/")[0] in ("unsupported", "tokenizer-mismatch", "init-failed", "init-left-data"):
        return False
    for f in _ops(line):
        for b in _strings(f):
            if any(c in b"\\'$;&|#\" " for c in b) or any(c >= 0x80 for c in b):
                return True
        if f[0] != "e":
            if _lookalike(unhx(f[2]), prompt):
                return True
            if f[1].startswith(chars("crc32")) and prompt == b"=> ":
                return True
    return False


def _halve(h):
    b = unhx(h)
    outs = []
    if len(b) > 1:
        for nb in (b[: len(b) // 2], b[len(b) // 2:], b[1:], b[:-1]):
            try:
                nb.decode("utf-8")
            except UnicodeDecodeError:
                continue
            outs.append(hx(nb))
    return outs


def shrink_candidates(line):
    toks = line.split()
    head, ops = toks[:3], toks[3:]
    for i in range(len(ops)):
        if len(ops) > 1:
            yield " ".join(head + ops[:i] + ops[i + 1:])
    if head[2] != ".":
        yield " ".join([head[0], head[1], "."] + ops)
        cs = head[2].split(",")
        if len(cs) > 1:
            yield " ".join([head[0], head[1], ",".join(cs[: len(cs) // 2])] + ops)
    if head[1] != "4096":
        yield " ".join([head[0], "4096", head[2]] + ops)
    for i, o in enumerate(ops):
        f = o.split("/")

        def put(nf):
            return " ".join(head + ops[:i] + ["/".join(nf)] + ops[i + 1:])

        if f[0] == "e":
            for nv in _halve(f[1]):
                yield put([f[0], nv, f[2]])
            if f[2] != "!":
                for nv in _halve(f[2]):
                    yield put([f[0], f[1], nv])
        else:
            args = f[1].split(",")
            for j in range(1, len(args)):
                yield put([f[0], ",".join(args[:j] + args[j + 1:]), f[2], f[3]])
            for j, a in enumerate(args):
                for na in _halve(a):
                    yield put([f[0], ",".join(args[:j] + [na] + args[j + 1:]), f[2], f[3]])
            if f[2] != "-":
                yield put([f[0], f[1], "-", f[3]])
                for no in _halve(f[2]):
                    yield put([f[0], f[1], no, f[3]])
            if f[3] != "0":
                yield put([f[0], f[1], f[2], "0"])


ALPHA = ["a", " ", "'", "\\", "$", ";", "#", '"', "é"]


def exhaustive(params):
    """small scope, complete: (1) `echo <s>` for every s of length <= 2 over 9 representative symbols x 4 outputs x 3
    fragmentations x 2 prompts; (2) env set+get for every (name, value) of length <= 1 over the symbols (name non-empty);
    (3) the crc32 override with every output from a list, every 1..3-byte fragmentation pattern"""
    outs = [b"", b"hi\n", b"=> x\nU-Boot> \n", b"no newline =>"]
    frs = [[], [1] * 600, [2, 3] * 200]
    for prompt in (b"=> ", b"U-Boot> "):
        for n in range(0, 3):
            for tup in itertools.product(ALPHA, repeat=n):
                s = "".join(tup)
                for out in outs:
                    for fr in frs:
                        yield " ".join([hx(prompt), "4096", lst(map(str, fr)), f"x/{chars('echo')},{chars(s)}/{hx(out)}/0"])
    for var in ALPHA:
        for val in [""] + ALPHA:
            for fr in frs:
                yield " ".join([hx(b"=> "), "3", lst(map(str, fr)), f"e/{chars(var)}/{chars(val)}", f"e/{chars(var)}/!"])
    crc_outs = [b"crc32 for 0 ... 3 ==> 2144df1c\n", b"a\n\n", b"\n", b"=> \n", b"x\n=> y\n", b"a\r\n"]
    for out in crc_outs:
        for a, b, c in itertools.product([1, 2, 3], repeat=3):
            for st in (0, 1):
                for kind in ("x", "x0", "t"):
                    yield " ".join([hx(b"=> "), "4096", lst(map(str, [a, b, c] * 40)),
                                    f"{kind}/{chars('crc32')},{chars('0')},{chars('4')}/{hx(out)}/{st}"])


def explain(line, impl, model):
    return ("Spec.C19: each call must return exactly text(console output between the echoed command and the next prompt) and the "
            "status the console reported (exec0 raising iff non-zero), the console must have dispatched exactly the argument "
            "vector given (then `echo $?`), env(var, x) must return x; a black-listed byte must be refused before anything is sent")
PARAM_EXTRACTORS = ["ubootextract"]
