"""C05: death strings against every read method, occurrence placed at every offset relative to
piece and scan-window boundaries."""
import changen as g
from wire import hx, opt, lst
from chancommon import KIND, CASE_WALL, run_impl, shrink_candidates, classify_common  # noqa: F401

SPECS = ["C05"]
THEOREMS = ["C05.check_invariant", "C05.check_complete", "C05.check_sound", "C05.check_sound_lit", "C05.chk_invariant", "C05.chk_complete", "C05.chk_sound", "C05.windowSize_le", "C05.runOp_read", "C05.runOp_quiet", "C05.walk", "C05.c05_step", "C05.case_spec", "C05.case_spec_lit",
            "C05Look.occurs", "C05Look.one_piece_missed", "C05Look.one_piece_violates_spec", "C05Look.split_noticed",
            "C05Look.split_satisfies_spec", "C05Look.other_split_missed", "C05Look.not_PatOk"]
LEAN_MODULES = ["TbotVerif.Props.C05", "TbotVerif.Props.C05Look"]
QUICK_N, THOROUGH_N = 6000, 100000
QUICK_BUDGET, THOROUGH_BUDGET = 40, 900
RULE = ("1-3 death strings (literals of length 1-6, small regexes) registered at once / nested / added permanently; "
        "streams over {A,B,x} with occurrences planted at every offset relative to piece and window boundaries and 0..3*len "
        "bytes following in the same piece; every read method; reading continues after a death; non-trivial = an occurrence "
        "is present in the stream and not aligned with the start of a piece; distinct = distinct case lines")
TRUSTED = []
ASSUMPTIONS = ["death strings are non-empty; regex death strings come from the modelled subset and carry no anchors; "
               "the theorems (PatOk) cover assertion-free expressions — death strings with a look-ahead are generated, judged "
               "by the Spec and fall under the known finding KF-C05-lookaround-death-string"]

LITS = [b"A", b"AB", b"ABA", b"AAB", b"ABAB", b"BA", b"ABxAB", b"xAx", b"BBBBBB"]


def gen_ds(rng):
    k = rng.random()
    if k < 0.7:
        return "L" + hx(rng.choice(LITS))
    import regen
    if k < 0.85:
        # a bracketed variable-width regex (`A x{lo,hi} B`, `AB (x|BA){lo,hi} A`): its longest occurrences contain
        # no shorter one, so the scan window has to be sized for the MAXIMAL width
        lo = rng.randint(0, 2)
        hi = lo + rng.randint(1, 6)
        body = rng.choice([regen.Cls([(120, 120)]), regen.Cls([(65, 66)]),
                           regen.Alt(regen.Cls([(120, 120)]), regen.lit(b"BA"))])
        r = regen.Seq(regen.lit(rng.choice([b"A", b"AB"])), regen.Seq(regen.Rep(body, lo, hi), regen.lit(rng.choice([b"B", b"A", b"xA"]))))
        return "X" + r.wire()
    if k < 0.91:
        # a death string with a look-ahead (known finding KF-C05-lookaround-death-string: its reach is not counted in
        # the width that sizes the scan window)
        return "X" + regen.Seq(regen.lit(rng.choice([b"A", b"AB", b"BA"])), regen.La(regen.lit(rng.choice([b"x", b"xA", b"BBx"])))).wire()
    r = regen.gen(rng, b"ABx", depth=rng.randint(1, 2))
    if r.nullable():
        r = regen.Seq(regen.Cls([(65, 65)]), r)
    return "X" + r.wire()


def gen_case(rng, params):
    chunk = rng.choice([1, 2, 3, 5, 8, params["readChunkSize"], params["readChunkSize"]])
    n_ds = rng.choice([1, 1, 2, 3])
    dss = [gen_ds(rng) for _ in range(n_ds)]
    # stream: noise with planted occurrences of the literal death strings
    data = bytearray()
    for _ in range(rng.randint(1, 5)):
        data += g.rbytes(rng, rng.randint(0, 9), b"ABxx")
        if rng.random() < 0.6:
            d = rng.choice(dss)
            if d[0] == "L":
                data += bytes.fromhex(d[1:])
                data += g.rbytes(rng, rng.randint(0, 3 * (len(d) // 2)), b"xxB")
            else:
                import regen
                rx = regen.parse_wire(d[1:])
                occ = regen.sample(rx, rng)
                if isinstance(rx, regen.Seq) and isinstance(rx.b, regen.La):
                    occ += regen.sample(rx.b.r, rng) if rng.random() < 0.7 else b"x"
                data += occ
                data += g.rbytes(rng, rng.randint(0, 2 * len(occ)), b"xxB")
    data = bytes(data)
    pieces = g.cut(rng, data)
    ticks = g.schedule(rng, pieces, rng.choice(["zero", "zero", "rand"]))
    ops = []
    # one case in eight: a read_iter() iteration is started BEFORE anything is registered and goes on afterwards — a
    # death string registered between two steps of a running iteration is watched from then on
    running = rng.random() < 0.12
    if running:
        ops.append("ri:-:-:1")
    elif rng.random() < 0.3:
        ops.append(f"read:{rng.randint(1, 3)}:1")   # data seen before registration must not count
    opened = 0
    for i, d in enumerate(dss):
        if rng.random() < 0.2:
            ops.append(f"ads:{d}:{i}")
        else:
            ops.append(f"ds+:{d}:{i}"); opened += 1
        if rng.random() < 0.3:
            ops.append(f"read:{rng.randint(1, 4)}:1")
    if running:
        ops.append(f"ri:-:-:{rng.randint(1, 4)}")        # … the iteration started above goes on
    for _ in range(rng.randint(1, 6)):
        k = rng.random()
        t = opt(rng.choice([0, 1, 1024]))
        if k < 0.2:
            ops.append(f"read:{rng.choice([1, 2, 3, 5, 9])}:{t}")
        elif k < 0.3:
            ops.append(f"read:-:{t}")
        elif k < 0.45:
            ops.append(f"ri:{opt(rng.choice([None, 4, 9]))}:{t}:{opt(rng.choice([None, 1, 2]))}")
        elif k < 0.55:
            ops.append(f"rl:{hx(b'x')}:{t}")
        elif k < 0.7:
            ops.append(f"ex:{t}:L{hx(rng.choice([b'xx', b'BB', b'zz']))}")
        elif k < 0.85:
            ops.append(f"rup:L{hx(rng.choice([b'xx', b'zz']))}:{t}")
        else:
            ops.append(f"rut:{t}")
        if opened and rng.random() < 0.25:
            ops.append(rng.choice(["ds-", "ds-!"])); opened -= 1
    return g.case_line(chunk, params["sendSliceSize"], g.script_wire(ticks, pieces), [], ops)


def kf_lookaround_death(line, impl, model):
    """a death string with a look-around assertion is registered (its reach is not part of the width that sizes the
    scan window of `_check`); the model mirrors the unchanged code, so any OTHER misbehaviour on such a case shows as
    a disagreement between implementation and model and is still reported"""
    return impl == model and any(o.startswith(("ds+:X", "ads:X")) and "P" in o.split(":")[1] for o in line.split()[4:])


def classify(line, obs):
    ks = classify_common(line, obs)
    ks.append("deaths=%d" % sum(1 for o in obs.split()[1:] if "death" in o.split(";")[0]))
    ks.append("lookahead_ds=%d" % any(o.startswith(("ds+:X", "ads:X")) and "P" in o.split(":")[1] for o in line.split()[4:]))
    return ks


def nontrivial(line, obs):
    return any("death" in o.split(";")[0] for o in obs.split()[1:])


def exhaustive(params):
    """all streams of length <= 7 over {A,B,x}, all compositions, death string AB (+ ABA nested), read sizes"""
    import itertools
    for n in range(1, 8):
        for tup in itertools.product(b"ABx", repeat=n):
            data = bytes(tup)
            for mask in range(1 << (n - 1)):
                pieces, last = [], 0
                for i in range(1, n):
                    if mask >> (i - 1) & 1:
                        pieces.append(data[last:i]); last = i
                pieces.append(data[last:])
                script = ",".join(f"0@{hx(p)}" for p in pieces)
                yield f"{params['readChunkSize']} {params['sendSliceSize']} {script} . ds+:L4142:0 rut:0 rut:0"
                if n <= 6:
                    yield f"3 {params['sendSliceSize']} {script} . ds+:L414241:1 ds+:L4142:0 rut:0 rut:0 ds- rut:0"
