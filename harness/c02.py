"""C02 generator: one (or a few) read_until_prompt calls on a scripted stream."""
import changen as g
import regen
from wire import hx, opt


def gen_case(rng, params):
    chunk = rng.choice([1, 2, 3, 7, params["readChunkSize"], params["readChunkSize"]])
    slice_ = params["sendSliceSize"]
    pat = g.gen_pat(rng)
    lit = pat.value if pat.kind == "lit" else rng.choice(g.PROMPTS)
    n_cmds = rng.choice([1, 1, 2, 3])
    data = g.gen_stream(rng, lit, n_cmds)
    if pat.kind == "re" and rng.random() < 0.7:
        # make the regex likely to match somewhere: append a sample by brute force later
        pass
    pieces = g.cut(rng, data)
    ticks = g.schedule(rng, pieces)
    ops = []
    per_call = rng.random() < 0.4
    if pat.kind == "re":
        if per_call:
            ops += [f"rup:{pat.wire()}:{opt(g.timeout_choice(rng))}" for _ in range(n_cmds)]
        else:
            ops.append(f"wp+:{pat.wire()}")
            ops += [f"rup:-:{opt(g.timeout_choice(rng))}" for _ in range(n_cmds)]
            ops.append("wp-")
    else:
        if per_call:
            if rng.random() < 0.5:
                ops.append(f"prompt:{hx(rng.choice(g.PROMPTS))}")
            ops += [f"rup:{pat.wire()}:{opt(g.timeout_choice(rng))}" for _ in range(n_cmds)]
        elif rng.random() < 0.5:
            ops.append(f"prompt:{hx(pat.value)}")
            ops += [f"rup:-:{opt(g.timeout_choice(rng))}" for _ in range(n_cmds)]
        else:
            ops.append(f"wp+:{pat.wire()}")
            ops += [f"rup:-:{opt(g.timeout_choice(rng))}" for _ in range(n_cmds)]
            ops.append("wp-")
    return g.case_line(chunk, slice_, g.script_wire(ticks, pieces), [], ops)
