"""C02 generator: one (or a few) read_until_prompt calls on a scripted stream."""
import changen as g
import regen
from wire import hx, opt


def gen_case(rng, params):
    chunk = rng.choice([1, 2, 3, 7, params["readChunkSize"], params["readChunkSize"]])
    slice_ = params["sendSliceSize"]
    pat = g.gen_pat(rng)
    n_cmds = rng.choice([1, 1, 2, 3])
    if pat.kind == "lit":
        lit = pat.value
    elif rng.random() < 0.7:
        lit = regen.sample(pat.value, rng) or rng.choice(g.PROMPTS)     # some string the regex prompt matches
    else:
        lit = rng.choice(g.PROMPTS)
    flagged = pat.kind == "re" and rng.random() < 0.35
    if flagged:
        # the same regex is used case-insensitively and case-sensitively in ONE case (first flags drawn at random):
        # what is looked for must depend on the flags of the prompt in force, not on those of an earlier one
        first_icase = rng.random() < 0.5
        lit = bytes(regen._swapcase(c) if rng.random() < 0.5 else c for c in lit)
        n_cmds = max(n_cmds, 2)
    data = g.gen_stream(rng, lit, n_cmds)
    if chunk == params["readChunkSize"] and rng.random() < 0.08:
        # a read that is filled to the last byte and ends exactly with the prompt (or a byte before / after)
        marks = [m.end() for m in __import__("re").finditer(__import__("re").escape(lit), data)] if lit else []
        data, pieces = g.page_cut(rng, data, chunk, marks)
    else:
        pieces = g.cut(rng, data)
    ticks = g.schedule(rng, pieces)
    ops = []
    per_call = rng.random() < 0.4
    if flagged:
        for i in range(n_cmds):
            w = regen.Pat("re", pat.value, icase=first_icase == (i % 2 == 0)).wire()
            if rng.random() < 0.5:
                ops.append(f"rup:{w}:{opt(g.timeout_choice(rng))}")
            else:
                ops += [f"wp+:{w}", f"rup:-:{opt(g.timeout_choice(rng))}", "wp-"]
    elif pat.kind == "re":
        if per_call:
            ops += [f"rup:{pat.wire()}:{opt(g.timeout_choice(rng))}" for _ in range(n_cmds)]
        else:
            ops.append(f"wp+:{pat.wire()}")
            ops += [f"rup:-:{opt(g.timeout_choice(rng))}" for _ in range(n_cmds)]
            ops.append(rng.choice(["wp-", "wp-!"]))
            if rng.random() < 0.3:
                ops.append(f"rup:-:{opt(g.timeout_choice(rng))}")   # the previous prompt is back in force
    else:
        if per_call:
            if rng.random() < 0.5:
                ops.append(f"prompt:{hx(rng.choice(g.PROMPTS))}")
            ops += [f"rup:{pat.wire()}:{opt(g.timeout_choice(rng))}" for _ in range(n_cmds)]
        elif rng.random() < 0.5:
            ops.append(f"prompt:{hx(pat.value)}")
            ops += [f"rup:-:{opt(g.timeout_choice(rng))}" for _ in range(n_cmds)]
        else:
            ops.append(f"wp+:{pat.wire()}")
            ops += [f"rup:-:{opt(g.timeout_choice(rng))}" for _ in range(n_cmds)]
            ops.append("wp-")
    return g.case_line(chunk, slice_, g.script_wire(ticks, pieces), [], ops)


# ---- check-module interface -------------------------------------------------------------
from chancommon import KIND, CASE_WALL, run_impl, shrink_candidates, classify_common, model_request, spec_line  # noqa: E402

SPECS = ["C02"]
AUX = ["C02G"]   # prompts behind a look-behind assertion (\\b, ^ under MULTILINE, (?<=..), (?<!..)): real Channel vs GuardPrompt model
THEOREMS = ["C02.rupLoop_spec", "C02.readUntilPrompt_spec", "C02.rup_spec", "C02.case_spec", "ChanCase.keeps", "C02.rup_fragmentation", "C02.rup_fragmentation_gen", "C02.promptEnd_anchored_iff", "C02.tail_test_iff", "C02.tail_test_none", "C02.tail_test_offset", "C02.tail_test_wrong_with_lookbehind", "Re.M_sound", "Re.M_complete", "Re.L_maxWidth", "Re.search_sound", "Re.search_complete"]
LEAN_MODULES = ["TbotVerif.Props.ChanCase", "TbotVerif.Props.C02Extra", "TbotVerif.Props.C02Tail"]
QUICK_N, THOROUGH_N = 4000, 60000
QUICK_BUDGET, THOROUGH_BUDGET = 40, 600
RULE = ("random (prompt, stream, composition, schedule, chunk size, per-call/configured prompt) tuples; streams are "
        "built from prompt prefixes, full prompts mid-stream, CR/LF pairs and split UTF-8; a case is non-trivial when "
        "some read_until_prompt call received >= 2 transport pieces or ended by time-out after receiving data; "
        "distinct = distinct case lines")
TRUSTED = ["CPython `re` agrees with the Lean matcher `Re.M` on the generated regex subset (tested by the same cases)",
           "CPython bytes.decode('utf-8','replace') and str.replace agree with `decodeReplace`/`normNl` (tested)"]
ASSUMPTIONS = ["literal prompts are non-empty; regex prompts are configured through with_prompt/read_until_prompt "
               "(which anchor them) and come from the modelled subset"]


def classify(line, obs):
    ks = classify_common(line, obs)
    ks.append("icase=%d" % any(":I" in o for o in line.split()[4:]))
    ks.append("prompt=" + ("regex" if "X" in "".join(o for o in line.split()[4:] if o.startswith(("wp+", "rup"))) else "literal"))
    return ks


def nontrivial(line, obs):
    for o in obs.split()[1:]:
        f = o.split(";")
        if f[0].startswith(("t:", "e:timeout")) and f[3].count(",") >= 1:
            return True
    return False


def exhaustive(params):
    """every stream of length <= 7 over {p1, p2, CR, LF, x} with prompt p1p2, all compositions,
    chunk sizes 1, 2 and the default"""
    import itertools
    from wire import hx
    alpha = [b"a", b"b", b"\r", b"\n", b"x"]
    prompt = b"ab"
    for n in range(1, 8):
        for tup in itertools.product(alpha, repeat=n):
            data = b"".join(tup)
            if n > 5 and not data.endswith(prompt):
                continue
            for mask in range(1 << (n - 1)):
                if n > 5 and mask % 3:
                    continue
                pieces, last = [], 0
                for i in range(1, n):
                    if mask >> (i - 1) & 1:
                        pieces.append(data[last:i]); last = i
                pieces.append(data[last:])
                script = ",".join(f"0@{hx(p)}" for p in pieces)
                for chunk in (1, 2, params["readChunkSize"]):
                    yield f"{chunk} {params['sendSliceSize']} {script} . prompt:{hx(prompt)} rup:-:0"
