"""Run a channel op-sequence case (wire form) on the REAL tbot Channel and produce the same
observation line the Lean model prints (`Wire.obs`)."""
import contextlib
import vclock
vclock.install()
import tbot  # noqa: E402
import tbot.error  # noqa: E402
from tbot.machine.channel import channel as tch  # noqa: E402
import mockio  # noqa: E402
import regen  # noqa: E402
from wire import hx, unhx, chars, opt, lst  # noqa: E402

tbot.log.VERBOSITY = -1  # nothing printed


class RecStream:
    def __init__(self, sid, log):
        self.sid = sid
        self.log = log

    def write(self, s):
        if s != "":
            self.log.append((self.sid, s))
        return len(s)

    def flush(self):
        pass


_death_classes = {}


def death_class(i):
    if i not in _death_classes:
        _death_classes[i] = type(f"Death{i}", (tch.DeathStringException,), {"idx": i})
    return _death_classes[i]


def optn(s):
    return None if s == "-" else int(s)


def secs(s):
    return None if s == "-" else int(s) * vclock.TICK


def exc_tag(e):
    if isinstance(e, tch.DeathStringException):
        m = e.match
        if not isinstance(m, (bytes, bytearray)):
            m = m[0]
        return f"death/{getattr(type(e), 'idx', 999)}/{hx(bytes(m))}"
    if isinstance(e, TimeoutError):
        return "timeout"
    if isinstance(e, mockio.Hang):
        return "hang"
    if isinstance(e, tbot.error.IllegalDataException):
        return "illegal"
    if isinstance(e, AssertionError):
        return "assert"
    return "other/" + type(e).__name__


def parse_script(s):
    out = []
    if s != ".":
        for p in s.split(","):
            t, h = p.split("@")
            out.append((int(t), unhx(h)))
    return out


def run_case(line: str) -> str:
    with vclock.CLOCK:
        return _run_case(line)


def _run_case(line: str) -> str:
    """line = '<chunk> <slice> <script> <accept> <op>*' → observation line"""
    toks = line.split()
    chunk, slice_, script, accept = int(toks[0]), int(toks[1]), parse_script(toks[2]), toks[3]
    ops = toks[4:]
    accept = [] if accept == "." else [int(x) for x in accept.split(",")]
    vclock.CLOCK.reset(0)
    io = mockio.ScriptIO(script, accept)
    ch = tch.Channel(io)
    # READ_CHUNK_SIZE is a class attribute; set per instance is impossible with __slots__, so
    # subclass on the fly.  The send slice size is a literal in the code; cases use the
    # extracted value.
    if chunk != tch.Channel.READ_CHUNK_SIZE:
        ch.__class__ = type("ChannelChunk", (tch.Channel,), {"READ_CHUNK_SIZE": chunk, "__slots__": ()})
    fwd = []
    frames = {"p": [], "s": [], "d": []}
    out = []
    with contextlib.ExitStack() as outer:
        for op in ops:
            f = op.split(":")
            t0 = vclock.CLOCK.ticks
            nr, nw, nf = len(io.reads), len(io.writes), len(fwd)
            try:
                res = do_op(ch, f, fwd, frames)
            except (Exception, mockio.Hang) as e:
                res = "e:" + exc_tag(e)
            t1 = vclock.CLOCK.ticks
            rd = lst(f"{n}/{opt(tt)}/{a}/{b}/" + ("!" if d is None else hx(d))
                     for (n, tt, a, b, d) in io.reads[nr:])
            wr = lst(f"{hx(b)}/{k}" for (b, k) in io.writes[nw:])
            fw = lst(f"{i}/{chars(s)}" for (i, s) in fwd[nf:])
            out.append(";".join([res, str(t0), str(t1), rd, wr, fw]))
        # close open frames (nothing is observed afterwards)
        for kind in ("d", "s", "p"):
            while frames[kind]:
                try:
                    frames[kind].pop().close()
                except Exception:
                    pass
    return " ".join([hx(io.remaining())] + out)


class _Boom(Exception):
    pass


class _BaseBoom(BaseException):
    pass


_EXIT_EXCS = [_Boom, KeyboardInterrupt, _BaseBoom, GeneratorExit, SystemExit]
_exit_rot = [0]


def leave(frames, kind, exceptional):
    """leave the innermost `with` block of that kind, normally or by an exception (the kinds
    of exception rotate: Exception and BaseException subclasses)"""
    st = frames[kind].pop()
    if not exceptional:
        st.close()
        return
    exc_t = _EXIT_EXCS[_exit_rot[0] % len(_EXIT_EXCS)]
    _exit_rot[0] += 1
    exc = exc_t("body")
    try:
        if not st.__exit__(exc_t, exc, None):
            pass
    except BaseException as e:  # the exception travels on, as it would out of the `with` block
        if e is not exc:
            raise


def enter(frames, kind, cm):
    st = contextlib.ExitStack()
    st.enter_context(cm)
    frames[kind].append(st)


def do_op(ch, f, fwd, frames):
    k = f[0]
    if k == "prompt":
        ch.prompt = None if f[1] == "none" else unhx(f[1])
        return "ok"
    if k == "wp+":
        enter(frames, "p", ch.with_prompt(regen.pat_of_wire(f[1]).api()))
        return "ok"
    if k in ("wp-", "wp-!"):
        if not frames["p"]:
            return "badop"
        leave(frames, "p", k.endswith("!"))
        return "ok"
    if k == "bl":
        ch._write_blacklist = list(unhx(f[1]))
        return "ok"
    if k == "slow":
        ch.slow_send_delay = secs(f[1])
        ch.slow_send_chunksize = int(f[2])
        return "ok"
    if k == "read":
        n = optn(f[1])
        return "b:" + hx(bytes(ch.read(-1 if n is None else n, timeout=secs(f[2]))))
    if k == "ri":
        m, t, kk = optn(f[1]), secs(f[2]), optn(f[3])
        chunks = []
        err = "-"
        kwargs = {} if m is None else {"max": m}
        # an iteration without byte limit and without timeout carries no state of its own between two steps: such
        # `ri` ops of one case go on with ONE generator (kept in `frames`), so that whatever other ops do in between —
        # registering a death string, changing the prompt — happens between two steps of a running iteration
        keep = m is None and t is None and kk is not None
        it = frames.get("it") if keep else None
        if it is None:
            it = ch.read_iter(timeout=t, **kwargs)
        alive = True
        try:
            while kk is None or len(chunks) < kk:
                try:
                    chunks.append(bytes(next(it)))
                except StopIteration:
                    alive = False
                    break
        except (Exception, mockio.Hang) as e:
            err = exc_tag(e)
            alive = False
        finally:
            if keep and alive:
                frames["it"] = it
            else:
                frames.pop("it", None)
                it.close()
        return "c:" + lst(hx(c) for c in chunks) + ":" + err
    if k == "rl":
        return "t:" + chars(ch.readline(timeout=secs(f[2]), lineending=unhx(f[1])))
    if k == "ex":
        pats = [] if f[2] == "." else [regen.pat_of_wire(p) for p in f[2].split(",")]
        r = ch.expect([p.api() for p in pats], timeout=secs(f[1]))
        m = r.match
        if isinstance(m, str):
            mb = pats[r.i].raw()
        else:
            mb = bytes(m[0])
        return f"x:{r.i}:{chars(r.before)}:{hx(mb)}:{chars(r.after)}"
    if k == "rup":
        p = None if f[1] == "-" else regen.pat_of_wire(f[1]).api()
        return "t:" + chars(ch.read_until_prompt(prompt=p, timeout=secs(f[2])))
    if k == "rut":
        return "t:" + chars(ch.read_until_timeout(secs(f[1])))
    if k == "wr":
        ch.write(unhx(f[1]), _ignore_blacklist=(f[2] == "1"))
        return "ok"
    if k == "send":
        payload = unhx(f[1])
        if len(payload) % 2 == 0:
            # every other payload is handed over as `str` when it is text (send() encodes it as UTF-8)
            try:
                payload = payload.decode("utf-8")
            except UnicodeDecodeError:
                pass
        ch.send(payload, read_back=(f[2] == "1"), timeout=secs(f[3]), _ignore_blacklist=(f[4] == "1"))
        return "ok"
    if k == "sl":
        ch.sendline(unhx(f[1]), read_back=(f[2] == "1"), timeout=secs(f[3]))
        return "ok"
    if k == "sc":
        ch.sendcontrol(chr(64 + int(f[1])))
        return "ok"
    if k == "st+":
        enter(frames, "s", ch.with_stream(RecStream(int(f[1]), fwd), show_prompt=(f[2] == "1")))
        frames["s"][-1].sid = int(f[1])
        return "ok"
    if k.startswith("st-@"):
        # leave the `with_stream` block of stream <k> although it need not be the innermost one (the context
        # managers are kept in a stack; the most recent one of that stream is taken out and closed)
        sid = int(k[4:])
        for i in range(len(frames["s"]) - 1, -1, -1):
            if getattr(frames["s"][i], "sid", None) == sid:
                frames["s"].pop(i).close()
                return "ok"
        return "badop"
    if k in ("st-", "st-!"):
        if not frames["s"]:
            return "badop"
        leave(frames, "s", k.endswith("!"))
        return "ok"
    if k == "ds+":
        enter(frames, "d", ch.with_death_string(regen.pat_of_wire(f[1]).api(), death_class(int(f[2]))))
        return "ok"
    if k in ("ds-", "ds-!"):
        if not frames["d"]:
            return "badop"
        leave(frames, "d", k.endswith("!"))
        return "ok"
    if k == "ads":
        ch.add_death_string(regen.pat_of_wire(f[1]).api(), death_class(int(f[2])))
        return "ok"
    if k == "sleep":
        vclock.CLOCK.ticks += int(f[1])
        return "ok"
    raise ValueError(f"unknown op {f!r}")



import verbosity  # noqa: E402
run_case = verbosity.wrap(run_case)   # one case in eight runs at Verbosity.CHANNEL

if __name__ == "__main__":
    import sys
    for line in sys.stdin:
        print(run_case(line.strip()))
