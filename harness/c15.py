"""C15 — context requests: sharing, exclusive, reset and reset_on_error act as documented.
Three-way comparison: the real tbot.Context (ctximpl.py), the implementation model (`ctx` driver command) and the
documentation-level reference model RefCtx (`Spec.C15` = the implementation's log equals RefCtx's log)."""
import ctxgen
import ctximpl

KIND = "ctx"
SPECS = ["C15"]
THEOREMS = ["C15.refinement", "C15.spec", "C15.share", "C15.exclusive_refuses", "C15.keepalive_exit",
            "C15.exclusive_end", "C15.exclusive_end_ops", "C15.roe_tears_down", "C15.exit_exception", "C15.roe_off",
            "C15.reset_fresh", "C15.reset_yields_fresh", "C15.teardown_clears"]
LEAN_MODULES = ["TbotVerif.Props.C15"]
QUICK_N, THOROUGH_N = 15000, 120000
QUICK_BUDGET, THOROUGH_BUDGET = 40, 600
CASE_WALL = 20
RULE = ("same generator as C14 (ctxgen.py) with 60% of the cases fault-free; a case is non-trivial when a request "
        "with a non-default flag (reset, exclusive, reset_on_error) or under keep-alive is made and at least two "
        "requests yield, or a dependency request is made; distinct = distinct case lines")
TRUSTED = ["harness/ctximpl.py (see C14)", "RefCtx (lean/TbotVerif/Model/CtxRef.lean) is a reading of Documentation/context.rst "
           "and the Context docstrings"]
ASSUMPTIONS = ["see C14"]


def gen_case(rng, params):
    return ctxgen.gen_case(rng, params, fault_free=0.6)


def run_impl(line):
    return ctximpl.run_case(line)


classify = ctxgen.classify
shrink_candidates = ctxgen.shrink_candidates


def nontrivial(line, obs):
    toks = line.split()
    flagged = toks[0] == "1" or toks[1] == "1" or any(
        t.startswith("R:") and (t.split(":")[2] == "1" or t.split(":")[3] == "1" or t.split(":")[4] != "-") for t in toks[5:])
    ys = sum(1 for e in obs.split() if e.startswith("y:"))
    return " q:" in " " + obs or (flagged and ys >= 2)


def exhaustive(params):
    return ctxgen.exhaustive(params)


def explain(line, impl, model):
    return "Spec.C15: canonical log of the implementation == log of RefCtx; impl==model: %s" % (impl == model)
