"""Parameters of the Log cluster (C17), observed on the tree under test (import, call, look):
the logparser read size, the colour wrappers of termcolor2/`tbot.log.c`, and the nesting glyphs
that `EventIO._prefix` / the constructor use with and without unicode."""
import io
import os
import sys


def _cps(s):
    return [ord(ch) for ch in s]


def load_logparser():
    """`generators/logparser.py` is a script directory, not a package: load it by path from
    the tree that provides `tbot`."""
    import importlib.util
    import tbot
    root = os.path.dirname(os.path.dirname(os.path.abspath(tbot.__file__)))
    path = os.path.join(root, "generators", "logparser.py")
    spec = importlib.util.spec_from_file_location("tbot_verif_logparser", path)
    mod = importlib.util.module_from_spec(spec)
    spec.loader.exec_module(mod)
    return mod


class Capture:
    """stand-in for sys.stdout: collects text, has `.encoding`"""
    encoding = "utf-8"

    def __init__(self):
        self.parts = []
        self.flushes = 0

    def write(self, s):
        self.parts.append(s)
        return len(s)

    def flush(self):
        self.flushes += 1

    def isatty(self):
        return False

    def take(self):
        s = "".join(self.parts)
        self.parts = []
        return s


def extract(p):
    import tbot.log as L
    lp = load_logparser()
    p["logReadSize"] = int(lp.READ_SIZE)
    saved = (L.IS_COLOR, L.IS_UNICODE, L.NESTING, L.VERBOSITY, L.LOGFILE, sys.stdout, os.environ.get("FORCE_COLOR"))
    cap = Capture()
    try:
        os.environ["FORCE_COLOR"] = "1"
        L.IS_COLOR = True
        s = str(L.c("X").dark)
        i = s.index("X")
        p["logDarkPre"], p["logDarkPost"] = _cps(s[:i]), _cps(s[i + 1:])
        p["logColorEmpty"] = _cps(str(L.c("")))
        L.IS_COLOR = False
        L.LOGFILE = None
        sys.stdout = cap
        for uni, tag in ((True, "U"), (False, "A")):
            L.IS_UNICODE = uni
            L.VERBOSITY = L.Verbosity.QUIET
            L.NESTING = 0
            ev = L.EventIO(["x"], "M", verbosity=L.Verbosity.QUIET)
            hdr = cap.take()
            assert hdr.endswith("M\n")
            p["logFirst" + tag] = _cps(hdr[:-2])
            after = str(ev._prefix())
            L.NESTING = 1
            both = str(ev._prefix())
            assert both.endswith(after)
            p["logAfter" + tag] = _cps(after)
            p["logIndent" + tag] = _cps(both[: len(both) - len(after)])
            L.VERBOSITY = -1
            ev.close()
    finally:
        L.IS_COLOR, L.IS_UNICODE, L.NESTING, L.VERBOSITY, L.LOGFILE, sys.stdout = saved[:6]
        if saved[6] is None:
            os.environ.pop("FORCE_COLOR", None)
        else:
            os.environ["FORCE_COLOR"] = saved[6]
