"""Scripted transport: the ChannelIO contract of lean/TbotVerif/Model/Channel.lean (`ioRead`,
`ioWrite`) implemented against the virtual clock."""
import vclock
import verbosity
from tbot.machine.channel import channel as tch


class Hang(BaseException):
    """the transport would block for ever (no data scripted, no timeout given)"""


class ScriptIO(tch.ChannelIO):
    def __init__(self, script, accept=()):
        # script: list of (tick, bytes), non-empty payloads
        self.script = [(t, bytes(d)) for t, d in script]
        self.accept = list(accept)
        self.reads = []     # (n, timeout_ticks|None, t0, t1, data|None)
        self.writes = []    # (offered, accepted)
        self._closed = False
        self.close_calls = 0

    # -- ChannelIO interface
    def write(self, buf: bytes) -> int:
        buf = bytes(buf)
        if self.accept:
            a = self.accept.pop(0)
            k = max(1, min(len(buf), a))
        else:
            k = len(buf)
        self.writes.append((buf, k))
        verbosity.through_debug_log(self, buf, True)
        return k

    def read(self, n: int, timeout=None) -> bytes:
        clk = vclock.CLOCK
        t0 = clk.ticks
        tt = None if timeout is None else vclock.to_ticks(timeout)

        def fail(t1, exc):
            clk.ticks = t1
            self.reads.append((n, tt, t0, t1, None))
            raise exc

        def deliver(t1):
            clk.ticks = t1
            tick, data = self.script[0]
            if len(data) <= n:
                self.script.pop(0)
                d = data
            else:
                d = data[:n]
                self.script[0] = (tick, data[n:])
            self.reads.append((n, tt, t0, t1, d))
            return verbosity.through_debug_log(self, d)

        if not self.script:
            if tt is None:
                fail(t0, Hang())
            fail(t0 + tt, TimeoutError())
        tick = self.script[0][0]
        if tick <= t0:
            return deliver(t0)
        if tt is None:
            return deliver(tick)
        if tick <= t0 + tt:
            return deliver(tick)
        fail(t0 + tt, TimeoutError())

    def close(self) -> None:
        self.close_calls += 1
        self._closed = True

    def fileno(self) -> int:
        return 99

    @property
    def closed(self) -> bool:
        return self._closed

    def update_pty(self, columns: int, lines: int) -> None:
        pass

    def remaining(self) -> bytes:
        return b"".join(d for _, d in self.script)
