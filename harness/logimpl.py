"""Run a C17 case (wire form, see lean/TbotVerif/Driver/Log.lean) on the REAL `tbot.log.EventIO`
and the REAL `generators/logparser.logfile`, and print the observation in the syntax of
`Log.Wire.obs`.  Nothing in tbot is hooked: `sys.stdout` is replaced by a capture object,
module globals (`VERBOSITY`, `NESTING`, `IS_UNICODE`, `IS_COLOR`, `LOGFILE`, `READ_SIZE`) are
set like a caller would set them, and the parser's `open` / `json` names are shadowed in the
parser module's namespace by instrumented stand-ins that record the reads and decode attempts."""
import vclock
vclock.install()
import contextlib  # noqa: E402
import io  # noqa: E402
import json, zlib  # noqa: E402
import os  # noqa: E402
import random  # noqa: E402
import sys  # noqa: E402
import tempfile  # noqa: E402
import time  # noqa: E402
import types  # noqa: E402

import tbot  # noqa: E402,F401
import tbot.log as L  # noqa: E402
from logextract import Capture, load_logparser  # noqa: E402

L.VERBOSITY = -1
LP = load_logparser()
_TMP = tempfile.mkdtemp(prefix="c17-", dir="/dev/shm" if os.path.isdir("/dev/shm") else None)
BAD_ID = 999999


# ---- wire helpers -----------------------------------------------------------------------
def hx(s: str) -> str:
    return s.encode("utf-8").hex() if s else "-"


def unhx(h: str) -> str:
    return "" if h == "-" else bytes.fromhex(h).decode("utf-8")


def payload(tok: str) -> str:
    if tok == "-":
        return ""
    out = []
    for ch in tok.split("+"):
        if "*" in ch:
            h, n = ch.split("*")
            out.append(unhx(h) * int(n))
        else:
            out.append(unhx(ch))
    return "".join(out)


def opt_str(tok: str):
    return None if tok == "-" else "" if tok == "_" else payload(tok)


def lst(tok: str, sep: str):
    return [] if tok == "." else tok.split(sep)


def sep_by(sep, items):
    items = list(items)
    return sep.join(items) if items else "."


class Globals:
    """set / restore the module globals of tbot.log a case touches"""
    NAMES = ("VERBOSITY", "NESTING", "IS_UNICODE", "IS_COLOR", "LOGFILE", "START_TIME")

    def __enter__(self):
        self.saved = {n: getattr(L, n) for n in self.NAMES}
        self.stdout = sys.stdout
        self.force = os.environ.get("FORCE_COLOR")
        return self

    def __exit__(self, *a):
        for n, v in self.saved.items():
            setattr(L, n, v)
        sys.stdout = self.stdout
        if self.force is None:
            os.environ.pop("FORCE_COLOR", None)
        else:
            os.environ["FORCE_COLOR"] = self.force


def strict_docs(text):
    """split a log file into documents (reference splitter, independent of logparser): each
    one decodes; documents are separated by white space only"""
    dec = json.JSONDecoder()
    pos, out = 0, []
    while pos < len(text):
        if text[pos].isspace():
            pos += 1
            continue
        obj, end = dec.raw_decode(text, pos)
        out.append((obj, text[pos:end], pos))
        pos = end
    return out


def doc_wire(obj) -> str:
    if not (isinstance(obj, dict) and list(obj) == ["type", "time", "data"]):
        return "bad-keys"
    if not (isinstance(obj["time"], float) and obj["time"] >= 0.0):
        return "bad-time"
    ty, data = obj["type"], obj["data"]
    if not (isinstance(ty, list) and all(isinstance(t, str) for t in ty)):
        return "bad-type"
    if not (isinstance(data, dict) and all(isinstance(v, str) for v in data.values())):
        return "bad-data"
    return sep_by(";", (hx(t) for t in ty)) + "/" + sep_by(";", (hx(k) + ":" + hx(v) for k, v in data.items()))


# ---- ev: one event, a sequence of calls ---------------------------------------------------
def run_ev(toks) -> str:
    gv, nest, uni, color, lf, ty, kw, v0, nf, msg, pfx1, v1 = toks[:12]
    ops = toks[12:]
    cap = Capture()
    logf = io.StringIO() if lf == "1" else None
    with Globals(), vclock.CLOCK:
        vclock.CLOCK.reset()
        if color == "1":
            os.environ["FORCE_COLOR"] = "1"
        else:
            os.environ.pop("FORCE_COLOR", None)
        # the verbosity / nesting of the case are put in force directly, or through the documented context manager
        # `with_verbosity(v, nesting=n, only_decrease=…)` entered from other settings — chosen by the case line
        want_v, want_n = int(gv), (-1 if nest == "-" else int(nest))
        how = zlib.crc32((" ".join(toks)).encode()) % 4
        L.VERBOSITY, L.NESTING = want_v, want_n
        scope = contextlib.ExitStack()
        if how == 1:        # any verbosity is accepted
            L.VERBOSITY, L.NESTING = (want_v + 2) % 5, want_n + 3
            scope.enter_context(L.with_verbosity(L.Verbosity(want_v), nesting=want_n))
        elif how == 2 and want_v < 4:      # a decrease, accepted
            L.VERBOSITY, L.NESTING = 4, want_n + 1
            scope.enter_context(L.with_verbosity(L.Verbosity(want_v), nesting=want_n, only_decrease=True))
        elif how == 3:      # not a decrease: the verbosity request is ignored, the nesting is still applied
            L.VERBOSITY, L.NESTING = want_v, want_n + 2
            scope.enter_context(L.with_verbosity(L.Verbosity(min(4, want_v + 1)), nesting=want_n, only_decrease=True))
        L.IS_UNICODE = uni == "1"
        L.IS_COLOR = color == "1"
        L.LOGFILE = logf
        L.START_TIME = time.monotonic()
        sys.stdout = cap
        kwargs = {}
        for item in lst(kw, ","):
            k, v = item.split("/")
            kwargs[unhx(k)] = unhx(v)
        ev = L.EventIO([unhx(t) for t in lst(ty, ",")], payload(msg), verbosity=int(v0),
                       nest_first=opt_str(nf), **kwargs)
        try:
            hdr = cap.take()
            p1 = opt_str(pfx1)
            if p1 is not None:
                ev.prefix = p1
            ev.verbosity = int(v1)
            stored = None
            steps = []
            for op in ops:
                f = op.split(":")
                was_open = not ev.closed
                if was_open and f[0] == "close":
                    stored = ev.getvalue()
                try:
                    if f[0] == "w":
                        tag = "w:%d" % ev.write(payload(f[1]))
                    elif f[0] == "wl":
                        tag = "w:%d" % ev.writeln(payload(f[1]))
                    elif f[0] == "sd":
                        ev.data[unhx(f[1])] = ev.getvalue()
                        tag = "u"
                    elif f[0] == "close":
                        ev.close()
                        tag = "u"
                    else:
                        raise KeyError(op)
                except ValueError:
                    tag = "e"
                steps.append(tag + ":" + hx(cap.take()))
            if not ev.closed:
                stored = ev.getvalue()
            text = logf.getvalue() if logf is not None else ""
        finally:
            # an event that is still open is closed silently (EventIO.__del__ would do it later)
            scope.close()
            L.VERBOSITY = -1
            L.LOGFILE = None
            if not ev.closed:
                ev.close()
    try:
        docs = sep_by(",", (doc_wire(o) for o, _, _ in strict_docs(text)))
    except ValueError as e:
        docs = "bad-file/" + type(e).__name__
    return " ".join([hx(hdr), hx(stored), docs] + steps)


# ---- pf: several events written by the real writer, parsed back by the real parser --------
ALPHABETS = {
    "a": "abcxyz019 _-",
    "q": "\"\\{}[]:,'/\"\\",
    "c": "\x00\x01\x07\x08\t\n\x0b\x0c\r\x1b\x1f\x7f",
    "w": " \t\n\r\x0b\x0c\x1c\x1d\x1e\x1f\x85\xa0\u2028\u2029\u3000\u1680",
    "u": "\xe9\xfc\xdf\u20ac\u4e2d\u6587\ufeff\ufffd\u0416\ud7ff\ue000",
    "s": "\U0001f600\U00010000\U0010ffff\U0001f4a9",
    "j": None,    # JSON-looking text
    "e": None,    # the terminal-control sequences of EventIO.write
}
JSONISH = ['{"type": ["t", "1"], "time": 0.0, "data": {"p": ""}}\n', '}\n{', '"}\n}\n', '\\"', '\\u00', '\\ud83d', '{"a": [1, 2.5e3, null, true]}',
           '}\n', '\n{\n  "type": [\n', '"data": {', '\\\\"}', ']]}}', '\n\n', '  }\n}\n{']
ESCAPES = ["\x1b[H", "\x1b[999;999H", "\x1b[6n", "\x1b[2J", "\x1b[r", "\x1b[u", "\x1b7", "\r\n", "\n\r", "\x1b", "[H"]
MIX = "aqcwusje"


def esc_len(ch: str) -> int:
    """number of characters `json.dumps` (ensure_ascii) needs for one payload character"""
    return len(json.dumps(ch)) - 2


def pieces(flavour, rng, k):
    out = []
    for _ in range(k):
        fl = rng.choice(MIX) if flavour == "m" else flavour
        if fl == "j":
            out.extend(rng.choice(JSONISH))
        elif fl == "e":
            out.extend(rng.choice(ESCAPES))
        else:
            out.append(rng.choice(ALPHABETS.get(fl) or ALPHABETS["a"]))
    return out


_BASE = {}


def base_len(ident: int) -> int:
    """length of the document the REAL writer produces for event `ident` with an empty payload
    (measured, so that a change of the JSON layout is a parameter, not a failure)"""
    key = len(str(ident))
    if key not in _BASE:
        text, _ = write_file([(ident, "")], None)
        _BASE[key] = len(strict_docs(text)[0][1])
    return _BASE[key]


def build_payload(ident, target, flavour, seed):
    """deterministic payload whose document is exactly `target` characters long: flavoured
    head and tail, padded in the middle with `x`"""
    room = target - base_len(ident)
    if room < 0:
        raise ValueError("target length below the size of an empty document")
    rng = random.Random(f"{flavour}/{seed}/{target}")
    head = pieces(flavour, rng, rng.choice([0, 1, 3, 8, 20]))
    tail = pieces(flavour, rng, rng.choice([1, 2, 3, 8, 20]))
    if rng.random() < 0.15:        # no padding at all: flavoured text throughout
        tail = tail + pieces(flavour, rng, room)
    # trim to fit (head from its end, then tail from its start); linear time
    used = 0
    keep_head = []
    for c in head:
        if used + esc_len(c) > room:
            break
        keep_head.append(c)
        used += esc_len(c)
    keep_tail = []
    for c in reversed(tail):
        if used + esc_len(c) > room:
            break
        keep_tail.append(c)
        used += esc_len(c)
    head, tail = keep_head, keep_tail[::-1]
    pad = room - used
    return "".join(head) + "x" * pad + "".join(tail)


FILE_ENCODINGS = ("utf-8", "ascii", "latin-1", "cp1252")


def write_file(events, path, encoding="utf-8", unicode_terminal=None):
    """create the events in ascending id order, close them in the listed order, with the real
    writer, into a file opened with `encoding` (tbot's CLIs open the log file with the locale's
    encoding); returns (file text, list of exceptions raised by close())"""
    cap = Capture()
    problems = []
    with Globals(), vclock.CLOCK:
        vclock.CLOCK.reset()
        sys.stdout = cap
        L.VERBOSITY = -1
        L.NESTING = 0
        if unicode_terminal is not None:
            L.IS_UNICODE = unicode_terminal
        L.START_TIME = time.monotonic()
        L.LOGFILE = io.StringIO() if path is None else open(path, "w", encoding=encoding)
        try:
            evs = {}
            for ident, pl in sorted(events):
                evs[ident] = L.EventIO(["t", str(ident)], "m", verbosity=L.Verbosity.INFO, p=pl)
            for ident, _ in events:
                try:
                    evs[ident].close()
                except Exception as e:   # the event is lost; the others are still closed and the file is read back
                    problems.append(type(e).__name__)
            text = L.LOGFILE.getvalue() if path is None else None
        finally:
            if path is not None:
                L.LOGFILE.close()
            L.LOGFILE = None
    if path is not None:
        with open(path, "r", encoding=encoding) as f:
            text = f.read()
    cap.take()
    return text, problems


class _TraceFile:
    def __init__(self, f, trace):
        self.f, self.trace = f, trace

    def read(self, n=-1):
        s = self.f.read(n)
        self.trace.append("r%d" % len(s))
        return s

    def __enter__(self):
        return self

    def __exit__(self, *a):
        self.f.close()

    def __getattr__(self, name):
        return getattr(self.f, name)


def check_decoder_spec(text, n, rng):
    """the hypotheses of `Log.DecoderSpec`, on the documents of this file, against CPython's json"""
    dec = json.JSONDecoder()
    try:
        dec.raw_decode("")
        return "nil"
    except json.JSONDecodeError:
        pass
    try:
        docs = strict_docs(text)
    except ValueError:
        return "file"
    for want, doc, pos in docs:
        ln = len(doc)
        rest = text[pos + ln:]
        if doc[:1].isspace() or doc.lstrip() != doc:
            return "head"
        for tail in ("", rest[:1], rest[:rng.randrange(0, 40)], rest):
            try:
                if dec.raw_decode(doc + tail) != (want, ln):
                    return "complete"
            except json.JSONDecodeError:
                return "complete"
        ks = {0, 1, 2, ln - 1, ln - 2, ln - 3, ln // 2}
        for k in range(-(-pos // max(n, 1)) * max(n, 1), pos + ln, max(n, 1)):
            if len(ks) >= 40:
                break
            ks.add(k - pos)
        ks |= {rng.randrange(0, ln) for _ in range(6)}
        for k in ks:
            if 0 <= k < ln:
                try:
                    dec.raw_decode(doc[:k])
                    return "prefix"
                except json.JSONDecodeError:
                    pass
    return None


def run_pf(toks, line) -> str:
    n = int(toks[0])
    specs = []
    for t in toks[1:]:
        f = t.split("/")
        specs.append((int(f[0]), int(f[1]), f[2] if len(f) > 2 else "a", f[3] if len(f) > 3 else "0"))
    try:
        events = [(i, build_payload(i, ln, fl, sd)) for i, ln, fl, sd in specs]
    except ValueError:
        return "bad-case/document-length-below-minimum"
    if len({i for i, _ in events}) != len(events):
        return "bad-case/duplicate-event-id"
    path = os.path.join(_TMP, "log.json")
    # two settings the model does not know (what is written must not depend on them): the encoding the log file was
    # opened with and whether the terminal is a unicode one — derived from the case line
    h = zlib.crc32(line.encode())
    enc = FILE_ENCODINGS[h % len(FILE_ENCODINGS)]
    text, problems = write_file(events, path, enc, bool((h // 8) % 2))
    if not problems:
        bad = check_decoder_spec(text, n, random.Random(line))
        if bad is not None:
            return "assume-failed/" + bad
    by_id = dict(events)
    trace = []

    class TDecoder(json.JSONDecoder):
        def raw_decode(self, s, idx=0):
            try:
                obj, end = super().raw_decode(s, idx)
            except json.JSONDecodeError:
                trace.append("f%d" % len(s))
                raise
            trace.append("k%d/%d" % (len(s), end))
            return obj, end

    saved = {k: LP.__dict__.get(k, None) for k in ("open", "json", "READ_SIZE")}
    LP.open = lambda name, mode="r": _TraceFile(open(name, mode, encoding=enc), trace)
    LP.json = types.SimpleNamespace(JSONDecoder=TDecoder, JSONDecodeError=json.JSONDecodeError)
    LP.READ_SIZE = n
    yielded = []
    try:
        for ev in LP.logfile(path):
            ident = BAD_ID
            try:
                if (isinstance(ev.type, list) and len(ev.type) == 2 and ev.type[0] == "t"
                        and isinstance(ev.time, float)
                        and ev.data == {"p": by_id[int(ev.type[1])]}):
                    ident = int(ev.type[1])
            except (KeyError, ValueError):
                pass
            yielded.append(str(ident))
            if len(yielded) > len(events) + 3:
                break
    except Exception:
        # the parser itself failed (e.g. it decoded a fragment and choked on it)
        yielded.append(str(BAD_ID))
    finally:
        for k, v in saved.items():
            if v is None:
                LP.__dict__.pop(k, None)
            else:
                setattr(LP, k, v)
    return sep_by(",", yielded) + " " + sep_by(",", trace)


def run_case(line: str) -> str:
    toks = line.split()
    if toks[0] == "ev":
        return run_ev(toks[1:])
    if toks[0] == "pf":
        return run_pf(toks[1:], line)
    raise KeyError(toks[0])


if __name__ == "__main__":
    for ln in sys.stdin:
        ln = ln.strip()
        if ln:
            print(run_case(ln))
