"""Virtual clock.  Import this module (and call install()) BEFORE importing tbot: tbot uses
`import time` module-style, so replacing the functions on the stdlib module is enough.
One tick = 2**-10 s; the clock only ever holds multiples of a tick, so every float
operation tbot performs on it is exact."""
import time as _time

TICK = 1.0 / 1024.0
_real_monotonic = _time.monotonic
_real_sleep = _time.sleep


class VClock:
    def __init__(self):
        self.ticks = 0
        self.sleeps = []
        self.active = False      # virtual only while a case runs; real time otherwise

    def monotonic(self):
        if not self.active:
            return _real_monotonic()
        return self.ticks * TICK

    def sleep(self, secs):
        if not self.active:
            return _real_sleep(secs)
        if secs < 0:
            raise ValueError("sleep length must be non-negative")      # as time.sleep does
        t = to_ticks(secs)
        self.sleeps.append(t)
        self.ticks += t

    def reset(self, ticks=0):
        self.ticks = ticks
        self.sleeps = []

    def __enter__(self):
        self.active = True
        return self

    def __exit__(self, *a):
        self.active = False


CLOCK = VClock()


def to_ticks(secs):
    x = secs * 1024.0
    r = round(x)
    if abs(x - r) > 1e-6:
        raise ValueError(f"non-integral tick count {x!r}")
    return int(r)


def install():
    _time.monotonic = CLOCK.monotonic
    _time.sleep = CLOCK.sleep


def real_monotonic():
    return _real_monotonic()
