"""C16 — verdicts are truthful: testcase events and CLI exit status match what happened.

Cases are trees of nested testcases (tcgen.py) run at two levels (tcimpl.py): in-process against
the real decorators / `_testcase_block`, and end-to-end through /venv/bin/newbot and /venv/bin/tbot."""
import itertools

import tcgen
import tcimpl

KIND = "tc"
SPECS = ["C16"]
THEOREMS = [
    "C16.run_spec", "C16.run_spec_wellformed", "C16.run_spec_ip", "C16.run_spec_cli",
    "C16.node_nest_restored", "C16.kids_nest_restored", "C16.run_nest_restored",
    "C16.node_events_bracketed", "C16.kids_events_balanced", "C16.run_events_balanced",
    "C16.node_end_flags", "C16.node_says_success_iff", "C16.node_skip_flag_iff",
    "C16.node_success_iff_not_failed", "C16.skip_reports_success_flag",
    "C16.node_skip_yields_none", "C16.node_never_raises_skip", "C16.node_propagates",
    "C16.node_returns_value",
    "C16.cli_exit_zero_iff", "C16.cli_exit_130_iff", "C16.cli_exit_one_iff", "C16.cli_final_event",
    "C16.cli_nothing_after_failure", "C16.cli_modes_agree",
    "C16.spec_accepts_only_balanced", "C16.feed_balancedFrom", "C16.closes_of_balancedFrom",
    "Tc.runNode_sem", "Tc.feed_node", "Tc.feed_kids", "Tc.feed_top_ip", "Tc.feed_top_cli",
]
LEAN_MODULES = ["TbotVerif.Props.C16"]
QUICK_N, THOROUGH_N = 6000, 90000
QUICK_BUDGET, THOROUGH_BUDGET = 45, 900
CASE_WALL = 90
CLI_EVERY = 60           # one case in this many goes through an installed entry point
BATCH = 600              # look-ahead: CLI cases of a batch run in parallel with the in-process ones
RULE = ("random forests of nested testcases (<= 12 nodes, depth <= 4; chains of depth <= 5) with every node drawn "
        "from guard {none, except Exception, except BaseException} x form {decorator, named decorator, with-block} "
        "x ending {pass, an Exception subclass (RuntimeError / assert / ValueError / user class), tbot.skip or raise SkipException, KeyboardInterrupt}; one case in %d runs through /venv/bin/newbot or "
        "/venv/bin/tbot as a subprocess, the others in-process; a case is non-trivial when some testcase ends by an "
        "exception or a skip (any flag other than plain success) or when a CLI run stops before the last testcase; "
        "distinct = distinct case lines" % CLI_EVERY)
TRUSTED = ["CPython's try/except/with/contextlib.contextmanager semantics for the generated program (the marks "
           "I/Y/R are written by the program under test through tbot.log.EventIO with a private event type)",
           "generators/logparser.py and json for reading the CLI log (C17 covers them)"]
ASSUMPTIONS = ["exceptions raised by testcases are Exception subclasses, tbot.SkipException or "
               "KeyboardInterrupt; SystemExit is outside the domain (newbot maps it to an exit code on purpose, the "
               "legacy main does not catch it)",
               "an end event 'says success' when success and not skipped (log_event.testcase_end documents that "
               "success is ignored for a skipped testcase; the raw flag is True there)",
               "CLI level: top-level testcases are function-form with distinct names; no lab/board configuration; "
               "each run is a fresh process in a fresh directory"]

_batch = []


def _prefetch_corpus():
    """the runner replays corpus/C16 first, one case after the other; start the subprocesses of its
    CLI cases now so that they run in parallel"""
    import glob, os, sys
    if "--replay" in sys.argv:
        return
    here = os.path.dirname(os.path.dirname(os.path.abspath(__file__)))
    for path in sorted(glob.glob(os.path.join(here, "corpus", "C16", "*.case"))):
        for line in open(path).read().split("\n"):
            line = line.strip()
            if line.split(" ")[0] in ("newbot", "newbotk", "tbot"):
                tcimpl.prefetch(line)


_prefetch_corpus()


def _fill(rng):
    lines = []
    for i in range(BATCH):
        if i % CLI_EVERY == CLI_EVERY - 1:
            mode = rng.choice(["newbot", "newbotk", "tbot"])
        else:
            mode = "ip"
        lines.append(tcgen.gen_case(rng, mode).line())
    for l in lines:
        if not l.startswith("ip "):
            tcimpl.prefetch(l)
    _batch.extend(reversed(lines))


def gen_case(rng, params):
    if not _batch:
        _fill(rng)
    return _batch.pop()


def run_impl(line):
    return tcimpl.run_case(line)


def classify(line, obs):
    toks = line.split()
    ks = ["mode=" + toks[0]]
    nodes = toks[2:]
    n = len(nodes)
    ks.append("nodes=" + ("0" if n == 0 else "1" if n == 1 else "2-4" if n <= 4 else "5-8" if n <= 8 else "9+"))
    for t in nodes:
        head, fin, _ = t.split(":")
        ks.append("form=" + head[1])
        ks.append("fin=" + fin)
        ks.append("guard=" + head[0])
    o = obs.split()
    if o:
        ks.append("final=" + o[0])
    for it in o[2:]:
        f = it.split(":")
        if f[0] == "E" and len(f) == 4:
            ks.append("end=" + ("skipped" if f[3] == "1" else "success" if f[2] == "1" else "fail"))
        elif f[0] == "R" and len(f) == 3:
            ks.append("ret=" + ("value" if f[2].startswith("v") else f[2]))
    try:
        depth = max((r.depth() for r in tcgen.parse(line).roots), default=0)
        ks.append("depth=%d" % depth)
    except Exception:
        pass
    return ks


def nontrivial(line, obs):
    o = obs.split()
    ends = [it.split(":") for it in o[2:] if it.startswith("E:")]
    if any(f[2:] != ["1", "0"] for f in ends):
        return True
    if not line.startswith("ip "):
        begun = sum(1 for it in o[2:] if it.startswith("B:"))
        return begun < len(line.split()) - 2
    return False


def shrink_candidates(line):
    return tcgen.shrink_candidates(line)


def explain(line, impl, model):
    a, b = impl.split(), model.split()
    for i, (x, y) in enumerate(zip(a, b)):
        if x != y:
            return f"first difference at observation token {i}: implementation {x!r}, model {y!r}"
    if len(a) != len(b):
        return f"observation lengths differ: implementation {len(a)} tokens, model {len(b)}"
    return "observations equal; the Spec rejects the implementation's observation"


def _labelled(shape, labels):
    """shape: nested tuples; labels: iterator of (guard, form, fin)"""
    def build(sh, counter):
        g, f, fin = next(labels)
        return tcgen.Node(g, f, next(counter), fin, [build(k, counter) for k in sh])
    counter = itertools.count(1)
    return [build(sh, counter) for sh in shape]


SHAPES1 = [((),)]
SHAPES2 = [((), ()), (((),),)]
SHAPES3 = [((), (), ()), (((),), ()), ((), ((),)), (((), ()),), ((((),),),)]


def exhaustive(params):
    """in-process: every forest of <= 2 nodes over all guards x forms x endings (2 628 cases), every
    forest of 3 nodes with the form fixed per position in three rotations; CLI: both tools on every
    sequence of <= 2 function-form top-level testcases over all endings, and on every parent/child
    pair with all guards, child forms and endings."""
    labs = [(g, f, e) for g in tcgen.GUARDS for f in tcgen.FORMS for e in tcgen.FINS]
    cli_lines = []
    for mode in ("newbot", "newbotk", "tbot"):
        rl = [("n", f, e) for f in "dm" for e in tcgen.FINS]
        for n in (0, 1, 2):
            for combo in itertools.product(rl, repeat=n):
                cli_lines.append(tcgen.Case(mode, 0, _labelled(SHAPES1[0] * n, iter(combo))).line())
        for root in [("n", "d", e) for e in tcgen.FINS]:
            for kid in labs:
                cli_lines.append(tcgen.Case(mode, 0, _labelled(SHAPES2[1], iter([root, kid]))).line())
    for l in cli_lines:
        tcimpl.prefetch(l)
    for nest0 in (0,):
        yield tcgen.Case("ip", nest0, []).line()
        for shapes, n in ((SHAPES1, 1), (SHAPES2, 2)):
            for sh in shapes:
                for combo in itertools.product(labs, repeat=n):
                    yield tcgen.Case("ip", nest0, _labelled(sh, iter(combo))).line()
        small = [(g, e) for g in tcgen.GUARDS for e in tcgen.FINS]
        for sh in SHAPES3:
            for rot in range(3):
                forms = ["dmw"[(i + rot) % 3] for i in range(3)]
                for combo in itertools.product(small, repeat=3):
                    lab = [(g, forms[i], e) for i, (g, e) in enumerate(combo)]
                    yield tcgen.Case("ip", nest0, _labelled(sh, iter(lab))).line()
    for l in cli_lines:
        yield l
