/* Interactive helper program for the run() checks (C10): a reactive process that follows a
 * script given in a side file.
 *   tbvinter <dir> <id>
 * reads  <dir>/script.<id>, one step per line:
 *   P <hex>     print these bytes (to stdout, unbuffered, all of them)
 *   R           read one line from stdin (up to and including LF, or end of file)
 *   S <ms>      sleep that many milliseconds
 *   X <status>  exit with this status          (end of script = exit 0)
 * writes <dir>/lines.<id>  one line per completed R step: hex of the bytes read (without the LF),
 *                          "-" for an empty line, "EOF" for end of file (never through the tty)
 *        <dir>/state.<id>  progress, append only: "R<k>\n" just before the k-th R step blocks,
 *                          "X\n" just before exiting (the harness waits on this file to know
 *                          that the process is quiescent) */
#include <stdio.h>
#include <stdlib.h>
#include <string.h>
#include <time.h>
#include <unistd.h>
#include <fcntl.h>

static char path[4096];

static int open_side(const char *dir, const char *kind, const char *id, int flags) {
    snprintf(path, sizeof path, "%s/%s.%s", dir, kind, id);
    return open(path, flags, 0644);
}

static void put(int fd, const char *buf, size_t n) {
    size_t off = 0;
    while (off < n) { ssize_t w = write(fd, buf + off, n - off); if (w <= 0) break; off += (size_t)w; }
}

static int hexval(int c) {
    if (c >= '0' && c <= '9') return c - '0';
    if (c >= 'a' && c <= 'f') return c - 'a' + 10;
    return -1;
}

int main(int argc, char **argv) {
    if (argc < 3) return 99;
    const char *dir = argv[1], *id = argv[2];
    int sfd = open_side(dir, "script", id, O_RDONLY);
    if (sfd < 0) return 98;
    static char script[1 << 20];
    ssize_t len = 0, n;
    while ((n = read(sfd, script + len, sizeof script - 1 - (size_t)len)) > 0) len += n;
    script[len] = 0;
    close(sfd);
    int state = open_side(dir, "state", id, O_WRONLY | O_CREAT | O_APPEND);
    int lines = open_side(dir, "lines", id, O_WRONLY | O_CREAT | O_APPEND);
    int status = 0, k = 0;
    char *p = script;
    while (*p) {
        char *eol = strchr(p, '\n');
        if (eol) *eol = 0;
        if (p[0] == 'P') {
            char *h = p + 2;
            size_t m = strlen(h) / 2;
            char *out = malloc(m + 1);
            for (size_t i = 0; i < m; i++) out[i] = (char)(hexval(h[2 * i]) * 16 + hexval(h[2 * i + 1]));
            put(1, out, m);
            free(out);
        } else if (p[0] == 'R') {
            char tag[32];
            int t = snprintf(tag, sizeof tag, "R%d\n", k++);
            put(state, tag, (size_t)t);
            static char line[65536];
            size_t got = 0; int eof = 0;
            for (;;) {
                char c; ssize_t r = read(0, &c, 1);
                if (r <= 0) { eof = (got == 0); break; }
                if (c == '\n') break;
                if (got < sizeof line) line[got++] = c;
            }
            if (eof) put(lines, "EOF\n", 4);
            else if (got == 0) put(lines, "-\n", 2);
            else {
                static const char hx[] = "0123456789abcdef";
                char *o = malloc(2 * got + 1);
                for (size_t i = 0; i < got; i++) { o[2 * i] = hx[(unsigned char)line[i] >> 4]; o[2 * i + 1] = hx[line[i] & 15]; }
                o[2 * got] = '\n';
                put(lines, o, 2 * got + 1);
                free(o);
            }
        } else if (p[0] == 'S') {
            long ms = atol(p + 2);
            struct timespec ts = { ms / 1000, (ms % 1000) * 1000000L };
            nanosleep(&ts, NULL);
        } else if (p[0] == 'X') {
            status = atoi(p + 2);
            break;
        }
        if (!eol) break;
        p = eol + 1;
    }
    put(state, "X\n", 2);
    return status;
}
