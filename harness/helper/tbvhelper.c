/* Helper program for the shell checks: records its argument vector and environment probe in a
 * side file (NUL separated, never through the tty), prints the bytes of a prepared output file
 * and exits with a prepared status.
 *   tbvhelper <dir> <id> [args...]
 * files: <dir>/out.<id> (bytes to print, optional), <dir>/status.<id> (decimal, optional),
 *        <dir>/env.<id> (name of an environment variable to record, optional)
 * writes: <dir>/argv.<id>  = args after <id>, each followed by NUL
 *         <dir>/envval.<id> = value of that variable (or the single byte 0x01 if unset) */
#include <stdio.h>
#include <stdlib.h>
#include <string.h>
#include <unistd.h>

static char path[4096];

static FILE *open_side(const char *dir, const char *kind, const char *id, const char *mode) {
    snprintf(path, sizeof path, "%s/%s.%s", dir, kind, id);
    return fopen(path, mode);
}

int main(int argc, char **argv) {
    if (argc < 3) return 99;
    const char *dir = argv[1], *id = argv[2];
    FILE *f = open_side(dir, "argv", id, "wb");
    if (!f) return 98;
    for (int i = 3; i < argc; i++) { fwrite(argv[i], 1, strlen(argv[i]), f); fputc(0, f); }
    fclose(f);
    f = open_side(dir, "env", id, "rb");
    if (f) {
        char name[256]; size_t n = fread(name, 1, sizeof name - 1, f); name[n] = 0; fclose(f);
        const char *v = getenv(name);
        FILE *g = open_side(dir, "envval", id, "wb");
        if (g) { if (v) fwrite(v, 1, strlen(v), g); else fputc(1, g); fclose(g); }
    }
    f = open_side(dir, "out", id, "rb");
    if (f) {
        char buf[65536]; size_t n;
        while ((n = fread(buf, 1, sizeof buf, f)) > 0) {
            size_t off = 0;
            while (off < n) { ssize_t w = write(1, buf + off, n - off); if (w <= 0) break; off += (size_t)w; }
        }
        fclose(f);
    }
    int status = 0;
    f = open_side(dir, "status", id, "rb");
    if (f) { if (fscanf(f, "%d", &status) != 1) status = 0; fclose(f); }
    return status;
}
