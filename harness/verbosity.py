"""A dimension every in-process harness shares: tbot's verbosity.  One case in eight (derived from the case line)
runs at `Verbosity.CHANNEL` — the level at which every transport read and write is also logged — with stdout going
nowhere.  What a call returns, sends or raises must not depend on how much is logged.  The harness transports follow
the convention of tbot's own ChannelIO classes: reads are handed on as `channel._debug_log(self, data)`."""
import contextlib
import sys
import zlib

import tbot
import tbot.log


class _Null:
    encoding = "utf-8"

    def write(self, s):
        return len(s)

    def flush(self):
        pass

    def isatty(self):
        return False


def chatty(line: str) -> bool:
    return zlib.crc32(("verbosity/" + line).encode()) % 8 == 0


@contextlib.contextmanager
def for_case(line: str):
    if not chatty(line):
        yield False
        return
    saved = (tbot.log.VERBOSITY, sys.stdout)
    tbot.log.VERBOSITY = tbot.log.Verbosity.CHANNEL
    sys.stdout = _Null()
    try:
        yield True
    finally:
        tbot.log.VERBOSITY, sys.stdout = saved


def through_debug_log(io, data: bytes, is_out: bool = False) -> bytes:
    """what tbot's own transports do with everything they read / write"""
    from tbot.machine.channel import channel as tch
    return tch._debug_log(io, data, is_out)


def wrap(fn):
    """`run_case(line, …)` under the verbosity of the case"""
    def run_case(line, *a, **k):
        # the real-shell runners get a concrete line (scratch directory names differ from run to run) and the seed
        # derived from the symbolic one: the seed decides then, so that a case replays with the same verbosity
        with for_case("seed/%s" % a[0] if a else line):
            return fn(line, *a, **k)
    run_case.__doc__ = fn.__doc__
    return run_case
