"""C04: expect() over pattern lists mixing literals and regexes, on fragmented streams."""
import changen as g
from wire import hx, opt, lst
from chancommon import KIND, CASE_WALL, run_impl, shrink_candidates, classify_common, model_request, spec_line  # noqa: F401
import regen

SPECS = ["C04"]
THEOREMS = ["C04.expectLoop_spec", "C04.expect_spec", "Pat.search_bound", "C04.case_spec", "ChanCase.keeps", "Re.M_la_iff", "Re.maxWidth_la",
            "Re.window_search", "Re.search_eq_of_least", "Re.matchAt_inside", "Re.window_wrong_with_lookahead"]
LEAN_MODULES = ["TbotVerif.Props.ChanCase", "TbotVerif.Props.ReProps", "TbotVerif.Props.C04Window"]
QUICK_N, THOROUGH_N = 5000, 80000
QUICK_BUDGET, THOROUGH_BUDGET = 40, 900
RULE = ("random (pattern list of 1-4 literals/regexes incl. prefixes of one another and samples cut out of the stream, "
        "stream, composition, chunk size, timeout) tuples, 1-3 expect calls per case; non-trivial = an expect call needed "
        ">= 2 transport pieces, or matched a pattern with index > 0, or timed out after receiving data; distinct = distinct lines")
TRUSTED = ["CPython `re.search` / `bytes.find` agree with `Pat.search` on the generated subset (tested by the same cases)"]
ASSUMPTIONS = ["regex patterns come from the modelled subset (classes, sequence, alternation, bounded greedy repetition, "
               "positive look-ahead at the end of a pattern)"]


def gen_case(rng, params):
    chunk = rng.choice([1, 2, 3, 7, params["readChunkSize"], params["readChunkSize"]])
    prompt = rng.choice(g.PROMPTS)
    data = g.gen_stream(rng, prompt, rng.choice([1, 2, 3]))
    flagged = None
    if rng.random() < 0.3:
        # one regex is used with AND without re.IGNORECASE in consecutive calls of the case; the stream holds samples of
        # it in both cases (what matches must depend on the flags of the pattern given, not of an earlier one)
        flagged = regen.gen(rng, b"abx >", depth=rng.randint(1, 2))
        if flagged.nullable():
            flagged = regen.Seq(regen.Cls([(97, 98)]), flagged)
        extra = bytearray()
        for _ in range(rng.randint(1, 3)):
            occ = regen.sample(flagged, rng)
            extra += bytes(regen._swapcase(c) if rng.random() < 0.6 else c for c in occ) + g.rbytes(rng, rng.randint(0, 3))
        cut_at = rng.randint(0, len(data))
        data = data[:cut_at] + bytes(extra) + data[cut_at:]
        first_icase = rng.random() < 0.5
    ahead = None
    if flagged is None and rng.random() < 0.2:
        # a pattern with a look-ahead: `head(?=tail)`.  Its width is that of `head`, the decision reaches len(tail)
        # bytes further; the stream holds real occurrences and decoys (head + a proper prefix of tail + something else)
        head = regen.lit(rng.choice([b"st: ", b"x", b"ab", b"> "])) if rng.random() < 0.6 else regen.gen(rng, b"abx >", depth=1)
        if head.nullable():
            head = regen.Seq(regen.Cls([(97, 98)]), head)
        tail = rng.choice([b"READY", b"ok", b"abx", b"\r\n$ ", b"xxab "])
        tail_re = regen.lit(tail) if rng.random() < 0.8 else regen.Alt(regen.lit(tail), regen.lit(tail[:1] + b"Z"))
        ahead = (regen.Seq(head, regen.La(tail_re)), [])
        extra = bytearray()
        for _ in range(rng.randint(1, 3)):
            h = regen.sample(head, rng)
            if rng.random() < 0.6:
                extra += g.rbytes(rng, rng.randint(0, 3)) + h
                ahead[1].append(len(extra))
                extra += tail
            else:
                extra += h + tail[: rng.randint(0, len(tail) - 1)] + rng.choice([b"#", b"", b" "])
        cut_at = rng.randint(0, len(data))
        data = data[:cut_at] + bytes(extra) + data[cut_at:]
        ahead = (ahead[0], [(cut_at + o, len(tail)) for o in ahead[1]])
    paged = chunk == params["readChunkSize"] and rng.random() < 0.08
    if paged:
        # the piece that completes a match is filled to the last byte, and more data is waiting behind it
        data, pieces = g.page_cut(rng, data, chunk, [rng.randint(1, len(data))] if data else [])
    else:
        pieces = g.cut(rng, data)
    if ahead is not None and not paged and ahead[1]:
        # piece boundaries strictly inside the looked-ahead text (and right in front of it)
        cuts, pos = set(), 0
        for pc in pieces[:-1]:
            pos += len(pc); cuts.add(pos)
        for o, n in ahead[1]:
            if rng.random() < 0.85:
                cuts.add(o + rng.randint(1, max(1, n - 1)))
            if rng.random() < 0.3:
                cuts.add(o)
        cs = sorted(c for c in cuts if 0 < c < len(data))
        pieces = [data[a:b] for a, b in zip([0] + cs, cs + [len(data)])]
    ticks = g.schedule(rng, pieces, "zero" if paged and rng.random() < 0.7 else None)
    ops = []
    for n_op in range(rng.randint(2, 3) if flagged is not None else rng.randint(1, 3)):
        pats = []
        if flagged is not None:
            pats.append(regen.Pat("re", flagged, icase=first_icase == (n_op % 2 == 0)).wire())
        for _ in range(rng.randint(1, 4)):
            k = rng.random()
            if k < 0.35 and len(data) > 1:
                i = rng.randrange(len(data)); j = min(len(data), i + rng.randint(1, 4))
                pats.append("L" + hx(data[i:j]))
            elif k < 0.5 and pats and pats[-1].startswith("L") and len(pats[-1]) > 3:
                pats.append(pats[-1][:-2])            # proper prefix of the previous literal
            else:
                pats.append(g.gen_pat(rng).wire())
        if ahead is not None:
            pats.insert(rng.randint(0, len(pats)), regen.Pat("re", ahead[0]).wire())
        if flagged is not None:
            rng.shuffle(pats)
        ops.append(f"ex:{opt(g.timeout_choice(rng))}:{lst(pats)}")
    return g.case_line(chunk, params["sendSliceSize"], g.script_wire(ticks, pieces), [], ops)


def classify(line, obs):
    ks = classify_common(line, obs)
    ks.append("icase=%d" % any(":I" in o or ",I" in o for o in line.split()[4:]))
    ks.append("lookahead=%d" % any(o.startswith("ex:") and "P" in o.split(":", 2)[2] for o in line.split()[4:]))
    for o in obs.split()[1:]:
        r = o.split(";")[0]
        if r.startswith("x:"):
            ks.append("match_idx=" + r.split(":")[1])
    return ks


def nontrivial(line, obs):
    for o in obs.split()[1:]:
        f = o.split(";")
        if f[3].count(",") >= 1 or (f[0].startswith("x:") and f[0].split(":")[1] != "0"):
            return True
    return False
