"""C04: expect() over pattern lists mixing literals and regexes, on fragmented streams."""
import changen as g
from wire import hx, opt, lst
from chancommon import KIND, CASE_WALL, run_impl, shrink_candidates, classify_common  # noqa: F401

SPECS = ["C04"]
THEOREMS = ["C04.expectLoop_spec", "C04.expect_spec", "Pat.search_bound", "C04.case_spec", "ChanCase.keeps"]
LEAN_MODULES = ["TbotVerif.Props.ChanCase"]
QUICK_N, THOROUGH_N = 5000, 80000
QUICK_BUDGET, THOROUGH_BUDGET = 40, 900
RULE = ("random (pattern list of 1-4 literals/regexes incl. prefixes of one another and samples cut out of the stream, "
        "stream, composition, chunk size, timeout) tuples, 1-3 expect calls per case; non-trivial = an expect call needed "
        ">= 2 transport pieces, or matched a pattern with index > 0, or timed out after receiving data; distinct = distinct lines")
TRUSTED = ["CPython `re.search` / `bytes.find` agree with `Pat.search` on the generated subset (tested by the same cases)"]
ASSUMPTIONS = ["regex patterns come from the modelled subset (classes, sequence, alternation, bounded greedy repetition)"]


def gen_case(rng, params):
    chunk = rng.choice([1, 2, 3, 7, params["readChunkSize"], params["readChunkSize"]])
    prompt = rng.choice(g.PROMPTS)
    data = g.gen_stream(rng, prompt, rng.choice([1, 2, 3]))
    pieces = g.cut(rng, data)
    ticks = g.schedule(rng, pieces)
    ops = []
    for _ in range(rng.randint(1, 3)):
        pats = []
        for _ in range(rng.randint(1, 4)):
            k = rng.random()
            if k < 0.35 and len(data) > 1:
                i = rng.randrange(len(data)); j = min(len(data), i + rng.randint(1, 4))
                pats.append("L" + hx(data[i:j]))
            elif k < 0.5 and pats and pats[-1].startswith("L") and len(pats[-1]) > 3:
                pats.append(pats[-1][:-2])            # proper prefix of the previous literal
            else:
                pats.append(g.gen_pat(rng).wire())
        ops.append(f"ex:{opt(g.timeout_choice(rng))}:{lst(pats)}")
    return g.case_line(chunk, params["sendSliceSize"], g.script_wire(ticks, pieces), [], ops)


def classify(line, obs):
    ks = classify_common(line, obs)
    for o in obs.split()[1:]:
        r = o.split(";")[0]
        if r.startswith("x:"):
            ks.append("match_idx=" + r.split(":")[1])
    return ks


def nontrivial(line, obs):
    for o in obs.split()[1:]:
        f = o.split(";")
        if f[3].count(",") >= 1 or (f[0].startswith("x:") and f[0].split(":")[1] != "0"):
            return True
    return False
