"""C02G — auxiliary check of C02: `Channel.read_until_prompt()` with a regex prompt that begins
with a look-behind assertion (`\\b` in front of a word character, `^` under MULTILINE,
`(?<=[..])`, `(?<![..])`).  The byte BEFORE the match takes part in the decision, so the test
has to look at everything received, not at a tail of it.  The real Channel runs on the scripted
transport; the Lean model (`GuardPrompt.run`) gets the same pieces; `Spec.C02G` judges the
implementation's observation.

case: <atStart 0|1> <class wire> <regex wire> <piece,piece,…> <kind> <mode>   (pieces in hex)
obs:  t:<text, hex of UTF-8>;<pieces consumed> | e:timeout;<pieces consumed>
"""
import itertools
import re

import mockio
import regen
import vclock
vclock.install()
from wire import hx, unhx
from tbot.machine.channel import channel as tch

KIND = "rupg"
SPECS = ["C02G"]
THEOREMS = ["C02G.spec_holds", "C02G.rupG_some", "C02G.rupG_none", "C02G.gPromptEnd_iff", "C02G.gPromptEnd_none",
            "C02G.returns_at_prompt", "C02G.timeout_never_at_prompt", "Re.gsearchFrom_some", "Re.gsearchFrom_none"]
LEAN_MODULES = ["TbotVerif.Props.C02G"]
QUICK_N, THOROUGH_N = 3000, 40000
QUICK_BUDGET, THOROUGH_BUDGET = 25, 300
CASE_WALL = 20
RULE = ("prompts = look-behind ++ expression: \\b + word character + random expression of the modelled subset, (?m:^) + "
        "expression, (?<=[class]) / (?<![class]) + expression (classes: one byte, a range, word characters, `/`); "
        "configured through with_prompt or given per call; streams of 1-3 commands whose output contains the bare "
        "expression behind a byte that fails the look-behind (`bash> ` for the prompt `\\bsh> `), prompt prefixes and "
        "newlines; 1-6 pieces with cuts inside and just before the prompt; non-trivial: >= 2 pieces were consumed and "
        "the stream contains a match of the bare expression at which the look-behind fails; distinct = distinct case lines")
TRUSTED = ["CPython `re`: `\\b`, `^` under MULTILINE and one-byte look-behind classes agree with `Re.Guard.ok` on the "
           "byte before the match (tested by these cases)",
           "harness/c02g.py builds the Python source of the prompt (guard ++ expression) and its wire form from one tree"]
ASSUMPTIONS = ["the look-behind inspects ONE byte (or the start of the data); look-ahead assertions and longer "
               "look-behinds are outside the modelled subset",
               "pieces are shorter than READ_CHUNK_SIZE (one transport read per piece; chunking is C02.rup_spec's subject)"]

WORD = [(48, 57), (65, 90), (95, 95), (97, 122)]
ALPHA = b"ab>$ s#"


def guard_of(kind, cls):
    """(atStart, neg, ranges, python source)"""
    body = b"".join(b"\\x%02x" % a if a == b else b"\\x%02x-\\x%02x" % (a, b) for a, b in cls)
    if kind == "b":
        return 1, True, WORD, b"\\b"
    if kind == "m":
        return 1, False, [(10, 10)], b"(?m:^)"
    if kind == "pos":
        return 0, False, cls, b"(?<=[" + body + b"])"
    return 1, True, cls, b"(?<![" + body + b"])"


def cls_wire(neg, ranges):
    return "C" + ("1" if neg else "0") + "%02x" % len(ranges) + "".join("%02x%02x" % r for r in ranges)


CLASSES = [[(97, 122)], [(47, 47)], WORD + [(47, 47)], [(97, 97)], [(10, 10)], [(32, 32), (62, 62)]]


def gen_case(rng, params):
    kind = rng.choice(["b", "m", "pos", "neg", "neg", "b"])
    ci = rng.randrange(len(CLASSES))
    if kind == "b":
        first = rng.choice(b"sab_9")
        tail = regen.gen(rng, ALPHA, depth=2) if rng.random() < 0.6 else regen.lit(rng.choice([b"h> ", b"> ", b"=> "]))
        r = regen.Seq(regen.Cls([(first, first)]), tail)
    else:
        r = regen.gen(rng, ALPHA, depth=2) if rng.random() < 0.5 else regen.lit(rng.choice([b"sh> ", b"# ", b"=> ", b"$ "]))
    if r.nullable():
        r = regen.Seq(regen.Cls([(36, 36)]), r)
    at, neg, ranges, _ = guard_of(kind, CLASSES[ci])
    ok_prev = [c for c in b"\n x/a>_" if (any(a <= c <= b for a, b in ranges)) != neg]
    bad_prev = [c for c in b"\n x/a>_" if (any(a <= c <= b for a, b in ranges)) == neg]
    data = b""
    for _ in range(rng.choice([1, 1, 2, 3])):
        for _ in range(rng.randint(0, 3)):
            k = rng.random()
            if k < 0.35 and bad_prev:      # the bare expression behind a byte that fails the look-behind
                data += bytes([rng.choice(bad_prev)]) + (regen.sample(r, rng) or b"x")
            elif k < 0.6:
                data += bytes(rng.choice(ALPHA + b"\n/x") for _ in range(rng.randint(1, 4)))
            elif k < 0.8:
                s = regen.sample(r, rng)
                data += s[: rng.randint(0, len(s))]
            else:
                data += b"\r\n"
        if rng.random() < 0.85:
            pre = bytes([rng.choice(ok_prev)]) if ok_prev and (data or not at or rng.random() < 0.7) else b""
            data += pre + regen.sample(r, rng)
    if not data:
        data = b"x"
    # cuts
    n = len(data)
    cuts = set()
    for _ in range(rng.choice([0, 1, 1, 2, 3, 5])):
        if n > 1:
            cuts.add(rng.randint(1, n - 1))
    if n > 2 and rng.random() < 0.5:
        w = len(regen.sample(r, rng)) or 1
        cuts.add(max(1, min(n - 1, n - rng.randint(1, w + 1))))
    cs = sorted(cuts)
    pieces = [data[a:b] for a, b in zip([0] + cs, cs + [n])]
    return "%d %s %s %s %s:%d %s" % (at, cls_wire(neg, ranges), r.wire(), ",".join(hx(p) for p in pieces), kind, ci,
                                   rng.choice(["call", "cfg"]))


def spec_line(line):
    return " ".join(line.split()[:4])


def model_request(line, impl):
    return KIND + " " + spec_line(line)


def run_impl(line):
    with vclock.CLOCK:
        return _run(line)


def _run(line):
    at, cw, rw, ps, kc, mode = line.split()
    kind, ci = kc.split(":")
    r = regen.parse_wire(rw)
    _, _, _, gsrc = guard_of(kind, CLASSES[int(ci)])
    pat = re.compile(gsrc + r.py())
    pieces = [unhx(p) for p in ps.split(",")]
    vclock.CLOCK.reset(0)
    io = mockio.ScriptIO([(0, p) for p in pieces])
    ch = tch.Channel(io)
    try:
        if mode == "cfg":
            with ch.with_prompt(pat):
                out = ch.read_until_prompt(timeout=1.0)
        else:
            out = ch.read_until_prompt(prompt=pat, timeout=1.0)
        res = "t:" + hx(out.encode("utf-8", "surrogatepass"))
    except TimeoutError:
        res = "e:timeout"
    except (Exception, mockio.Hang) as e:
        res = "e:" + type(e).__name__ + "/" + str(e)[:60].replace(" ", "_").replace(";", ",")
    k = sum(1 for rd in io.reads if rd[4] is not None)
    return f"{res};{k}"


def classify(line, obs):
    at, cw, rw, ps, kc, mode = line.split()
    return ["guard=" + kc.split(":")[0], "mode=" + mode, "result=" + obs.split(";")[0][:2].replace(":", ""),
            "pieces=%d" % min(6, ps.count(",") + 1)]


def nontrivial(line, obs):
    at, cw, rw, ps, kc, mode = line.split()
    if int(obs.split(";")[1]) < 2:
        return False
    kind, ci = kc.split(":")
    r = regen.parse_wire(rw)
    at_, neg, ranges, _ = guard_of(kind, CLASSES[int(ci)])
    data = b"".join(unhx(p) for p in ps.split(","))
    for m in re.finditer(b"(?=(" + r.py() + b"))", data):
        i = m.start()
        okp = bool(at_) if i == 0 else ((any(a <= data[i - 1] <= b for a, b in ranges)) != neg)
        if not okp:
            return True
    return False


def shrink_candidates(line):
    at, cw, rw, ps, kc, mode = line.split()
    pieces = ps.split(",")
    for i in range(len(pieces)):
        if len(pieces) > 1:
            yield " ".join([at, cw, rw, ",".join(pieces[:i] + pieces[i + 1:]), kc, mode])
        p = pieces[i]
        if len(p) > 2:
            yield " ".join([at, cw, rw, ",".join(pieces[:i] + [p[2:]] + pieces[i + 1:]), kc, mode])
            yield " ".join([at, cw, rw, ",".join(pieces[:i] + [p[:-2]] + pieces[i + 1:]), kc, mode])
    for i in range(len(pieces) - 1):
        yield " ".join([at, cw, rw, ",".join(pieces[:i] + [pieces[i] + pieces[i + 1]] + pieces[i + 2:]), kc, mode])


def exhaustive(params):
    """prompt (?<![a-z])s> and \\bs> : every stream of length <= 6 over {a, s, >, blank, LF} that ends with `s> `,
    all compositions"""
    for kind, ci in (("neg", 0), ("b", 0), ("m", 0)):
        at, neg, ranges, _ = guard_of(kind, CLASSES[ci])
        r = regen.lit(b"s> ")
        for n in range(0, 4):
            for tup in itertools.product(b"as> \n", repeat=n):
                data = bytes(tup) + b"s> "
                L = len(data)
                for mask in range(1 << (L - 1)):
                    cs = [i for i in range(1, L) if mask >> (i - 1) & 1]
                    pieces = [data[a:b] for a, b in zip([0] + cs, cs + [L])]
                    yield "%d %s %s %s %s:%d call" % (at, cls_wire(neg, ranges), r.wire(), ",".join(hx(p) for p in pieces), kind, ci)
