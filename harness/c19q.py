"""C19Q — helper check for C19 (first theorem): `_hush_quote` / `UBootShell.escape` of
tbot/machine/board/uboot.py against the Lean model, and `Spec.C19Q` (one hush word per str
argument by the hazard-rejecting hush tokenizer, tokens verbatim, no CR/LF added, black-list
equivalence) evaluated on the REAL output.

case: hush <bl> <args>     (<args> as in harness/quote.py; `p:`/`o` are unsupported types there)
"""
import itertools

import quote as q
from quote import KIND, CASE_WALL, shrink_candidates, chars  # noqa: F401
from wire import unhx

SPECS = ["C19Q"]
THEOREMS = [
    "Hush.hushSafe_plain", "Hush.hushEmpty_eq", "Hush.hushNonAsciiQuoted", "Hush.hazards_not_safe",
    "C19Q.hushWords_hushQuote", "C19Q.hushWords_escape", "C19Q.escape_eq_join", "C19Q.escape_cons_cons",
    "C19Q.no_hazard", "C19Q.one_word", "C19Q.control_is_hazard", "C19Q.forbidden_escape",
    "Hush.segCheck_escapeArgs", "Hush.count_escapeArgs", "Hush.forbidden_escapeArgs",
    "C19Q.spec_holds", "C19Q.segCheck_sound",
]
LEAN_MODULES = ["TbotVerif.Props.C19Q"]
QUICK_N, THOROUGH_N = 6000, 90000
QUICK_BUDGET, THOROUGH_BUDGET = 40, 600
RULE = ("argument lists of length 0-6 over {str, Raw, Then/AndThen/OrElse/Pipe/Background, linux.Path and other "
        "unsupported objects}; strings are per-position mixtures of safe characters, both quotes, backslash runs "
        "(also trailing), $ ; & | # = and other punctuation, blanks, 2/3/4-byte UTF-8, empty, lengths 0-20 and "
        "500-530; about 1 string in 8 also carries a control byte (outside the domain: only the exception, CR/LF and "
        "black-list clauses of the Spec apply). Non-trivial: some str argument was quoted and contains a backslash, a "
        "single quote or a byte hush treats specially; distinct = distinct case lines")
TRUSTED = [
    "the hush tokenizer model (`Hush.split`: single quotes literal, backslash removal AFTER quote processing, `$ ; & | # \"` "
    "and every other non-safe byte a hazard when unquoted, every control byte a hazard) is written from U-Boot's "
    "common/cli_hush.c (parse_stream, done_word, __U_BOOT__ branches). There is NO hush binary in this environment: "
    "the tokenizer is NOT validated against U-Boot. It is the largest unvalidated item of this check.",
    "bytes >= 0x80 are treated as ordinary characters by the model (U-Boot's `map[ch]` lookup on a platform with "
    "unsigned char; 0xFF never occurs in UTF-8)",
    "CPython's re (`[^\\w@%+=:,./-]` with re.ASCII) and str.replace are reached through the real `_hush_quote`",
]
ASSUMPTIONS = ["arguments are Python str of Unicode scalar values (no lone surrogates)",
               "domain of the quoting theorem: every byte of every str argument is 0x20-0x7E or >= 0x80 "
               "(printable ASCII and non-ASCII text, the quantifier of C19); control bytes cannot be sent anyway "
               "(U-Boot write black-list) or are eaten by the U-Boot line editor"]

# representative classes: letter, digit-ish safe punctuation, blank, ', ", \, $, ;, &, |, #, =, *, 2-byte and 3-byte UTF-8
ALPHA = ["a", "-", " ", "'", '"', "\\", "$", ";", "&", "|", "#", "=", "*", "é", "✓"]   # 15 symbols


def gen_item(rng):
    r = rng.random()
    if r < 0.80:
        return "s:" + chars(q.gen_string(rng, q.HUSH_HAZ, q.SNIPPETS_HUSH, allow_ctrl=rng.random() < 0.25))
    if r < 0.87:
        return "r:" + chars(q.gen_string(rng, q.HUSH_HAZ, q.SNIPPETS_HUSH, allow_ctrl=False, long_ok=False))
    if r < 0.98:
        return "t:" + rng.choice(sorted(q.STATIC))
    if r < 0.99:
        return "p:" + chars(q.gen_path(rng, q.HUSH_HAZ))
    return "o"


def gen_case(rng, params):
    r = rng.random()
    if r < 0.15:   # one short string over the class alphabet (the exhaustive space, sampled)
        s = "".join(rng.choice(ALPHA) for _ in range(rng.randint(0, 5)))
        return f"hush {q.gen_bl(rng)} s:{chars(s)}"
    n = rng.choice([0, 1, 1, 1, 2, 2, 3, 3, 4, 5, 6])
    items = [gen_item(rng) for _ in range(n)]
    return f"hush {q.gen_bl(rng)} {q.items_wire(items)}"


def run_impl(line):
    return q.run_case(line)


PLAIN = set(b"abcdefghijklmnopqrstuvwxyzABCDEFGHIJKLMNOPQRSTUVWXYZ0123456789_@%+=:,./-")


def classify(line, obs):
    toks = line.split()
    ks = ["obs=" + obs.split(":")[0].split("/")[0]]
    items = q.arg_items(toks[2])
    ks.append("nargs=" + (str(len(items)) if len(items) < 4 else "4+"))
    wf = True
    for it in items:
        f = it.split(":")
        ks.append("arg=" + f[0])
        if f[0] == "s":
            b = unhx(f[1])
            if not b:
                ks.append("str:empty")
            if len(b) >= 500:
                ks.append("str:long")
            if b"'" in b:
                ks.append("str:squote")
            if b"\\" in b:
                ks.append("str:backslash")
            if b.endswith(b"\\"):
                ks.append("str:trailing-backslash")
            if any(c in b"$;&|#" for c in b):
                ks.append("str:hush-special")
            if any(c >= 0x80 for c in b):
                ks.append("str:nonascii")
            if any(c < 32 or c == 127 for c in b):
                ks.append("str:control(out-of-domain)")
                wf = False
            if b and all(c in PLAIN for c in b):
                ks.append("str:safe-unquoted")
    ks.append("domain=" + ("in" if wf else "out"))
    return ks


def nontrivial(line, obs):
    toks = line.split()
    if not obs.startswith("l:"):
        return False
    for it in q.arg_items(toks[2]):
        if it.startswith("s:"):
            b = unhx(it[2:])
            if any(c in b"\\'$;&|#\" " for c in b):
                return True
    return False


def exhaustive(params):
    """every string of length <= 4 over the 15 representative classes as a single argument
    (54 241 cases) and every pair of strings of length <= 1"""
    for n in range(0, 5):
        for tup in itertools.product(ALPHA, repeat=n):
            yield f"hush 03 s:{chars(''.join(tup))}"
    one = [""] + ALPHA
    for a in one:
        for b in one:
            yield f"hush - s:{chars(a)},s:{chars(b)}"


def explain(line, impl, model):
    return ("Spec.C19Q: each str argument must be read back as exactly one word by the hazard-rejecting hush tokenizer "
            "(backslash removal after quote processing), special tokens verbatim, no CR/LF added")
