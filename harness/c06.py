"""C06: timeouts are overall deadlines — arrival schedules against every timed operation."""
import changen as g
from wire import hx, opt, lst
from chancommon import KIND, CASE_WALL, run_impl, shrink_candidates, classify_common  # noqa: F401

SPECS = ["C06", "C03"]   # C03 too: a time-out of a send with read-back is justified only by an incomplete echo
THEOREMS = ["C06.op_spec", "C06.case_spec", "C06.no_timeout_op", "C06.rut_exact", "C06.rut_ok_exact", "C06.rut_never_timeout", "C06.send_deadline", "C06.read_deadline", "C06.c06_deadline", "C06.c06_timeout_exact", "C06.c06_no_timeout"]
AUX = ["C06S"]   # the one transport with deadline logic of its own: SubprocessChannelIO.read/write (select loop)
QUICK_N, THOROUGH_N = 6000, 100000
QUICK_BUDGET, THOROUGH_BUDGET = 40, 900
RULE = ("random arrival schedules (steady trickles with period below/at/above T, bursts, arrival exactly at the deadline, "
        "silence) x T in {0, 1 tick, 0.5 s, 1 s, 3 s, none} x every timed operation (read(n), read(), read_iter, readline, "
        "expect, read_until_prompt, read_until_timeout, send/sendline with read-back, also with slow-send); "
        "non-trivial = an operation with a timeout performed >= 2 transport reads, or timed out after receiving data; "
        "distinct = distinct case lines")
TRUSTED = ["virtual time: tbot is infinitely fast between two clock reads; the transport honours the timeout it is given"]
ASSUMPTIONS = ["real scheduling latency and select() granularity are not modelled; the theorem is about the deadline arithmetic"]

TS = [None, 0, 1, 512, 1024, 3072]


def gen_echo_case(rng, params):
    """send/sendline with read-back against an echoing remote whose echo trickles in"""
    sl = params["sendSliceSize"]
    n = rng.choice([5, sl - 1, sl, sl + 1, 2 * sl + 7, 3 * sl])
    payload = g.rbytes(rng, n, b"abx")
    line = rng.random() < 0.5
    echo = payload + (b"\r\n" if line else b"")
    k = rng.choice([1, 2, 3, 4, 7])
    size = max(1, len(echo) // k)
    pieces = [echo[i:i + size] for i in range(0, len(echo), size)]
    gap = rng.choice([0, 100, 400, 900, 1100])
    ticks = [gap * (i + 1) for i in range(len(pieces))]
    T = rng.choice([512, 1024, 3072, None])
    op = f"sl:{hx(payload)}:1:{opt(T)}" if line else f"send:{hx(payload)}:1:{opt(T)}:0"
    return g.case_line(params["readChunkSize"], sl, g.script_wire(ticks, pieces), [], [op])


def gen_case(rng, params):
    if rng.random() < 0.12:
        return gen_echo_case(rng, params)
    chunk = rng.choice([1, 2, 3, params["readChunkSize"], params["readChunkSize"]])
    prompt = rng.choice(g.PROMPTS)
    T = rng.choice(TS)
    mode = rng.choice(["trickle", "trickle", "burst", "deadline", "silence", "rand"])
    data = g.gen_stream(rng, prompt, rng.choice([1, 2]))
    pieces = g.cut(rng, data, rng.choice(["bytes", "few", "rand"]))
    ticks, t = [], 0
    period = rng.choice([1, 128, 256, 512, 1024, 2048])
    for i, _ in enumerate(pieces):
        if mode == "trickle":
            t += period
        elif mode == "burst":
            t += rng.choice([0, 0, 0, 1024, 4096])
        elif mode == "deadline":
            t = (T or 512) if i >= len(pieces) // 2 else 0
        elif mode == "silence":
            t = 10 ** 6
        else:
            t += rng.choice([0, 1, 100, 512, 1024, 3000])
        ticks.append(t)
    ops = []
    if rng.random() < 0.3:
        ops.append(f"slow:{opt(rng.choice([None, 10, 512]))}:{rng.choice([1, 2, 32])}")
    ops.append(f"prompt:{hx(prompt)}")
    for _ in range(rng.randint(1, 3)):
        T = rng.choice(TS)
        k = rng.random()
        if k < 0.15:
            ops.append(f"read:{rng.choice([1, 2, 5, 20])}:{opt(T)}")
        elif k < 0.22:
            ops.append(f"read:-:{opt(T)}")
        elif k < 0.34:
            ops.append(f"ri:{opt(rng.choice([None, 3, 9]))}:{opt(T)}:{opt(rng.choice([None, 1, 3]))}")
        elif k < 0.46:
            ops.append(f"rl:{hx(rng.choice([b'\r\n', b'\n']))}:{opt(T)}")
        elif k < 0.58:
            ops.append(f"ex:{opt(T)}:{lst(g.gen_pat(rng).wire() for _ in range(rng.randint(1, 3)))}")
        elif k < 0.74:
            ops.append(f"rup:{'-' if rng.random() < 0.7 else g.gen_pat(rng).wire()}:{opt(T)}")
        elif k < 0.86:
            ops.append(f"rut:{opt(T)}")
        else:
            n = rng.choice([1, 3, 8, params['sendSliceSize'] + 5, 2 * params['sendSliceSize'] + 5])
            if rng.random() < 0.5:
                ops.append(f"send:{hx(g.rbytes(rng, n, b'abx'))}:1:{opt(T)}:0")
            else:
                ops.append(f"sl:{hx(g.rbytes(rng, n, b'abx'))}:1:{opt(T)}")
        if rng.random() < 0.2:
            ops.append(f"sleep:{rng.choice([1, 512, 2048])}")
    return g.case_line(chunk, params["sendSliceSize"], g.script_wire(ticks, pieces), [], ops)


def classify(line, obs):
    return classify_common(line, obs)


def nontrivial(line, obs):
    for op, o in zip(line.split()[4:], obs.split()[1:]):
        f = o.split(";")
        if f[3].count(",") >= 1 and "/-/" not in f[3].split(",")[0]:
            return True
    return False
