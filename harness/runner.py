"""Generic check pipeline (DESIGN §2.3): params → lake build → axiom audit → correspondence
(corpus, generated, exhaustive) with Spec evaluated on the implementation → verdict, replay,
evidence."""
import argparse, glob, hashlib, importlib, json, os, random, re, signal, subprocess, sys, time

_MONO = time.monotonic   # captured before the virtual clock is installed

HERE = os.path.dirname(os.path.abspath(__file__))
VERIF = os.path.dirname(HERE)
LEAN_DIR = os.path.join(VERIF, "lean")
sys.path.insert(0, HERE)

ALLOWED_AXIOMS = {"propext", "Classical.choice", "Quot.sound"}
FORBIDDEN = re.compile(r"\bsorry\b|\badmit\b|^\s*axiom\s|native_decide|bv_decide|implemented_by|\bunsafe\s|maxHeartbeats\s+0")

TRUSTED_BASE_COMMON = [
    "Lean 4.33 kernel; axioms limited to propext, Classical.choice, Quot.sound (audited per theorem on this run)",
    "harness/extract_params.py (regenerates lean/TbotVerif/Generated/Params.lean from /repo)",
    "the correspondence harness (harness/*.py): scripted transport, virtual clock, canonicalisation, wire format",
    "the hand-written Lean model is tied to /repo by differential testing on the generated cases, not by proof",
]


class WallTimeout(BaseException):
    pass


def _alarm(signum, frame):
    raise WallTimeout()


def real_time():
    import vclock
    return vclock.real_monotonic()


def sh(cmd, cwd=None, timeout=3600):
    p = subprocess.run(cmd, cwd=cwd, stdout=subprocess.PIPE, stderr=subprocess.STDOUT, timeout=timeout)
    return p.returncode, p.stdout.decode(errors="replace")


def strip_comments(src):
    src = re.sub(r"/-.*?-/", "", src, flags=re.S)
    return re.sub(r"--.*", "", src)


def grep_forbidden():
    hits = []
    for path in glob.glob(os.path.join(LEAN_DIR, "TbotVerif", "**", "*.lean"), recursive=True):
        src = strip_comments(open(path).read())
        for i, line in enumerate(src.split("\n")):
            if FORBIDDEN.search(line):
                hits.append(f"{os.path.relpath(path, LEAN_DIR)}: {line.strip()[:100]}")
    return hits


def build_and_audit(pid, mod):
    """returns dict(proof_ok, obligations, discharged, broken:[names], log)"""
    theorems = list(mod.THEOREMS)
    modules = list(getattr(mod, "LEAN_MODULES", [f"TbotVerif.Props.{pid}"]))
    res = {"obligations": len(theorems), "discharged": 0, "broken": [], "log": "", "modules": modules}
    rc, out = sh(["lake", "build", "driver"] + modules, cwd=LEAN_DIR)
    res["build_cmd"] = "cd lean && lake build driver " + " ".join(modules)
    res["log"] = out[-4000:]
    if rc != 0:
        m = re.findall(r"error: (\S+\.lean:\d+:\d+)", out)
        res["broken"] = ["build: " + x for x in m[:5]] or ["build failed"]
        res["proof_ok"] = False
        return res
    hits = grep_forbidden()
    if hits:
        res["broken"] = ["forbidden token: " + h for h in hits[:5]]
        res["proof_ok"] = False
        return res
    audit = "\n".join([f"import {m}" for m in modules] + [f"#print axioms {t}" for t in theorems]) + "\n"
    os.makedirs(os.path.join(LEAN_DIR, ".lake"), exist_ok=True)
    apath = os.path.join(LEAN_DIR, ".lake", f"audit_{pid}.lean")
    open(apath, "w").write(audit)
    rc, out = sh(["lake", "env", "lean", apath], cwd=LEAN_DIR)
    res["audit_cmd"] = f"cd lean && lake env lean .lake/audit_{pid}.lean   (#print axioms of {len(theorems)} theorems)"
    flat = re.sub(r"\s+", " ", out)
    ok = 0
    axioms_used = set()
    for t in theorems:
        m = re.search(r"'" + re.escape(t) + r"' depends on axioms: \[([^\]]*)\]", flat)
        if m:
            ax = {a.strip() for a in m.group(1).split(",") if a.strip()}
            axioms_used |= ax
            if ax <= ALLOWED_AXIOMS:
                ok += 1
            else:
                res["broken"].append(f"{t}: axioms {sorted(ax - ALLOWED_AXIOMS)}")
        elif re.search(r"'" + re.escape(t) + r"' does not depend on any axioms", flat):
            ok += 1
        else:
            res["broken"].append(f"{t}: not found / not checked")
    res["discharged"] = ok
    res["axioms_used"] = sorted(axioms_used)
    res["proof_ok"] = (ok == len(theorems)) and rc == 0
    if rc != 0 and not res["broken"]:
        res["broken"].append("audit failed: " + out[-300:])
    return res


def load_known(pid):
    path = os.path.join(VERIF, "known_findings.json")
    if not os.path.exists(path):
        return []
    return [k for k in json.load(open(path)) if k.get("property") == pid and k.get("status") == "known"]


def main():
    import faulthandler
    faulthandler.register(signal.SIGUSR1, all_threads=True)     # `kill -USR1 <pid>` shows where a run is
    ap = argparse.ArgumentParser()
    ap.add_argument("pid")
    ap.add_argument("--tier", default=os.environ.get("VERIF_TIER", "quick"))
    ap.add_argument("--replay")
    ap.add_argument("--seed", type=int, default=int(os.environ.get("VERIF_SEED", "0") or 0))
    ap.add_argument("--budget", type=float, default=None, help="wall-clock seconds for generated cases")
    ap.add_argument("--no-fresh-probe", action="store_true", help="(internal) do not re-validate a failing case in a fresh process")
    ap.add_argument("--aux-of", default=None,
                    help="run as an auxiliary check of that property: report under its id, summary to replays/")
    args = ap.parse_args()
    pid, tier = args.pid, args.tier
    rid = args.aux_of or pid          # the property id violations are reported under
    t_start = _MONO()

    # 1. parameters
    rc, out = sh(["/venv/bin/python", os.path.join(HERE, "extract_params.py")], cwd=HERE)
    if rc != 0:
        print(out)
        print(f"check {pid}: parameter extraction failed (the tree does not import?)")
        params = None
    else:
        params = json.loads(out.strip().split("\n")[-1])["params"]
        failed_extractors = params.pop("_failed", [])
        if failed_extractors:
            print(f"[{pid}] parameter extractors failed (cached values used): {failed_extractors}")

    mod = importlib.import_module(pid.lower())
    # auxiliary checks (helper theorems + their own correspondence, e.g. the quoting layer): run first,
    # reported under this property's id, summarised in this property's evidence
    aux_results, aux_exit = {}, 0
    if not args.replay and not args.aux_of:
        for aux in getattr(mod, "AUX", []):
            cmd = ["/venv/bin/python", os.path.abspath(__file__), aux, "--tier", tier, "--seed", str(args.seed),
                   "--aux-of", pid]
            rc, out = sh(cmd, cwd=VERIF, timeout=7200)
            print(out.rstrip())
            aux_exit = max(aux_exit, 1 if rc else 0)
            try:
                aux_results[aux] = json.load(open(os.path.join(VERIF, "replays", f"aux-{aux}.json")))
            except Exception:
                aux_results[aux] = {"error": "no summary written", "exit": rc}
                aux_exit = 1
                print(f"VIOLATION property={pid} replay=replays/aux-{aux}.json no-failing-input-found")
    if not args.replay:
        for old in glob.glob(os.path.join(VERIF, "replays", f"{pid}-{args.seed}-*.json")):
            os.remove(old)

    # 2./3. proofs
    proof = build_and_audit(pid, mod)
    if params is not None and failed_extractors:
        mine = [f for f in failed_extractors if f.split(":")[0] in getattr(mod, "PARAM_EXTRACTORS", [])]
        if mine:
            proof["proof_ok"] = False
            proof["broken"].append("parameters could not be re-extracted from the tree: " + "; ".join(mine))
    print(f"[{pid}] proofs: {proof['discharged']}/{proof['obligations']} discharged; "
          + ("ok" if proof["proof_ok"] else "BROKEN: " + "; ".join(proof["broken"])))
    if not proof["proof_ok"]:
        print(proof["log"][-1500:])

    # thorough tier: independent re-check of the compiled proofs
    if tier == "thorough" and proof["proof_ok"]:
        rc, out = sh(["lake", "env", "leanchecker"] + proof["modules"], cwd=LEAN_DIR, timeout=1800)
        proof["leanchecker"] = "ok" if rc == 0 else "FAILED: " + out[-300:]
        print(f"[{pid}] leanchecker: {proof['leanchecker'][:80]}")
        if rc != 0:
            proof["proof_ok"] = False
            proof["broken"].append("leanchecker rejected the compiled modules")

    # 4./5. correspondence
    import vclock  # noqa
    real = vclock.real_monotonic
    from leanproc import Lean
    lean = None
    try:
        lean = Lean()
    except Exception as e:
        print(f"[{pid}] lean driver unavailable: {e}")
    signal.signal(signal.SIGALRM, _alarm)

    stats = {"evaluations": 0, "agree": 0, "spec_on_impl": 0, "nontrivial": set(), "dist": {},
             "samples": [], "largest": []}
    disagreements = []   # (line, impl, model)
    violations = []      # (line, impl, model, spec)
    known = load_known(pid)
    known_hits = {}

    def spec_line(line):
        return mod.spec_line(line) if hasattr(mod, "spec_line") else line

    def specs_for(line):
        return mod.specs_for(line) if hasattr(mod, "specs_for") else mod.SPECS

    def model_request(line, impl):
        if hasattr(mod, "model_request"):
            return mod.model_request(line, impl)
        return mod.KIND + " " + line

    def enough_violations():
        # (cases that exhaust the wall-clock allowance are expensive: two of them are enough)
        return len(violations) >= 5 or sum(1 for v in violations if v[1] == "wall-timeout") >= 2

    recent = []      # the last few case lines run in this process (for failures that need earlier cases)

    def run_one(line, origin):
        recent.append(line)
        del recent[:-4]
        impl = None
        for attempt, wall in enumerate((getattr(mod, "CASE_WALL", 30), 3 * getattr(mod, "CASE_WALL", 30))):
            # the wall-clock guard is a safety net of the harness (real shells, subprocesses); a case that trips it
            # is run once more with three times the allowance before it counts — a loaded machine is not a finding
            try:
                # (repeating: clean-up code that runs while the exception unwinds may block again)
                signal.setitimer(signal.ITIMER_REAL, wall, 3.0)
                try:
                    impl = mod.run_impl(line)
                finally:
                    signal.setitimer(signal.ITIMER_REAL, 0)
                break
            except WallTimeout:
                impl = "wall-timeout"
                stats["dist"]["wall-timeout-attempts"] = stats["dist"].get("wall-timeout-attempts", 0) + 1
            except Exception as e:  # harness-level crash is a disagreement, never silently dropped
                impl = f"harness-exception/{type(e).__name__}/{str(e)[:80].replace(' ', '_')}"
                break
        model = lean.ask(model_request(line, impl))
        stats["evaluations"] += 1
        spec_ok = True
        for sid in specs_for(line):
            v = lean.ask(f"spec {sid} {spec_line(line)} || {impl}")
            stats["spec_on_impl"] += 1
            if v != "1":
                spec_ok = False
        agree = impl == model
        if agree:
            stats["agree"] += 1
        try:
            for k in mod.classify(line, impl):
                stats["dist"][k] = stats["dist"].get(k, 0) + 1
            if mod.nontrivial(line, impl):
                stats["nontrivial"].add(hashlib.sha1(line.encode()).hexdigest())
        except Exception:
            pass
        if len(stats["samples"]) < 3:
            stats["samples"].append({"case": line, "impl_obs": impl, "model_obs": model, "origin": origin})
        if not spec_ok or not agree:
            kf = None
            for k in known:
                try:
                    if getattr(mod, k["key"])(line, impl, model):
                        kf = k
                        break
                except Exception:
                    pass
            if kf is not None:
                known_hits.setdefault(kf["id"], (kf, line))
                return
            if not spec_ok:
                violations.append((line, impl, model, origin, list(recent[:-1])))
            else:
                disagreements.append((line, impl, model, origin))

    def guarded_impl(line):
        try:
            signal.setitimer(signal.ITIMER_REAL, getattr(mod, "CASE_WALL", 30), 3.0)
            try:
                return mod.run_impl(line)
            finally:
                signal.setitimer(signal.ITIMER_REAL, 0)
        except WallTimeout:
            return "wall-timeout"
        except Exception as e:
            return f"harness-exception/{type(e).__name__}/{str(e)[:80].replace(' ', '_')}"

    def still_bad(line):
        """predicate used while shrinking: same kind of failure persists"""
        impl = guarded_impl(line)
        specs = [lean.ask(f"spec {sid} {spec_line(line)} || {impl}") for sid in specs_for(line)]
        if any(s == "bad-op" for s in specs) and not impl.startswith("harness"):
            return None
        return ("spec" if any(s != "1" for s in specs) else
                ("corr" if lean.ask(model_request(line, impl)) != impl else None))

    if args.replay:
        data = json.load(open(args.replay))
        lines = list(data.get("history", [])) + ([data["case"]] if "case" in data else [])
        for line in lines:
            run_one(line, "replay")
    elif lean is not None and params is not None:
        # corpus first
        for path in sorted(glob.glob(os.path.join(VERIF, "corpus", pid, "*.case"))):
            for line in open(path).read().split("\n"):
                line = line.strip()
                if line and not line.startswith("#"):
                    run_one(line, "corpus:" + os.path.basename(path))
        n = mod.QUICK_N if tier == "quick" else mod.THOROUGH_N
        budget = args.budget or (getattr(mod, "QUICK_BUDGET", 60) if tier == "quick" else getattr(mod, "THOROUGH_BUDGET", 900))
        seeds = [args.seed] if tier == "quick" else [args.seed, args.seed + 1, args.seed + 2]
        exhaustive_done = False
        if tier == "thorough" and hasattr(mod, "exhaustive"):
            for line in mod.exhaustive(params):
                run_one(line, "exhaustive")
                if enough_violations():
                    break
            else:
                exhaustive_done = True
        t0 = real()   # the budget is for the generated cases; the exhaustive part is not charged to it
        for sd in seeds:
            rng = random.Random(sd)
            for i in range(n // len(seeds)):
                if real() - t0 > budget or enough_violations():
                    break
                line = mod.gen_case(rng, params)
                run_one(line, f"seed={sd} index={i}")
        stats["exhaustive"] = exhaustive_done

    # 6. verdict
    os.makedirs(os.path.join(VERIF, "replays"), exist_ok=True)
    os.makedirs(os.path.join(VERIF, "evidence"), exist_ok=True)
    out_lines = []
    exit_code = 0
    for kid, (kf, line) in known_hits.items():
        out_lines.append(f"KNOWN-FINDING: property={rid} {kf['id']}: {kf['what']}")

    first_obs = {v[0]: v[1] for v in list(violations) + list(disagreements)}

    def shrink(line):
        if not hasattr(mod, "shrink_candidates"):
            return line
        if first_obs.get(line) == "wall-timeout":
            return line          # every candidate could cost the whole wall-clock allowance again: report it as it is
        kind = still_bad(line)
        if kind is None:
            return line
        t0 = real()
        improved = True
        while improved and real() - t0 < 30:
            improved = False
            for cand in mod.shrink_candidates(line):
                if len(cand) < len(line) and still_bad(cand) == kind:
                    line = cand
                    improved = True
                    break
        return line

    def fails_in_fresh_process(case, history=()):
        """does `case` (after `history`) violate the Spec when replayed in a process of its own?"""
        tmp = os.path.join(VERIF, "replays", f".probe-{pid}-{os.getpid()}.json")
        json.dump({"case": case, "history": list(history)}, open(tmp, "w"))
        try:
            rc, out = sh(["/venv/bin/python", os.path.abspath(__file__), pid, "--replay", tmp, "--no-fresh-probe"],
                         cwd=VERIF, timeout=900)
            return rc == 1 and "no-failing-input-found" not in out
        except Exception:
            return False
        finally:
            if os.path.exists(tmp):
                os.remove(tmp)

    if violations:
        line, impl, model, origin, hist = violations[0]
        small = shrink(line) if lean is not None else line
        history, note = [], ""
        if not args.replay and not args.no_fresh_probe and lean is not None and impl != "wall-timeout":
            # a failure may depend on state the implementation carried over from earlier cases in this process:
            # the replay must fail on its own
            if not fails_in_fresh_process(small):
                if fails_in_fresh_process(line):
                    small = line
                elif fails_in_fresh_process(line, hist):
                    small, history = line, hist
                    note = "fails only after the cases in `history` ran in the same process (state carried between calls)"
                else:
                    note = ("failed in the checking process but not when replayed alone: state carried over from earlier "
                            "cases of the run (re-run the check with the same seed to reproduce)")
        impl_s = guarded_impl(small) if small != line else impl
        model_s = lean.ask(model_request(small, impl_s)) if small != line else model
        rp = os.path.join("replays", f"{pid}-{args.seed}-spec.json")
        json.dump({"property": rid, "check": pid, "kind": "spec-violated-on-implementation", "case": small, "original_case": line,
                   "history": history, "note": note,
                   "origin": origin, "impl_obs": impl_s, "model_obs": model_s,
                   "explain": getattr(mod, "explain", lambda *_: "")(small, impl_s, model_s),
                   "proof_state": proof["broken"], "replay_cmd": f"./check {pid} --replay {rp}"},
                  open(os.path.join(VERIF, rp), "w"), indent=1)
        out_lines.append(f"VIOLATION property={rid} replay={rp}")
        exit_code = 1
    elif disagreements or not proof["proof_ok"] or lean is None or params is None:
        rp = os.path.join("replays", f"{pid}-{args.seed}-unproved.json")
        rec = {"property": rid, "check": pid, "kind": "no-failing-input-found",
               "broken_theorems": proof["broken"], "proof_log_tail": proof["log"][-1500:] if not proof["proof_ok"] else ""}
        if disagreements:
            line, impl, model, origin = disagreements[0]
            small = shrink(line)
            rec.update({"broken_correspondence": f"model {mod.KIND} vs implementation",
                        "case": small, "original_case": line, "origin": origin,
                        "impl_obs": guarded_impl(small), "model_obs": lean.ask(model_request(small, guarded_impl(small))),
                        "n_disagreements": len(disagreements)})
        if lean is None or params is None:
            rec["broken_correspondence"] = "harness could not start (driver or parameter extraction failed)"
        json.dump(rec, open(os.path.join(VERIF, rp), "w"), indent=1)
        out_lines.append(f"VIOLATION property={rid} replay={rp} no-failing-input-found")
        exit_code = 1

    # 7. evidence (not in replay mode)
    wall = _MONO() - t_start
    if not args.replay:
        ev = {
            "property_id": pid, "tier": tier, "seed": args.seed, "level": "proof",
            "coverage": {
                "obligations": proof["obligations"], "discharged": proof["discharged"],
                "checker_cmd": proof.get("build_cmd", "") + " ; " + proof.get("audit_cmd", ""),
                "trusted_base": TRUSTED_BASE_COMMON + list(getattr(mod, "TRUSTED", [])),
                "theorems": list(mod.THEOREMS), "axioms_used": proof.get("axioms_used", []),
                "leanchecker": proof.get("leanchecker", "not run (thorough tier only)"),
                "evaluations": stats["evaluations"], "distinct_nontrivial": len(stats["nontrivial"]),
                "rule": mod.RULE, "samples": stats["samples"],
                "traces_validated_against_impl": stats["agree"], "spec_on_impl": stats["spec_on_impl"],
                "distribution": stats["dist"], "exhaustive": bool(stats.get("exhaustive", False)),
                "params": params, "known_findings_hit": sorted(known_hits),
            },
            "assumptions": list(getattr(mod, "ASSUMPTIONS", [])),
            "wall_s": round(wall, 2), "violations": len(violations) + (1 if exit_code and not violations else 0),
        }
        if os.environ.get("TBOT_VERIF_NOEVIDENCE") == "1" and not args.aux_of:
            pass        # a run against a scratch tree (seeded-change evaluation): evidence/ is for /repo only
        elif args.aux_of:
            cov = ev["coverage"]
            json.dump({"check": pid, "tier": tier, "seed": args.seed, "obligations": cov["obligations"],
                       "discharged": cov["discharged"], "theorems": cov["theorems"], "axioms_used": cov["axioms_used"],
                       "evaluations": cov["evaluations"], "distinct_nontrivial": cov["distinct_nontrivial"],
                       "rule": cov["rule"], "distribution": cov["distribution"], "trusted_base": list(getattr(mod, "TRUSTED", [])),
                       "assumptions": ev["assumptions"], "violations": ev["violations"], "wall_s": ev["wall_s"]},
                      open(os.path.join(VERIF, "replays", f"aux-{pid}.json"), "w"), indent=1)
        else:
            if aux_results:
                ev["coverage"]["aux_checks"] = aux_results
                ev["violations"] += sum(int(a.get("violations", 1)) for a in aux_results.values())
            json.dump(ev, open(os.path.join(VERIF, "evidence", f"{pid}.json"), "w"), indent=1)
    print(f"[{pid}] tier={tier} seed={args.seed} cases={stats['evaluations']} agree={stats['agree']} "
          f"nontrivial={len(stats['nontrivial'])} spec_evals={stats['spec_on_impl']} wall={wall:.1f}s")
    for l in out_lines:
        print(l)
    if lean is not None:
        lean.close()
    sys.exit(max(exit_code, aux_exit))


if __name__ == "__main__":
    main()
