"""Run a board bring-up case (wire form of lean/TbotVerif/Model/Board.lean) on the REAL tbot
classes — `UBootAutobootIntercept`, `UBootShell`, `AskfirstInitializer`, `LinuxBootLogin`,
`LinuxUbootConnector`, `board.Connector`, `PowerControl`, `Board` — composed on an instrumented
power-controlled board whose channel is the reactive console of boardio.py, under the virtual
clock.  Nothing in tbot is hooked: the observation points are the transport (`ChannelIO`), the
`poweron`/`poweroff` callbacks, the documented `init()` and `do_boot()` hooks and the `bootlog`
attributes.

case  = <chunk> <cap> <ub|-> <lnx|-> <init> <stage>*
  ub    = <autoboot Pat|~>;<keys hex>;<prompt hex>;<boot_timeout ticks|->
  lnx   = <askfirst hex|~>;<login hex>;<login_delay ticks>;<user hex>;<password hex|~>;<password Pat>;
          <no_password_timeout ticks|->;<boot_timeout ticks|->
  init  = <dt>@<hex>,… | .        stage = <a|c>:<dt>@<hex>,… (`.` = no output)
obs   = <ok|exception tag> <uboot bootlog chars|~> <linux bootlog chars|~> <event>*
  event = on/<t> off/<t> u/<t> b/<t> l/<t> r/<n>/<timeout|->/<t0>/<t1>/<hex|!> w/<t>/<hex>"""
import contextlib
import time
import zlib
import vclock
vclock.install()
import tbot  # noqa: E402
import tbot.error  # noqa: E402
from tbot.machine import board, connector, shell  # noqa: E402
from tbot.machine.channel import channel as tch  # noqa: E402
import mockio  # noqa: E402
import regen  # noqa: E402
import boardio  # noqa: E402
from wire import hx, unhx, chars  # noqa: E402

tbot.log.VERBOSITY = -1

_state = {"cap": None}


def _sleep(secs):
    """`time.sleep` under the virtual clock, with the virtual-time cap of the running case"""
    vclock.CLOCK.sleep(secs)
    cap = _state["cap"]
    if vclock.CLOCK.active and cap is not None and vclock.CLOCK.ticks > cap:
        raise boardio.Cap()


time.sleep = _sleep

# the default autoboot prompt, in the regex subset of Base/Re.lean (checked against the source of
# the class attribute by boardextract.py)
DEFAULT_AUTOBOOT_SRC = b"autoboot:\\s{0,5}\\d{0,3}\\s{0,3}.{0,80}"


def default_autoboot_re():
    sp = regen.Cls([(9, 13), (32, 32)])
    dg = regen.Cls([(48, 57)])
    dot = regen.Cls([(10, 10)], neg=True)
    parts = [regen.lit(b"autoboot:"), regen.Rep(sp, 0, 5), regen.Rep(dg, 0, 3), regen.Rep(sp, 0, 3),
             regen.Rep(dot, 0, 80)]
    r = parts[-1]
    for p in reversed(parts[:-1]):
        r = regen.Seq(p, r)
    return r


DEFAULT_AUTOBOOT_WIRE = "X" + default_autoboot_re().wire()


def optn(s):
    return None if s == "-" else int(s)


def secs(s):
    return None if s == "-" else int(s) * vclock.TICK


def parse_pieces(s):
    out = []
    if s != ".":
        for p in s.split(","):
            t, h = p.split("@")
            out.append((int(t), unhx(h)))
    return out


def text_arg(b: bytes):
    """tbot takes user names, passwords and prompts as `str`; pass bytes only when they are not UTF-8"""
    try:
        return b.decode("utf-8")
    except UnicodeDecodeError:
        return b


def exc_tag(e):
    if isinstance(e, TimeoutError):
        return "timeout"
    if isinstance(e, mockio.Hang):
        return "hang"
    if isinstance(e, boardio.Cap):
        return "fuel"
    if isinstance(e, tbot.error.IllegalDataException):
        return "illegal"
    if isinstance(e, AssertionError):
        return "assert"
    return "other/" + type(e).__name__


def run_case(line: str) -> str:
    with vclock.CLOCK:
        try:
            return _run_case(line)
        finally:
            _state["cap"] = None


def _run_case(line: str) -> str:
    toks = line.split()
    chunk, cap, ubs, lnxs, init = int(toks[0]), int(toks[1]), toks[2], toks[3], parse_pieces(toks[4])
    stages = []
    for st in toks[5:]:
        trig, pcs = st.split(":")
        assert trig in ("a", "c")
        stages.append((trig, parse_pieces(pcs)))
    if ubs == "-" and lnxs == "-":
        raise ValueError("neither U-Boot nor Linux configured")
    clk = vclock.CLOCK
    clk.reset(0)
    _state["cap"] = cap
    trace = []
    io = boardio.ReactiveIO(init, stages, trace)
    ch = tch.Channel(io)
    if chunk != tch.Channel.READ_CHUNK_SIZE:
        ch.__class__ = type("ChannelChunk", (tch.Channel,), {"READ_CHUNK_SIZE": chunk, "__slots__": ()})
    if zlib.crc32(line.encode()) % 2 == 1:
        # the console channel was used by another machine before (e.g. the channel `UBootShell.boot()` returned, or a
        # board console shared with an earlier shell): it carries that machine's prompt and write black-list
        import shellio
        ch._write_blacklist = list(shellio.FOREIGN_BLACKLIST)
        ch.prompt = shellio.FOREIGN_PROMPT
        ch = ch.take()

    class Conn(connector.Connector):
        def _connect(self):
            return ch

        def clone(self):
            raise NotImplementedError

    class Brd(Conn, board.PowerControl, board.Board):
        name = "verif-board"

        def poweron(self):
            trace.append(f"on/{clk.ticks}")
            io.power_on()

        def poweroff(self):
            trace.append(f"off/{clk.ticks}")

    ub_instances, lnx_instances = [], []
    UB = None
    if ubs != "-":
        auto, keys, prompt, T = ubs.split(";")
        attrs = {"name": "verif-uboot", "autoboot_keys": unhx(keys), "prompt": text_arg(unhx(prompt)),
                 "boot_timeout": secs(T)}
        if auto == "~":
            attrs["autoboot_prompt"] = None
        elif auto != DEFAULT_AUTOBOOT_WIRE:
            attrs["autoboot_prompt"] = regen.pat_of_wire(auto).api()
        # else: the class default is used as it is

        def ub_new(self, b):
            ub_instances.append(self)
            board.Connector.__init__(self, b)

        def ub_ready(self):
            trace.append(f"u/{clk.ticks}")

        attrs["__init__"] = ub_new
        attrs["init"] = ub_ready
        UB = type("VerifUBoot", (board.Connector, board.UBootAutobootIntercept, board.UBootShell), attrs)

    LNX = None
    if lnxs != "-":
        ask, login, delay, user, pw, pwpat, npt, T = lnxs.split(";")
        attrs = {"name": "verif-linux", "login_prompt": text_arg(unhx(login)),
                 "login_delay": int(delay) * vclock.TICK if int(delay) else 0,
                 "username": text_arg(unhx(user)), "password": None if pw == "~" else text_arg(unhx(pw)),
                 "no_password_timeout": secs(npt), "boot_timeout": secs(T)}
        pp = regen.pat_of_wire(pwpat)
        attrs["password_prompt"] = text_arg(pp.value) if pp.kind == "lit" else pp.api()
        bases = []
        if ask != "~":
            bases.append(board.AskfirstInitializer)
            attrs["askfirst_prompt"] = text_arg(unhx(ask))
        bases += [board.LinuxBootLogin, shell.RawShell]

        def lnx_ready(self):
            trace.append(f"l/{clk.ticks}")

        attrs["init"] = lnx_ready
        if UB is None:
            def lnx_new(self, b):
                lnx_instances.append(self)
                board.Connector.__init__(self, b)

            attrs["__init__"] = lnx_new
            LNX = type("VerifLinux", tuple([board.Connector] + bases), attrs)
        else:
            def lnx_new(self, b):
                lnx_instances.append(self)
                board.LinuxUbootConnector.__init__(self, b)

            def do_boot(self, ub):
                res = board.LinuxUbootConnector.do_boot(self, ub)
                trace.append(f"b/{clk.ticks}")
                return res

            attrs["__init__"] = lnx_new
            attrs["uboot"] = UB
            attrs["do_boot"] = do_boot
            LNX = type("VerifLinux", tuple([board.LinuxUbootConnector] + bases), attrs)

    res = "ok"
    try:
        with contextlib.ExitStack() as cx:
            b = cx.enter_context(Brd())
            cx.enter_context((LNX or UB)(b))
    except (Exception, mockio.Hang, boardio.Cap) as e:
        res = exc_tag(e)
    _state["cap"] = None

    def log_of(insts):
        if not insts or not hasattr(insts[0], "bootlog"):
            return "~"
        return chars(insts[0].bootlog)

    return " ".join([res, log_of(ub_instances), log_of(lnx_instances)] + trace)



import verbosity  # noqa: E402
run_case = verbosity.wrap(run_case)   # one case in eight runs at Verbosity.CHANNEL

if __name__ == "__main__":
    import sys
    for ln in sys.stdin:
        print(run_case(ln.strip()))
