"""Parameters of the board bring-up model (C18), observed from the running code under the virtual
clock: the period of the U-Boot prompt loop (read timeout + sleep), the U-Boot write black-list,
the line `do_boot()` sends, the default prompts and time-outs."""


def extract(p: dict) -> None:
    import boardimpl as bi
    from tbot.machine import board
    from wire import hx

    def pcs(l):
        return ",".join(f"{t}@{hx(d)}" for t, d in l) if l else "."

    # Observed values; if the tree under test is so broken that an observation run does not get
    # through, the last known values are kept (the correspondence check then shows the failing
    # input instead of the harness refusing to start) and `boardExtractOk` says so.
    ok = True
    try:
        # a silent console, boot_timeout = 3 s: the first transport read carries the poll read
        # time-out, the distance between two polls is the period
        obs = bi.run_case(f"4096 100000 ~;0d;{hx(b'=> ')};3072 - . a:.").split()
        reads = [t.split("/") for t in obs if t.startswith("r/")]
        p["ubootPollRead"] = int(reads[0][2])
        p["ubootPollSleep"] = int(reads[1][3]) - int(reads[0][4])
    except Exception:
        ok = False
        p["ubootPollRead"], p["ubootPollSleep"] = 512, 512
    try:
        # black-list and boot command: boot Linux through U-Boot on a console that answers at once
        ub = f"~;0d;{hx(b'=> ')};-"
        lnx = f"~;{hx(b'login: ')};0;{hx(b'root')};~;L{hx(b'assword: ')};-;-"
        seen = {}
        orig = board.LinuxBootLogin._init_machine

        def spy(self):
            seen["bl"] = bytes(sorted(self.ch._write_blacklist))
            return orig(self)

        board.LinuxBootLogin._init_machine = spy
        try:
            obs = bi.run_case(f"4096 100000 {ub} {lnx} {pcs([(0, b'=> ')])} "
                              f"c:{pcs([(0, b'x' * 64 + b'login: ')])}").split()
        finally:
            board.LinuxBootLogin._init_machine = orig
        writes = [bytes.fromhex(t.split("/")[2]) for t in obs if t.startswith("w/")]
        assert obs[0] == "ok" and writes[0].endswith(b"\r")
        p["ubootBlacklist"] = seen["bl"]
        p["ubootBootCmd"] = writes[0][:-1]
    except Exception:
        ok = False
        p["ubootBlacklist"] = bytes([0, 1, 2, 3, 4, 5, 6, 7, 8, 9, 11, 12, 14, 15, 16, 17, 18, 19, 20, 21, 22, 23, 24, 26,
                                     27, 28, 127])
        p["ubootBootCmd"] = b"boot"
    p["boardExtractOk"] = ok
    # defaults of the classes
    p["ubootPromptDefault"] = board.UBootShell.prompt.encode() if isinstance(board.UBootShell.prompt, str) else bytes(board.UBootShell.prompt)
    p["loginPromptDefault"] = board.LinuxBootLogin.login_prompt.encode()
    pw = board.LinuxBootLogin.password_prompt
    p["passwordPromptDefault"] = pw.encode() if isinstance(pw, str) else bytes(pw)
    p["askfirstPromptDefault"] = board.AskfirstInitializer.askfirst_prompt.encode()
    p["autobootKeysDefault"] = (board.UBootAutobootIntercept.autoboot_keys.encode()
                               if isinstance(board.UBootAutobootIntercept.autoboot_keys, str)
                               else bytes(board.UBootAutobootIntercept.autoboot_keys))
    npt = board.LinuxBootLogin.no_password_timeout
    p["noPasswordTimeoutDefault"] = int(round(npt * 1024))
    # is the default autoboot prompt still the one translated to the regex subset by hand?
    ap = board.UBootAutobootIntercept.autoboot_prompt
    p["autobootDefaultInSubset"] = bool(getattr(ap, "pattern", None) == bi.DEFAULT_AUTOBOOT_SRC and ap.flags == 0)
    p["autobootDefaultWire"] = bi.DEFAULT_AUTOBOOT_WIRE
