"""C16 (cluster Tc): testcase trees — wire syntax, Python source rendering, generators.

Case line:  <mode> <nest0> <node>*      mode ip|newbot|newbotk|tbot (newbotk = `newbot -k`, every testcase body uses a machine of tbot.ctx), nodes in pre-order, each
            <guard><form><id>:<fin>:<number of children>
            guard n|e|a  (call unguarded / in `except Exception` / in `except BaseException`)
            form  d|m|w  (@tbot.testcase / @tbot.named_testcase / with tbot.testcase(...))
            fin   p|x|s|k (pass / an Exception subclass / tbot.skip / KeyboardInterrupt)
The same syntax is parsed by lean/TbotVerif/Driver/Tc.lean."""
import itertools

GUARDS, FORMS, FINS = "nea", "dmw", "pxsk"


class Node:
    __slots__ = ("guard", "form", "id", "fin", "kids")

    def __init__(self, guard, form, id_, fin, kids=None):
        self.guard, self.form, self.id, self.fin, self.kids = guard, form, id_, fin, list(kids or [])

    @property
    def name(self):
        return f"{self.form}{self.id}"

    def tokens(self):
        out = [f"{self.guard}{self.form}{self.id}:{self.fin}:{len(self.kids)}"]
        for k in self.kids:
            out += k.tokens()
        return out

    def size(self):
        return 1 + sum(k.size() for k in self.kids)

    def depth(self):
        return 1 + max((k.depth() for k in self.kids), default=0)

    def walk(self):
        yield self
        for k in self.kids:
            yield from k.walk()

    def copy(self):
        return Node(self.guard, self.form, self.id, self.fin, [k.copy() for k in self.kids])


class Case:
    def __init__(self, mode, nest0, roots):
        self.mode, self.nest0, self.roots = mode, nest0, roots

    def line(self):
        toks = [self.mode, str(self.nest0)]
        for r in self.roots:
            toks += r.tokens()
        return " ".join(toks)

    def nodes(self):
        for r in self.roots:
            yield from r.walk()

    def wellformed(self):
        if self.mode == "ip":
            return True
        if self.nest0 != 0 or any(r.form == "w" or r.guard != "n" for r in self.roots):
            return False
        # names are unique — except that a top-level testcase may be scheduled more than once (the same subtree again)
        seen = {}
        for r in self.roots:
            toks = " ".join(r.tokens())
            names = [n.name for n in r.walk()]
            if len(set(names)) != len(names):
                return False
            if toks in seen.values():
                continue
            if any(n in seen for n in names):
                return False
            for n in names:
                seen[n] = toks
        return True


def _parse_nodes(toks, pos, count):
    out = []
    for _ in range(count):
        head, fin, k = toks[pos].split(":")
        guard, form, id_ = head[0], head[1], head[2:]
        if guard not in GUARDS or form not in FORMS or fin not in FINS or not id_.isdigit() or not k.isdigit():
            raise ValueError(toks[pos])
        pos += 1
        kids, pos = _parse_nodes(toks, pos, int(k))
        out.append(Node(guard, form, int(id_), fin, kids))
    return out, pos


def parse(line):
    toks = line.split()
    mode, nest0 = toks[0], int(toks[1])
    if mode not in ("ip", "newbot", "newbotk", "tbot"):
        raise ValueError(mode)
    roots, pos = [], 2
    while pos < len(toks):
        one, pos = _parse_nodes(toks, pos, 1)
        roots += one
    return Case(mode, nest0, roots)


# ---- rendering as Python source ---------------------------------------------------------------

PROLOGUE = '''\
import tbot
import tbot.log

UNIT = object()


class Boom(Exception):
    """a user-defined failure"""


ERRORS = (RuntimeError, AssertionError, ValueError, Boom)


def T(kind, name, val):
    """a mark of the program under test in tbot's own log (never printed)"""
    tbot.log.EventIO(["xt", kind], "", verbosity=tbot.log.Verbosity.CHANNEL, name=name, val=val)


def tag(e):
    if type(e) in ERRORS:
        return "x"
    if type(e) is tbot.SkipException:
        return "s"
    if type(e) is KeyboardInterrupt:
        return "k"
    return "o" + type(e).__name__


def val(r):
    if r is UNIT:
        return "unit"
    if r is None:
        return "none"
    if type(r) is int:
        return "v%d" % r
    return "o" + type(r).__name__

'''


class _Render:
    def __init__(self):
        self.defs = []      # module-level function definitions, children before parents
        self.sym = {}       # id(node) -> callable symbol
        self.count = 0

    def body(self, node, ind):
        """the statements of the body of `node` (shared by all forms)"""
        p = " " * ind
        out = [f"{p}try:", f"{p}    T('I', '{node.name}', tbot.log.NESTING)"]
        out += self.calls(node.kids, ind + 4)
        if node.fin == "p":
            out.append(f"{p}    T('Y', '{node.name}', '-')")
            if node.form != "w":
                out.append(f"{p}    return {node.id}")
        elif node.fin == "x":
            if node.id % 4 == 1:
                out.append(f"{p}    assert tbot is None, 'boom in {node.name}'")
            else:
                out.append(f"{p}    raise ERRORS[{node.id % 4}]('boom in {node.name}')")
        elif node.fin == "s":
            # four surface forms of a skip, incl. a skip WITHOUT a reason text
            k = node.id % 4
            if k == 1 and node.id % 8 == 1:
                # a long reason (anything that shortens or wraps the one-line summary has to cope with it)
                out.append(f"{p}    tbot.skip('skipping {node.name} because ' + 'the prerequisite is not available on this board; ' * 3)")
            elif k == 1:
                out.append(f"{p}    tbot.skip('skipping {node.name}')")
            elif k == 2:
                out.append(f"{p}    raise tbot.SkipException('skipping {node.name}')")
            elif k == 3:
                out.append(f"{p}    tbot.skip('')")
            else:
                out.append(f"{p}    raise tbot.SkipException()")
        elif node.fin == "k":
            out.append(f"{p}    raise KeyboardInterrupt()")
        out += [f"{p}except BaseException as e:", f"{p}    T('Y', '{node.name}', tag(e))", f"{p}    raise"]
        return out

    def define(self, node):
        """module-level definition of a function-form testcase; returns the symbol to call"""
        self.count += 1
        sym = f"g{self.count}"
        body = self.body(node, 4)
        if node.form == "d":
            fn = node.name
            deco = "@tbot.testcase"
        else:
            fn = f"f_{node.name}"
            deco = f"@tbot.named_testcase('{node.name}')"
        self.defs.append("\n".join([deco, f"def {fn}():"] + body + ["", f"{sym} = {fn}", "", ""]))
        return sym

    def calls(self, nodes, ind):
        """the calls of sibling testcases in order.  When a sibling's exception is caught by its
        caller, the NEXT sibling is sometimes run INSIDE that `except` block (a recovery testcase
        called while the exception is still being handled) — the sequence of calls is the same."""
        out = []
        i = 0
        while i < len(nodes):
            n = nodes[i]
            if n.guard in ("e", "a") and i + 1 < len(nodes) and n.id % 3 != 1:
                out += self.call(n, ind, recover=nodes[i + 1])
                i += 2
            else:
                out += self.call(n, ind)
                i += 1
        return out

    def call(self, node, ind, recover=None):
        """the guarded call of `node` as written in its caller"""
        p = " " * ind
        out = []
        flag = None
        rec = []
        if recover is not None:
            self.count += 1
            flag = f"_caught{self.count}"
            out.append(f"{p}{flag} = False")
            rec = [f"{p}    {flag} = True"] + self.call(recover, ind + 4)
        out.append(f"{p}try:")
        if node.form == "w":
            out.append(f"{p}    with tbot.testcase('{node.name}'):")
            out += self.body(node, ind + 8)
            out.append(f"{p}    r = UNIT")
        else:
            # children are defined first so that the symbol exists; order of definition is irrelevant
            sym = self.sym.get(id(node)) or self.define(node)
            self.sym[id(node)] = sym
            if node.id % 5 == 2:
                # called inside a block that adjusts the log verbosity (to what it already is): tbot's own context
                # managers around a testcase must let its exception — a failure, a skip, ^C — pass
                out.append(f"{p}    r = UNIT")
                out.append(f"{p}    with tbot.log.with_verbosity(tbot.log.VERBOSITY):")
                out.append(f"{p}        r = {sym}()")
            else:
                out.append(f"{p}    r = {sym}()")
        mark = f"T('R', '{node.name}', tag(e))"
        if node.guard == "e":
            out += [f"{p}except Exception as e:", f"{p}    {mark}"] + rec
        if node.guard == "a":
            out += [f"{p}except BaseException as e:", f"{p}    {mark}"] + rec
        else:
            out += [f"{p}except BaseException as e:", f"{p}    {mark}", f"{p}    raise"]
        out += [f"{p}else:", f"{p}    T('R', '{node.name}', val(r))"]
        if recover is not None:
            out.append(f"{p}if not {flag}:")
            out += self.call(recover, ind + 4)
        return out


def render(case, epilogue=""):
    """Python module for the case.  ip: defines `drive()`.  CLI: the roots are module-level
    testcases; returns (source, [symbol names of the roots], [event names of the roots])."""
    r = _Render()
    if case.mode == "ip":
        drive = ["def drive():"]
        drive += r.calls(case.roots, 4)
        drive.append("    return None")
        src = PROLOGUE + "".join(d for d in r.defs) + "\n".join(drive) + "\n"
        return src, [], []
    fns = []
    for root in case.roots:
        r.sym[id(root)] = r.define(root)
        fns.append(root.name if root.form == "d" else f"f_{root.name}")
    src = PROLOGUE + epilogue + "".join(d for d in r.defs)
    return src, fns, [root.name for root in case.roots]


# ---- generators -------------------------------------------------------------------------------

def _pick(rng, weighted):
    return rng.choices([w[0] for w in weighted], [w[1] for w in weighted])[0]


FIN_W = [("p", 50), ("x", 20), ("s", 18), ("k", 12)]
GUARD_W = [("n", 50), ("e", 32), ("a", 18)]
FORM_W = [("d", 40), ("m", 25), ("w", 35)]


def gen_tree(rng, budget, depth, counter, cli_root=False):
    """random node with at most `budget` nodes and `depth` levels; ids from `counter`"""
    id_ = next(counter)
    form = _pick(rng, [("d", 60), ("m", 40)]) if cli_root else _pick(rng, FORM_W)
    guard = "n" if cli_root else _pick(rng, GUARD_W)
    node = Node(guard, form, id_, _pick(rng, FIN_W))
    budget -= 1
    if depth > 1 and budget > 0:
        nk = _pick(rng, [(0, 25), (1, 35), (2, 25), (3, 15)])
        for _ in range(nk):
            if budget <= 0:
                break
            share = rng.randint(1, budget)
            kid = gen_tree(rng, share, depth - 1, counter)
            node.kids.append(kid)
            budget -= kid.size()
    return node


def gen_forest(rng, mode, max_nodes=12, max_depth=4):
    counter = itertools.count(1)
    cli = mode != "ip"
    style = rng.random()
    roots = []
    if style < 0.04:
        return roots                                   # nothing to run
    if style < 0.16:
        # a chain: one exception travelling up through every form and guard
        depth = rng.randint(2, max_depth + 1)
        if rng.random() < 0.12:
            depth = rng.randint(9, 15)                 # a deep chain (nesting levels beyond 10)
        leaf_fin = _pick(rng, [("x", 35), ("s", 25), ("k", 35), ("p", 5)])
        node = None
        nodes = []
        for lvl in range(depth):
            n = Node("n" if (cli and lvl == 0) else _pick(rng, GUARD_W),
                     # (deep chains use the function forms only: Python limits statically nested blocks)
                     _pick(rng, [("d", 60), ("m", 40)]) if ((cli and lvl == 0) or depth > 6) else _pick(rng, FORM_W),
                     next(counter), "p")
            nodes.append(n)
        for a, b in zip(nodes, nodes[1:]):
            a.kids.append(b)
        nodes[-1].fin = leaf_fin
        roots.append(nodes[0])
        if rng.random() < 0.5:
            roots.append(gen_tree(rng, 3, 2, counter, cli_root=cli))
        return roots
    n_roots = _pick(rng, [(1, 35), (2, 30), (3, 20), (4, 15)])
    budget = rng.randint(n_roots, max_nodes)
    for i in range(n_roots):
        left = n_roots - i - 1
        share = rng.randint(1, max(1, budget - left))
        t = gen_tree(rng, share, max_depth, counter, cli_root=cli)
        if cli and style < 0.45 and i < n_roots - 1:
            t.fin = "p" if rng.random() < 0.8 else t.fin     # let later top-level testcases be reached
        roots.append(t)
        budget -= t.size()
    if not cli and rng.random() < 0.1:
        # the same name twice (the same testcase called again / name clashes)
        ns = [n for r in roots for n in r.walk()]
        if len(ns) >= 2:
            a, b = rng.sample(ns, 2)
            b.id, b.form = a.id, a.form
    return roots


def gen_case(rng, mode):
    nest0 = rng.choice([0, 0, 1, 2, 5, 8, 30]) if mode == "ip" else 0
    roots = gen_forest(rng, mode)
    if mode != "ip" and roots and rng.random() < 0.12:
        # the command line names a testcase twice (`tbot provision check provision`): it runs twice
        r = rng.choice(roots)
        roots.insert(rng.randint(roots.index(r) + 1, len(roots)), r.copy())
    return Case(mode, nest0, roots)


def shrink_candidates(line):
    """smaller variants: drop a subtree, hoist a node's children into its place, simplify labels"""
    try:
        case = parse(line)
    except Exception:
        return
    seen = set()

    def emit(c):
        if c.wellformed():
            l = c.line()
            if l != line and l not in seen:
                seen.add(l)
                return l
        return None

    def variants(nodes, top):
        # yields new lists of nodes
        for i, n in enumerate(nodes):
            yield nodes[:i] + nodes[i + 1:]
            hoisted = [k.copy() for k in n.kids]
            if top and case.mode != "ip":
                hoisted = [k for k in hoisted if k.form != "w"]
                for k in hoisted:
                    k.guard = "n"
            if n.kids:
                yield nodes[:i] + hoisted + nodes[i + 1:]
            for sub in variants(n.kids, False):
                m = Node(n.guard, n.form, n.id, n.fin, sub)
                yield nodes[:i] + [m] + nodes[i + 1:]
            for attr, simple in (("fin", "p"), ("guard", "n"), ("form", "d")):
                if getattr(n, attr) != simple:
                    m = n.copy()
                    setattr(m, attr, simple)
                    yield nodes[:i] + [m] + nodes[i + 1:]

    for roots in variants(case.roots, True):
        l = emit(Case(case.mode, case.nest0, roots))
        if l:
            yield l
    if case.nest0:
        yield Case(case.mode, 0, case.roots).line()
    # renumber to small ids (shorter line)
    ren = Case(case.mode, case.nest0, [r.copy() for r in case.roots])
    mapping = {}
    for n in ren.nodes():
        mapping.setdefault((n.form, n.id), len(mapping) + 1)
    for n in ren.nodes():
        n.id = mapping[(n.form, n.id)]
    l = emit(ren)
    if l:
        yield l
