"""Regex subset shared with lean/TbotVerif/Base/Re.lean: trees, Python source, wire form."""
# (classes, sequence, alternation, bounded repetition, \\Z, positive look-ahead)
import re, zlib


class Re:
    pass


class Eps(Re):
    def py(self): return b"(?:)"
    def wire(self): return "E"
    def nullable(self): return True


class Eos(Re):
    def py(self): return b"\\Z"
    def wire(self): return "Z"
    def nullable(self): return True


class Cls(Re):
    def __init__(self, ranges, neg=False):
        self.ranges = [(int(a), int(b)) for a, b in ranges]
        self.neg = neg

    def py(self):
        # a single byte >= 0x80 is written as itself (a literal non-ASCII byte in the pattern source, as in
        # re.compile("➜ ".encode())), everything else as a \\xNN escape
        body = b"".join(
            (bytes([a]) if a >= 0x80 else b"\\x%02x" % a) if a == b else (b"\\x%02x-\\x%02x" % (a, b)) for a, b in self.ranges
        )
        if not self.neg and len(self.ranges) == 1 and self.ranges[0][0] == self.ranges[0][1] >= 0x80:
            return bytes([self.ranges[0][0]])       # a bare literal byte, so that consecutive ones form UTF-8 text
        if not self.ranges:
            # empty class: never matches / always matches
            return b"[\\x00-\\xff]" if self.neg else b"[^\\x00-\\xff]"
        return b"[" + (b"^" if self.neg else b"") + body + b"]"

    def wire(self):
        return "C" + ("1" if self.neg else "0") + "%02x" % len(self.ranges) + "".join(
            "%02x%02x" % r for r in self.ranges)

    def nullable(self): return False


class Seq(Re):
    def __init__(self, a, b): self.a, self.b = a, b
    def py(self): return b"(?:" + self.a.py() + self.b.py() + b")"
    def wire(self): return "S" + self.a.wire() + self.b.wire()
    def nullable(self): return self.a.nullable() and self.b.nullable()


class Alt(Re):
    def __init__(self, a, b): self.a, self.b = a, b
    def py(self): return b"(?:" + self.a.py() + b"|" + self.b.py() + b")"
    def wire(self): return "A" + self.a.wire() + self.b.wire()
    def nullable(self): return self.a.nullable() or self.b.nullable()


class Rep(Re):
    def __init__(self, r, lo, hi): self.r, self.lo, self.hi = r, lo, hi
    def py(self): return b"(?:" + self.r.py() + b"){%d,%d}" % (self.lo, self.hi)
    def wire(self): return "R%04x%04x" % (self.lo, self.hi) + self.r.wire()
    def nullable(self): return self.lo == 0 or self.r.nullable()


class La(Re):
    """positive look-ahead `(?=r)`: consumes nothing; CPython counts it as width 0"""
    def __init__(self, r): self.r = r
    def py(self): return b"(?=" + self.r.py() + b")"
    def wire(self): return "P" + self.r.wire()
    def nullable(self): return True


def sample(r: Re, rng) -> bytes:
    """some string of the language of `r` (uniform choices; `Eos` contributes nothing)"""
    if isinstance(r, Cls):
        if not r.neg:
            a, b = rng.choice(r.ranges)
            return bytes([rng.randint(a, b)])
        ok = [c for c in b"ABxab >\r" if not any(a <= c <= b for a, b in r.ranges)]
        return bytes([rng.choice(ok)]) if ok else b"\x7e"
    if isinstance(r, Seq):
        return sample(r.a, rng) + sample(r.b, rng)
    if isinstance(r, Alt):
        return sample(rng.choice([r.a, r.b]), rng)
    if isinstance(r, Rep):
        return b"".join(sample(r.r, rng) for _ in range(rng.randint(r.lo, r.hi)))
    return b""


def lit(b: bytes) -> Re:
    if not b:
        return Eps()
    r = Cls([(b[-1], b[-1])])
    for c in reversed(b[:-1]):
        r = Seq(Cls([(c, c)]), r)
    return r


def gen(rng, alphabet: bytes, depth=3, allow_eos=False) -> Re:
    """random tree; repetition bodies are never nullable (CPython's empty-iteration rule is
    outside the modelled subset)"""
    if depth <= 0 or rng.random() < 0.3:
        k = rng.random()
        if k < 0.6:
            c = rng.choice(alphabet)
            return Cls([(c, c)])
        if k < 0.8:
            a, b = sorted((rng.choice(alphabet), rng.choice(alphabet)))
            return Cls([(a, b)], neg=rng.random() < 0.25)
        if k < 0.9:
            return Cls([(10, 10)], neg=True)  # `.`
        return lit(bytes(rng.choice(alphabet) for _ in range(rng.randint(1, 3))))
    k = rng.random()
    if k < 0.45:
        return Seq(gen(rng, alphabet, depth - 1), gen(rng, alphabet, depth - 1))
    if k < 0.65:
        return Alt(gen(rng, alphabet, depth - 1), gen(rng, alphabet, depth - 1))
    for _ in range(10):
        body = gen(rng, alphabet, depth - 1)
        if not body.nullable():
            break
    else:
        body = Cls([(alphabet[0], alphabet[0])])
    lo = rng.randint(0, 2)
    return Rep(body, lo, lo + rng.randint(0, 2))


def _swapcase(c):
    return c ^ 0x20 if (65 <= c <= 90 or 97 <= c <= 122) else c


def fold(r: Re) -> Re:
    """the regex that, matched case-SENSITIVELY, accepts what `r` accepts under re.IGNORECASE (bytes patterns:
    ASCII letters only): every class gets the other-case variants of its members; negation is applied afterwards"""
    if isinstance(r, Cls):
        members = {c for a, b in r.ranges for c in range(a, b + 1)}
        members |= {_swapcase(c) for c in members}
        ranges, run = [], None
        for c in sorted(members):
            if run and c == run[1] + 1:
                run[1] = c
            else:
                run = [c, c]
                ranges.append(run)
        return Cls([tuple(x) for x in ranges], r.neg)
    if isinstance(r, Seq):
        return Seq(fold(r.a), fold(r.b))
    if isinstance(r, Alt):
        return Alt(fold(r.a), fold(r.b))
    if isinstance(r, Rep):
        return Rep(fold(r.r), r.lo, r.hi)
    if isinstance(r, La):
        return La(fold(r.r))
    return r


def fold_field(f: str) -> str:
    """wire field `I<regex>` (compiled with re.IGNORECASE by the harness) -> `X<folded regex>` for the Lean side"""
    return "X" + fold(parse_wire(f[1:])).wire() if f[:1] == "I" and len(f) > 1 and f[1] in "EZSARCP" else f


class Pat:
    """a channel search string: literal bytes / str, or a compiled bounded regex"""

    def __init__(self, kind, value, as_str=False, icase=False):
        self.kind = kind          # "lit" | "re"
        self.value = value        # bytes | Re
        self.as_str = as_str      # pass literal as `str` to the API
        self.icase = icase        # compile with re.IGNORECASE (wire prefix `I`)

    def wire(self):
        from wire import hx
        return ("L" + hx(self.value)) if self.kind == "lit" else (("I" if self.icase else "X") + self.value.wire())

    def api(self):
        if self.kind == "lit":
            if self.as_str:
                try:
                    return self.value.decode("utf-8")
                except UnicodeDecodeError:
                    return self.value
            return self.value
        compiled = re.compile(self.value.py(), re.DOTALL | (re.IGNORECASE if self.icase else 0))
        if zlib.crc32(self.wire().encode()) % 3 == 0:
            # the documented third form of a search string: a ready-made BoundedPattern
            from tbot.machine.channel import channel as tch
            return tch.BoundedPattern(compiled)
        return compiled

    def raw(self) -> bytes:
        return self.value if self.kind == "lit" else b""

    def to_json(self):
        return {"kind": self.kind, "wire": self.wire(),
                "py": (repr(self.value) if self.kind == "lit" else repr(self.value.py()))}


def parse_wire(s: str) -> Re:
    pos = 0

    def rd():
        nonlocal pos
        c = s[pos]; pos += 1
        if c == "E": return Eps()
        if c == "Z": return Eos()
        if c == "S":
            a = rd(); b = rd(); return Seq(a, b)
        if c == "A":
            a = rd(); b = rd(); return Alt(a, b)
        if c == "P":
            return La(rd())
        if c == "R":
            lo = int(s[pos:pos + 4], 16); hi = int(s[pos + 4:pos + 8], 16); pos += 8
            return Rep(rd(), lo, hi)
        if c == "C":
            neg = s[pos] == "1"; n = int(s[pos + 1:pos + 3], 16); pos += 3
            rs = []
            for _ in range(n):
                rs.append((int(s[pos:pos + 2], 16), int(s[pos + 2:pos + 4], 16))); pos += 4
            return Cls(rs, neg)
        raise ValueError(f"bad regex wire {s!r} at {pos}")

    r = rd()
    if pos != len(s):
        raise ValueError(f"trailing garbage in regex wire {s!r}")
    return r


def pat_of_wire(s: str, as_str=False) -> Pat:
    from wire import unhx
    if s[0] == "L":
        return Pat("lit", unhx(s[1:]), as_str)
    if s[0] in "XI":
        return Pat("re", parse_wire(s[1:]), icase=s[0] == "I")
    raise ValueError(s)
