"""Run shell cases (C01 …) on the REAL Bash / Ash classes against real bash / dash on a pty behind
the re-fragmenting transport of shellio."""
import os, random, shutil, tempfile

import tbot
import tbot.error
import shellio
from wire import hx, unhx, chars, lst

_machines = {}     # (kind, chunk) -> (machine, ExitStack)
_dir = None
_exe = None
_counter = [0]


def setup():
    global _dir, _exe
    if _dir is None:
        _exe = shellio.build_helper()
        _dir = tempfile.mkdtemp(prefix="tbv-")
    return _exe, _dir


def cleanup():
    global _dir
    for key in list(_machines):
        drop_machine(key)
    if _dir is not None:
        shutil.rmtree(_dir, ignore_errors=True)
        _dir = None


import atexit
atexit.register(cleanup)


def drop_machine(key):
    m, cx = _machines.pop(key, (None, None))
    if m is not None:
        try:
            m._verif_io["io"].close()
        except Exception:
            pass


def get_machine(kind, chunk):
    import contextlib
    key = (kind, chunk)
    if key not in _machines:
        # machines of two of the chunk sizes run on a channel that was configured by another machine before
        m = shellio.make_machine(kind, chunk=chunk, inherited=chunk in (3, 64))
        cx = contextlib.ExitStack()
        cx.enter_context(m)
        _machines[key] = (m, cx)
    return _machines[key][0]


def exc_tag(e):
    if isinstance(e, tbot.error.IllegalDataException):
        return "illegal"
    if isinstance(e, tbot.error.CommandFailure):
        return "command-failure"
    if isinstance(e, tbot.error.InvalidRetcodeError):
        return "invalid-retcode"
    if isinstance(e, TimeoutError):
        return "timeout"
    return "other:" + type(e).__name__


def new_id():
    _counter[0] += 1
    return str(_counter[0])


def parse_cmd(tok):
    op, pre, args, out, st = tok.split("/")
    f = lambda s: [] if s == "." else [unhx(x) for x in s.split(",")]
    return op, f(pre), f(args), unhx(out), int(st)


def run_case(line, seed):
    """line = '<bash|ash> <chunk> <cmd>*'; returns the observation line"""
    exe, d = setup()
    toks = line.split()
    kind = "dash" if toks[0] == "ash" else "bash"
    chunk = int(toks[1])
    rng = random.Random(seed)
    mode = rng.choice(["1", "small", "mixed", "mixed", "big"])
    sizes = {"1": lambda: 1, "small": lambda: rng.choice([1, 2, 3]), "big": lambda: 4096,
             "mixed": lambda: rng.choice([1, 2, 3, 7, 23, 50, 512, 4096])}[mode]
    out = []
    key = (kind, chunk)
    try:
        return _run_case(toks, kind, chunk, key, sizes, rng, exe, d, out)
    except BaseException:
        # wall-clock timeout or anything else that left the machine in an unknown state
        drop_machine(key)
        raise


def _run_case(toks, kind, chunk, key, sizes, rng, exe, d, out):
    try:
        m = get_machine(kind, chunk)
    except Exception as e:
        drop_machine(key)
        return "machine-failed:" + type(e).__name__
    io = m._verif_io["io"]
    io.sizes = sizes
    io.linger = rng.choice([0.0, 0.0, 0.002])
    broken = False
    for tok in toks[2:]:
        op, pre, args, prog_out, status = parse_cmd(tok)
        # `pre` in the case line is symbolic: [exe, dir, id] are filled in here and echoed back
        cid = pre[2].decode() if len(pre) == 3 else new_id()
        for kind_, data in (("out", prog_out), ("status", str(status).encode())):
            with open(os.path.join(d, f"{kind_}.{cid}"), "wb") as f:
                f.write(data)
        argv_file = os.path.join(d, f"argv.{cid}")
        if os.path.exists(argv_file):
            os.remove(argv_file)
        n_tx, n_pc = len(io.tx), len(io.pieces)
        str_args = [a.decode("utf-8") for a in args]
        call = [exe, d, cid] + str_args
        try:
            if broken:
                raise RuntimeError("machine out of sync")
            if op == "x":
                rc, text = m.exec(*call)
                val = f"rc:{rc}:{chars(text)}"
            elif op == "x0":
                val = "out:" + chars(m.exec0(*call))
            else:
                val = "b1" if m.test(*call) else "b0"
        except Exception as e:
            val = "err:" + exc_tag(e)
            if not isinstance(e, (tbot.error.IllegalDataException, tbot.error.CommandFailure)):
                broken = True
        if os.path.exists(argv_file):
            raw = open(argv_file, "rb").read()
            argv = lst(hx(x) for x in raw.split(b"\0")[:-1])
        else:
            argv = "!"
        out.append("/".join([val, argv, hx(bytes(io.tx[n_tx:])), lst(str(k) for k in io.pieces[n_pc:])]))
    if broken:
        drop_machine(key)
    return " ".join(out)


def concrete(line):
    """replace the symbolic helper prefix by the real one (exe, dir, fresh id) so that model and
    implementation see the same command line"""
    exe, d = setup()
    toks = line.split()
    res = toks[:2]
    for tok in toks[2:]:
        f = tok.split("/")
        f[1] = ",".join([hx(exe.encode()), hx(d.encode()), hx(new_id().encode())])
        res.append("/".join(f))
    return " ".join(res)


import verbosity  # noqa: E402
run_case = verbosity.wrap(run_case)   # one case in eight runs at Verbosity.CHANNEL
