"""Run one C20 case (wire form, see lean/TbotVerif/Model/SshWire.lean) on the REAL tbot classes and
print the RAW observation line: `<result> <event>*`.

The real `SSHConnector._connect`, `linux.copy`, `_scp_copy`, the authenticators, `linux.Path`
and `Bash.escape`/`exec0` are driven in-process.  Nothing is patched inside tbot: the hosts
are ordinary user-style machine classes (`class M(connector.SSHConnector, linux.Bash)` with
class attributes), only that their `exec`/`open_channel` record the argv instead of talking to a
channel (a machine is never entered, so no process is ever spawned).

`--paramiko 1` puts an empty stand-in module named `paramiko` into `sys.modules` *before* tbot is
imported, so that tbot's own `connector/paramiko.py` imports and `connector.ParamikoConnector`
is the REAL class (its `_connect` is never called).  `--paramiko 0` leaves the environment as
it is here (paramiko missing, `connector.ParamikoConnector` does not exist).

Host attribute fields that are empty are not set on the class (the connector's default applies).

Usage: sshimpl.py --paramiko {0,1}    (line protocol: one case per line on stdin)
"""
import contextlib
import gc, zlib
import pathlib
import sys
import types


def setup(with_paramiko: bool):
    if with_paramiko:
        try:
            import paramiko  # noqa: F401
        except ImportError:
            class _Anything(types.ModuleType):
                def __getattr__(self, name):
                    if name.startswith("__"):
                        raise AttributeError(name)
                    return type(name, (), {})

            sys.modules["paramiko"] = _Anything("paramiko")
    else:
        sys.modules["paramiko"] = None  # type: ignore  # import paramiko -> ImportError
    import tbot
    import tbot.error
    tbot.log.VERBOSITY = -1
    from tbot.machine import connector, linux
    from tbot.machine.linux import auth
    return tbot, connector, linux, auth


def unhx(s):
    return "" if s == "-" else bytes.fromhex(s).decode("utf-8")


def hx(s):
    b = s.encode("utf-8")
    return b.hex() if b else "-"


class Registry:
    """labels machine instances: the i-th host of the case is `i`; an instance obtained by
    calling `.clone()` on a labelled instance while the operation runs is `<label>+`."""

    def __init__(self):
        self.labels = {}
        self.keep = []
        self.events = []

    def put(self, inst, label):
        self.labels[id(inst)] = label
        self.keep.append(inst)

    def label(self, inst):
        return self.labels.get(id(inst), "?")


REG = Registry()


def make_bases(connector, linux):
    class RecShell(linux.Bash):
        """a real Bash machine whose command execution is recorded instead of performed"""

        _rec_user = "nobody"
        _rec_wd = "/"

        def _arg(self, a):
            if isinstance(a, str):
                return "s/" + hx(a)
            if isinstance(a, linux.Path):
                return "p/" + REG.label(a.host) + "/" + hx(a._local_str())
            return "x/" + hx(type(a).__name__)

        def _record(self, meth, args):
            # the real escape(): raises WrongHostError / TypeError exactly where Bash would
            self.escape(*args)
            REG.events.append(f"{REG.label(self)};{meth};" + (",".join(self._arg(a) for a in args) or "."))

        def exec(self, *args):
            self._record("x", args)
            return (0, "")

        @contextlib.contextmanager
        def open_channel(self, *args):
            self._record("c", args)
            yield None

        @property
        def username(self):
            return self._rec_user

        @property
        def workdir(self):
            return linux.Path(self, self._rec_wd)

    class RecFirst:
        """first in the MRO of every stand-in class: labels clones, and makes entering the
        machine context a no-op (the machine life-cycle is not what is observed here)"""

        def clone(self):
            new = super().clone()
            REG.put(new, REG.label(self) + "+")
            return new

        def __enter__(self):
            return self

        def __exit__(self, *a):
            return None

    class RecConnector(connector.Connector):
        """a lab-host that is neither local nor reached through ssh"""

        def _connect(self):
            raise RuntimeError("never connected")

        @classmethod
        def from_context(cls, ctx):
            raise RuntimeError("never used")

        def clone(self):
            new = type(self)()
            new._orig = self._orig or self
            return new

    return RecShell, RecConnector, RecFirst


class BadCase(Exception):
    pass


class Impl:
    def __init__(self, with_paramiko):
        self.with_paramiko = with_paramiko
        self.tbot, self.connector, self.linux, self.auth = setup(with_paramiko)
        self.RecShell, self.RecConnector, self.RecFirst = make_bases(self.connector, self.linux)

    # ---- building the machines of a case ---------------------------------------------------
    def build(self, toks):
        connector, linux, auth = self.connector, self.linux, self.auth
        classes, insts, kinds = [], [], []
        pending_keys = []  # (class, host index, path) -> authenticator needs the instance
        for i, t in enumerate(toks):
            f = t.split("/")
            if f[0] in ("C", "A"):
                j = int(f[1])
                if j >= i:
                    raise BadCase()
                if f[0] == "C":
                    inst = insts[j].clone()
                else:
                    inst = self.instantiate(classes[j], kinds[j], insts, getattr(insts[j], "_case_via", None))
                inst._case_via = getattr(insts[j], "_case_via", None)
                classes.append(classes[j]); kinds.append(kinds[j]); insts.append(inst)
                REG.put(inst, str(i))
                continue
            if f[0] != "H" or len(f) != 12:
                raise BadCase()
            _, kind, sup, via, user, wd, chost, port, hk, opts, au, mux = f
            attrs = {}
            if kind in ("g", "l"):
                attrs["_rec_user"] = unhx(user)
            elif user != "":
                attrs["username"] = unhx(user)
            attrs["_rec_wd"] = unhx(wd)
            if kind in ("s", "p"):
                if chost != "":
                    attrs["hostname"] = unhx(chost)
                if port != "":
                    attrs["port"] = int(port)
                if hk != "":
                    attrs["ignore_hostkey"] = hk == "1"
                if opts != "":
                    attrs["ssh_config"] = [] if opts == "." else [unhx(o) for o in opts.split(",")]
                if mux != "":
                    attrs["use_multiplexing"] = mux == "1"
                if au != "":
                    a = au.split(":")
                    if a[0] == "n":
                        attrs["authenticator"] = auth.NoneAuthenticator()
                    elif a[0] == "k":
                        attrs["authenticator"] = auth.PrivateKeyAuthenticator(unhx(a[1]))
                    elif a[0] == "l":
                        attrs["authenticator"] = auth.PrivateKeyAuthenticator(pathlib.PurePosixPath(unhx(a[1])))
                    elif a[0] == "t":
                        k = int(a[1])
                        if k >= i:
                            raise BadCase()
                        attrs["authenticator"] = auth.PrivateKeyAuthenticator(linux.Path(insts[k], unhx(a[2])))
                    elif a[0] == "w":
                        attrs["authenticator"] = auth.PasswordAuthenticator(unhx(a[1]))
                    elif a[0] == "u":
                        attrs["authenticator"] = auth.UndefinedAuthenticator()
                    else:
                        raise BadCase()
            if sup != "":
                j = int(sup)
                if j >= i or kinds[j] != kind:
                    raise BadCase()
                bases = (classes[j],)
            elif kind == "g":
                bases = (self.RecFirst, self.RecConnector, self.RecShell)
            elif kind == "l":
                bases = (self.RecFirst, connector.SubprocessConnector, self.RecShell)
            elif kind == "s":
                bases = (self.RecFirst, connector.SSHConnector, self.RecShell)
            elif kind == "p":
                if not self.with_paramiko:
                    raise BadCase()
                bases = (self.RecFirst, connector.ParamikoConnector, self.RecShell)
            else:
                raise BadCase()
            if kind in ("s", "p") and chost == "":
                raise BadCase()
            if kind == "p" and user == "":
                raise BadCase()
            if kind in ("g", "l") and (user == "" or any(x != "" for x in (chost, port, hk, opts, au, mux))):
                raise BadCase()
            if sup != "":
                # a subclass lists its resolved attributes: unset only where the parent leaves it unset
                pf = toks[int(sup)].split("/")
                if pf[0] != "H" or any(f[k] == "" and pf[k] != "" for k in (7, 8, 9, 10, 11)):
                    raise BadCase()
                if kind in ("s", "p") and user == "" and pf[4] != "":
                    raise BadCase()
            cls = type(f"Mach{i}", bases, attrs)
            v = None
            if kind == "s":
                if via == "" or int(via) >= i:
                    raise BadCase()
                v = int(via)
            elif via != "":
                raise BadCase()
            inst = self.instantiate(cls, kind, insts, v)
            inst._case_via = v
            classes.append(cls); kinds.append(kind); insts.append(inst)
            REG.put(inst, str(i))
        return insts

    def instantiate(self, cls, kind, insts, via):
        if kind == "s":
            return cls(insts[via])
        return cls()

    # ---- one case ------------------------------------------------------------------------------
    def run(self, line):
        global REG
        REG = Registry()
        toks = line.split()
        try:
            if len(toks) < 3 or toks[0] not in ("pm/0", "pm/1"):
                raise BadCase()
            if (toks[0] == "pm/1") != self.with_paramiko:
                return "harness/wrong-worker"
            insts = self.build(toks[2:])
            op = toks[1].split("/")
            if op[0] == "connect" and len(op) == 2:
                m = insts[int(op[1])]
                if not isinstance(m, self.connector.SSHConnector):
                    raise BadCase()
                action = lambda: self.do_connect(m)  # noqa: E731
            elif op[0] == "copy" and len(op) == 5:
                p1 = self.linux.Path(insts[int(op[1])], unhx(op[2]))
                p2 = self.linux.Path(insts[int(op[3])], unhx(op[4]))
                action = lambda: self.linux.copy(p1, p2)  # noqa: E731
            else:
                raise BadCase()
        except (BadCase, ValueError, IndexError):
            return "bad-op"
        # every other case: the same action runs once BEFORE the recorded one (and, for a copy, a connect of every
        # ssh machine involved) — a command line depends on the machine's configuration and on nothing that an
        # earlier connect or copy left behind
        if zlib.crc32(line.encode()) % 2 == 1:
            warm = [action]
            if op[0] == "copy":
                warm += [(lambda m=m: self.do_connect(m)) for m in (insts[int(op[1])], insts[int(op[3])])
                         if isinstance(m, self.connector.SSHConnector)]
            for w in warm:
                try:
                    w()
                except Exception:
                    pass
        REG.events = []
        try:
            action()
            res = "ok"
        except Exception as e:
            res = "err/" + self.tag(e)
        return " ".join([res] + REG.events)

    def do_connect(self, m):
        with m._connect():
            pass

    def tag(self, e):
        for cls in (self.tbot.error.WrongHostError, NotImplementedError, AttributeError, TypeError, ValueError):
            if isinstance(e, cls):
                return cls.__name__
        return "Other:" + type(e).__name__


def main():
    wp = sys.argv[sys.argv.index("--paramiko") + 1] == "1"
    impl = Impl(wp)
    out = sys.stdout
    out.write("ready\n"); out.flush()
    n = 0
    for line in sys.stdin:
        line = line.rstrip("\n")
        if not line:
            continue
        n += 1
        if n % 100 == 0:
            # machine classes of past cases are garbage only through reference cycles; the abc
            # machinery walks every live subclass on a negative isinstance()
            gc.collect()
        try:
            r = impl.run(line)
        except BaseException as e:  # never die silently
            r = "harness-exception/" + type(e).__name__ + "/" + hx(str(e)[:60])
        out.write(r + "\n"); out.flush()


if __name__ == "__main__":
    main()
