"""Parameters of `Path.write_bytes`, observed from the running code: the length of the base64
lines it sends.  A recording stand-in for the host is enough — nothing of tbot is patched."""
import contextlib


def extract(p: dict) -> None:
    from tbot.machine.linux import path as tpath

    lines = []

    class Ch:
        @contextlib.contextmanager
        def with_death_string(self, *a, **k):
            yield self

        def sendline(self, data=b"", read_back=False, **k):
            lines.append(bytes(data) if not isinstance(data, str) else data.encode())

        def send(self, data, *a, **k):
            pass

        def sendcontrol(self, c):
            pass

        def terminate0(self):
            return ""

    class Host:
        name = "extract"

        @property
        def fsroot(self):
            return tpath.Path(self, "/")

        @contextlib.contextmanager
        def run(self, *args):
            yield Ch()

    tpath.Path(Host(), "/x").write_bytes(bytes(range(256)) * 4)
    p["b64LineLen"] = max(len(x) for x in lines)
