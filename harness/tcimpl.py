"""C16 implementation runner: runs the generated testcase program against the REAL tbot
(`tbot.testcase`, `tbot.named_testcase`, `with tbot.testcase(...)`, `tbot.skip`, and the installed
entry points /venv/bin/newbot and /venv/bin/tbot) and prints the observation in the wire syntax of
lean/TbotVerif/Driver/Tc.lean.

Level (i)  in-process: the module is exec'd, `tbot.log.LOGFILE` is pointed at an in-memory sink
           (the documented knob; nothing in tbot is patched), `drive()` is called.
Level (ii) subprocess: the module is written to a fresh directory that holds nothing else, the
           entry point is run with the JSON log enabled, the log is parsed with
           <repo>/generators/logparser.py."""
import atexit, importlib.util, json, os, queue, re, shutil, subprocess, sys, tempfile, threading, zlib

import tcgen

NAME_RE = re.compile(r"^[dmw][0-9]+$")
EXC_TAG = {"RuntimeError": "x", "AssertionError": "x", "ValueError": "x", "Boom": "x",
           "SkipException": "s", "KeyboardInterrupt": "k"}
CLI_TIMEOUT = 60
ENTRY = {"newbot": "/venv/bin/newbot", "tbot": "/venv/bin/tbot"}


def b01(x):
    return "1" if x is True else "0" if x is False else "?"


def canon_name(n):
    """testcase names of the generated programs are <form letter><number>; any other name an event
    carries is mapped to a name no generated testcase has (number >= 10**9), so that the observation
    stays well-formed and the Spec judges it (and shrinking works)"""
    if isinstance(n, str) and NAME_RE.match(n) and len(n) < 9:
        return n
    return "d%d" % (10 ** 9 + zlib.crc32(repr(n).encode()) % 1000)


def canon_event(ty, data):
    """one log event -> wire item (None = not part of the observation)"""
    if ty == ["tc", "begin"]:
        return "B:%s" % canon_name(data.get("name"))
    if ty == ["tc", "end"]:
        return "E:%s:%s:%s" % (canon_name(data.get("name")), b01(data.get("success")), b01(data.get("skipped")))
    if len(ty) == 2 and ty[0] == "xt":
        return "%s:%s:%s" % (ty[1], data.get("name"), data.get("val"))
    if ty == ["exception"]:
        n = data.get("name")
        return "X:%s" % EXC_TAG.get(n, "o%s" % n)
    if ty == ["tbot", "end"]:
        return "T:%s" % b01(data.get("success"))
    return None                # messages (separator line, "Log written to …"), commands, anything else


# ---- level (i): in-process --------------------------------------------------------------------

class Sink:
    """stands in for the log file object (`write`, `flush`, `name`)"""
    name = "<memory>"

    def __init__(self):
        self.parts = []

    def write(self, s):
        self.parts.append(s)

    def flush(self):
        pass


def decode_all(text):
    dec = json.JSONDecoder()
    out, i, n = [], 0, len(text)
    while True:
        while i < n and text[i] in " \n\r\t":
            i += 1
        if i >= n:
            return out
        ev, i = dec.raw_decode(text, i)
        out.append(ev)


def run_inprocess(case):
    import tbot
    import tbot.log
    src, _, _ = tcgen.render(case)
    ns = {"__name__": "tcv_case"}
    exec(compile(src, "<tcv_case>", "exec"), ns)
    sink = Sink()
    saved = (tbot.log.LOGFILE, tbot.log.NESTING, tbot.log.VERBOSITY)
    tbot.log.VERBOSITY = -1
    tbot.log.LOGFILE = sink
    tbot.log.NESTING = case.nest0
    try:
        try:
            ns["drive"]()
            fin = "-"
        except BaseException as e:  # noqa: the driver's caller sees everything
            if type(e).__name__ == "WallTimeout":
                raise
            fin = ns["tag"](e)
        nest = tbot.log.NESTING
    finally:
        tbot.log.LOGFILE, tbot.log.NESTING, tbot.log.VERBOSITY = saved
    items = [canon_event(ev.get("type"), ev.get("data", {})) for ev in decode_all("".join(sink.parts))]
    return " ".join(["esc:%s" % fin, str(nest)] + [i for i in items if i is not None])


# ---- level (ii): the installed entry points ---------------------------------------------------

_BASE = None
_LOGPARSER = None
_SEQ = [0]
_LOCK = threading.Lock()


def repo_root():
    import tbot
    return os.path.dirname(os.path.dirname(os.path.abspath(tbot.__file__)))


def base_dir():
    global _BASE
    with _LOCK:
        if _BASE is None:
            _BASE = tempfile.mkdtemp(prefix="tcv16-")
            atexit.register(shutil.rmtree, _BASE, True)
        _SEQ[0] += 1
        return _BASE, _SEQ[0]


def logparser():
    global _LOGPARSER
    with _LOCK:
        if _LOGPARSER is None:
            path = os.path.join(repo_root(), "generators", "logparser.py")
            spec = importlib.util.spec_from_file_location("tcv_logparser", path)
            mod = importlib.util.module_from_spec(spec)
            spec.loader.exec_module(mod)
            _LOGPARSER = mod
        return _LOGPARSER


EPILOGUE = '''\
import atexit


def _tcv_report():
    with open({nest!r}, "w") as f:
        f.write("%d %s" % (tbot.log.NESTING, tbot.__file__))


atexit.register(_tcv_report)


def register_machines(ctx):
    """lets newbot import this module as a configuration (`-c tcvmod`) even with no testcase"""


'''

# mode newbotk: `newbot -k`; every testcase body requests a (fake) machine from tbot.ctx as its first
# step, so that a kept-alive instance is alive when the run ends — by an exception or normally
EPILOGUE_K = '''\
import contextlib
import tbot.role
from tbot.machine import machine as _tcv_machine


class TcvRole(tbot.role.Role):
    pass


class _TcvStub:
    def close(self):
        pass


class TcvMachine(_tcv_machine.Machine, TcvRole):
    name = "tcv"

    @classmethod
    @contextlib.contextmanager
    def from_context(cls, ctx):
        with cls() as m:
            yield m

    @contextlib.contextmanager
    def _connect(self):
        yield _TcvStub()

    @contextlib.contextmanager
    def _init_shell(self):
        yield None

    def clone(self):
        raise NotImplementedError


def register_machines(ctx):
    ctx.register(TcvMachine, TcvRole)


_tcv_T = T


def T(kind, name, val):
    if kind == "I":
        with tbot.ctx.request(TcvRole):
            pass
    _tcv_T(kind, name, val)


'''


def run_cli(case):
    """one subprocess; returns the observation line"""
    repo = repo_root()
    base, seq = base_dir()
    work = os.path.join(base, "c%d" % seq)
    moddir, outdir = os.path.join(work, "mod"), os.path.join(work, "out")
    os.makedirs(moddir)
    os.makedirs(outdir)
    log, nestf = os.path.join(outdir, "log.json"), os.path.join(outdir, "nest.txt")
    epi = EPILOGUE.format(nest=nestf)
    if case.mode == "newbotk":
        epi = epi.replace("def register_machines(ctx):\n", "def _tcv_unused(ctx):\n") + EPILOGUE_K
    src, fns, names = tcgen.render(case, epi)
    with open(os.path.join(moddir, "tcvmod.py"), "w") as f:
        f.write(src)
    if case.mode in ("newbot", "newbotk"):
        argv = [ENTRY["newbot"], "-c", "tcvmod", "--json-log-stream", log] + (["-k"] if case.mode == "newbotk" else [])
        argv += ["tcvmod." + fn for fn in fns]
    else:
        argv = [ENTRY["tbot"], "--log", log, "-T", moddir] + names
        if len(names) >= 2 and zlib.crc32(case.line().encode()) % 2 == 0:
            # a testcase parameter on the command line that none of the testcases takes (it is filtered out per
            # testcase, with a warning, when several testcases are scheduled): verdicts and events are the same
            argv[1:1] = ["-p", "tcv_unused_parameter=1"]
    env = dict(os.environ)
    env["PYTHONPATH"] = repo
    env.pop("TBOTPATH", None)
    env["PYTHONDONTWRITEBYTECODE"] = "1"
    # the terminal the tool writes to: UTF-8, plain ASCII (a serial console, LANG=C), or latin-1 — derived from the case
    env["PYTHONIOENCODING"] = ("utf-8", "ascii", "latin-1")[zlib.crc32(case.line().encode()) % 3]
    try:
        p = subprocess.run(["timeout", "-k", "5", str(CLI_TIMEOUT)] + argv, cwd=moddir, env=env,
                           stdin=subprocess.DEVNULL, stdout=subprocess.PIPE, stderr=subprocess.STDOUT,
                           timeout=CLI_TIMEOUT + 10)
        rc = p.returncode
        if rc in (124, 137):
            return "cli-timeout"
        if not os.path.exists(nestf):
            return "cli-no-report/rc=%d/%s" % (rc, re.sub(r"\s+", "_", p.stdout.decode(errors="replace")[-120:]))
        nest, used = open(nestf).read().split(" ", 1)
        if not os.path.abspath(used).startswith(repo + os.sep):
            return "cli-wrong-tree/%s" % used
        items = []
        if os.path.exists(log):
            for ev in logparser().logfile(log):
                it = canon_event(ev.type, ev.data)
                if it is not None:
                    items.append(it)
        return " ".join(["exit:%d" % rc, nest] + items)
    except subprocess.TimeoutExpired:
        return "cli-timeout"
    finally:
        shutil.rmtree(work, ignore_errors=True)


# a few daemon workers so that several subprocesses run while the main thread does in-process cases
_JOBS = queue.Queue()
_RESULTS = {}
_WORKERS = []
N_WORKERS = max(2, min(6, (os.cpu_count() or 2) // 2))


def _worker():
    while True:
        line, ev = _JOBS.get()
        try:
            res = run_cli(tcgen.parse(line))
        except BaseException as e:  # noqa
            res = "harness-exception/%s/%s" % (type(e).__name__, str(e)[:80].replace(" ", "_"))
        _RESULTS[line] = res
        ev.set()


def prefetch(line):
    """start the subprocess for a CLI case now; `run_case` picks the result up later"""
    with _LOCK:
        if line in _RESULTS:
            return
        ev = threading.Event()
        _RESULTS[line] = ev
        while len(_WORKERS) < N_WORKERS:
            t = threading.Thread(target=_worker, daemon=True)
            t.start()
            _WORKERS.append(t)
    _JOBS.put((line, ev))


def run_case(line):
    case = tcgen.parse(line)
    if not case.wellformed():
        return "malformed-case"
    if case.mode == "ip":
        return run_inprocess(case)
    with _LOCK:
        pending = _RESULTS.get(line)
    if pending is None:
        return run_cli(case)
    if isinstance(pending, threading.Event):
        pending.wait()
    with _LOCK:
        return _RESULTS.pop(line)


if __name__ == "__main__":
    print(run_case(" ".join(sys.argv[1:])))
