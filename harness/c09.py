"""C09: environment variables round-trip exactly and subshells isolate their changes — real Bash and
Ash drivers against real bash and dash on a pty, every read re-fragmented."""
import hashlib
import envimpl
from wire import hx, unhx

KIND = "env"
SPECS = ["C09"]
THEOREMS = ["C09.spec_holds", "C09.runProg_spec", "C09.env_roundtrip", "C09.env_set_rejected", "C09.readback_lemma",
            "C09.block_restores", "C09.exec_after_block", "C09.f7_witness", "Env.exec_ok", "Env.exec0_ok",
            "Env.fetchRetcode_ok", "Env.set_ok", "Env.get_ok", "Env.runOp_spec", "Env.subEnter_ok", "Env.subExit_ok",
            "Env.wordsX_escape", "Env.text_cook_enc", "EnvUtf8.decodeReplace_enc", "EnvChan.read_exact",
            "EnvChan.sendline_rb", "EnvChan.rup_ok", "EnvChan.expect_ok"]
LEAN_MODULES = ["TbotVerif.Props.C09"]
QUICK_N, THOROUGH_N = 450, 12000
QUICK_BUDGET, THOROUGH_BUDGET = 30, 1500
CASE_WALL = 25
RULE = ("test bodies of 1-7 steps per level, nesting depth 0-4 of `with m.subshell():` blocks (plain and wrapped in "
        "try/except), at every level: env set / env read / printenv-style probe through a helper program / cd / pwd / "
        "set -f,-C / read $- / echo / an external command with prepared output and status / raise; values drawn per "
        "position from {safe chars, leading dashes, backslash sequences \\n \\c \\0101 \\\\ \\x, quotes, $-expressions, "
        "backquotes, globs, newlines, trailing blanks, %-formats, control bytes, 2/3/4-byte UTF-8, empty}; three variable "
        "names so that inner and outer assignments collide; bash and dash; every transport read re-fragmented (1-byte, "
        "small, mixed, 4096) and four read chunk sizes; non-trivial = a variable/cwd/option is changed inside a block and "
        "read after it, or a value needs quoting / contains a backslash; distinct = distinct case lines")
TRUSTED = ["the installed bash 5.2 and dash 0.5.12, and the kernel pty, are the remote side (not a model)",
           "harness/helper/tbvhelper.c records getenv() and argv through side files",
           "`ash` on PATH is a symlink to dash (Ash.subshell() spawns `ash`)"]
ASSUMPTIONS = ["values contain no NUL and no CR and are valid UTF-8 (the API takes str); variable names are shell "
               "identifiers; command lines stay below the tty line limit (4095 bytes); no value / output contains the "
               "23-byte prompt at a read boundary; the command a subshell block spawns is a shell of the same kind; "
               "cd targets exist"]

NAMES = [b"V0", b"V1", b"TBV_x9"]
SAFE = b"abcXYZ019_-./"
BACKSL = [b"\\n", b"\\c", b"\\0101", b"\\\\", b"\\", b"\\t", b"\\x41", b"\\1", b"\\07", b"\\a", b"\\0", b"\\e", b"\\r"]
META = [b" ", b"  ", b"'", b'"', b"$x", b"${HOME}", b"$(id)", b"`id`", b"$V0", b"${V0}", b"!", b"!!", b"*", b"?",
        b"[a]", b"~", b"#", b";", b"&", b"|", b"<", b">", b"(", b")", b"{a,b}", b"\n", b"\n\n", b"=", b"%s", b"%d%%",
        b"-n", b"-e", b"-E", b"--", b"-", b"\t"]
CTRL = [bytes([c]) for c in (1, 2, 5, 6, 7, 8, 11, 12, 14, 0x1B, 0x1F, 3, 4, 0x15, 0x7F, 0x11, 0x13, 0x16, 0x17, 0x1A, 0x1C)]
UTF = ["é".encode(), "✓".encode(), "😀".encode(), "ä ö".encode()]
FIXED = [b"", b"-n", b"-e", b"-E x", b"--", b"a\\nb", b"x\\c y", b"a\\0101", b"\\\\", b"a\\", b"'", b'"', b"$(id)",
         b"${V0}", b"*", b"a b  ", b"  ", b"\n", b"a\nb\n", b"%s%d", b"it's\ntwo 'lines'", b"'\n", b"\n'", b"first\n^second", b"\n^a^b", b"release\n", b"42\n", b"/usr/bin:/bin\n", b"make all\x17install", b"/tmp/x y", b"/opt/a'b", b"/usr/lib/$x", b"/a/b/c", b"/", b"^x^y", b"a\n!b", b"\n#c", b"a\n\\'b", b"\"\n$x'", b"\xc3\xa9\xe2\x9c\x93", b"-", b" ", b"\\"]


def gen_value(rng):
    k = rng.random()
    if k < 0.25:
        return rng.choice(FIXED)
    if k < 0.30:
        return bytes(rng.choice(b"abc d'\\") for _ in range(rng.choice([200, 505, 512, 600])))
    parts = []
    for _ in range(rng.randint(1, 5)):
        r = rng.random()
        if r < 0.3:
            parts.append(bytes(rng.choice(SAFE) for _ in range(rng.randint(1, 4))))
        elif r < 0.55:
            parts.append(rng.choice(BACKSL))
        elif r < 0.85:
            parts.append(rng.choice(META))
        elif r < 0.92:
            parts.append(rng.choice(CTRL))
        else:
            parts.append(rng.choice(UTF))
    v = b"".join(parts)
    return v if v != b"\x01" else b"a"


def gen_out(rng):
    k = rng.random()
    if k < 0.2:
        return b""
    out = b"".join(rng.choice([b"abc", b" x", b"\n", b"\r\n", "é".encode(), b"TBOT-VEJ", b"\t"]) for _ in range(rng.randint(1, 5)))
    return out + (b"\n" if rng.random() < 0.6 else b"")


BLACK = set()


def clean(v):
    """without the bytes some driver refuses to send (only `env(name, value)` is specified for those)"""
    return bytes(c for c in v if c not in BLACK)


def gen_op(rng):
    k = rng.random()
    n = hx(rng.choice(NAMES))
    if k < 0.05:
        return f"s:{n}:-"                      # the empty value (often after a non-empty one)
    if k < 0.28:
        return f"s:{n}:{hx(gen_value(rng))}"
    if k < 0.52:
        return f"g:{n}"
    if k < 0.62:
        return f"p:@P:{n}"
    if k < 0.70:
        return f"c:@{rng.randrange(envimpl.NDIRS)}"
    if k < 0.76:
        return "w"
    if k < 0.83:
        return f"o:{hx(rng.choice([b'f', b'C']))}:{rng.choice('01')}"
    if k < 0.89:
        return "O"
    if k < 0.94:
        return f"e:{hx(clean(gen_value(rng)))}"
    args = ",".join(hx(clean(gen_value(rng))) for _ in range(rng.choice([0, 1, 2]))) or "."
    return f"x:@P:{args}:{hx(gen_out(rng))}:{rng.choice([0, 0, 1, 2, 127, 255, rng.randint(0, 255)])}"


def readers(rng):
    """reads of everything a block could have changed"""
    return [f"g:{hx(n)}" for n in NAMES if rng.random() < 0.7] + [t for t in ("w", "O", f"p:@P:{hx(rng.choice(NAMES))}")
                                                                if rng.random() < 0.5]


SLOW_EXIT_RATE = 0.003


def gen_seq(rng, depth, budget):
    toks = []
    for _ in range(rng.randint(1, 7 if depth == 0 else 4)):
        r = rng.random()
        if r < 0.22 and depth < 4 and budget[0] > 0:
            budget[0] -= 1
            toks.append("[?" if rng.random() < 0.5 else "[")
            if rng.random() < SLOW_EXIT_RATE and not budget[1:]:
                budget.append("slow")            # at most one per case: it costs 2.6 s of real time
                toks.append("T")
            toks += gen_seq(rng, depth + 1, budget)
            toks.append("]")
            toks += readers(rng)
        elif r < 0.27 and depth > 0:
            toks.append("!")
            return toks
        elif r < 0.30:
            toks += ["[x", "]"]                 # a subshell block whose shell fails to initialise (handled by the caller)
        else:
            toks.append(gen_op(rng))
    return toks


def gen_case(rng, params):
    BLACK.update(params["bashBlacklist"], params["ashBlacklist"])
    kind = rng.choice(["bash", "ash"])
    chunk = rng.choice([1, 3, 64, params["readChunkSize"], params["readChunkSize"]])
    budget = [rng.choice([1, 2, 3, 5])]
    toks = gen_seq(rng, 0, budget)
    if rng.random() < 0.5:
        toks += ["x:@P:.:%s:%d" % (hx(gen_out(rng)), rng.choice([0, 3, 255]))]
    return " ".join([kind, str(chunk), "@0"] + toks)


def exhaustive(params):
    """small scope, complete: every fixed value x both shells x {top level, inside a block that ends normally, inside a
    block that is left by an exception}: set, read, probe; then the outer value must be back"""
    BLACK.update(params["bashBlacklist"], params["ashBlacklist"])
    v0, v1 = hx(b"V0"), hx(b"V1")
    for kind in ("bash", "ash"):
        for val in FIXED + BACKSL + META + UTF:
            v = hx(val)
            yield f"{kind} 4096 @0 s:{v0}:{v} g:{v0} p:@P:{v0} e:{hx(clean(val))}"
            yield f"{kind} 3 @0 s:{v0}:{hx(b'outer')} [ s:{v0}:{v} g:{v0} p:@P:{v0} ] g:{v0} p:@P:{v0}"
            yield f"{kind} 64 @0 s:{v0}:{v} [? g:{v0} s:{v0}:{hx(b'inner')} s:{v1}:{v} c:@1 o:{hx(b'f')}:1 ! ] g:{v0} g:{v1} w O"
        for d in range(1, 5):
            opens = " ".join(f"[ s:{v0}:{hx(b'L%d' % i)} c:@{i % 3} o:{hx(b'C')}:{i % 2}" for i in range(d))
            closes = " ".join(f"] g:{v0} w O" for _ in range(d))
            yield f"{kind} 4096 @0 s:{v0}:{hx(b'top')} {opens} g:{v0} {closes}"
            opens = " ".join(f"[? s:{v0}:{hx(b'L%d' % i)} c:@{i % 3}" for i in range(d))
            closes = " ".join(f"] g:{v0} w" for _ in range(d))
            yield f"{kind} 1 @0 s:{v0}:{hx(b'top')} {opens} ! {closes} x:@P:{hx(b'a b')}:{hx(b'out' + bytes([10]))}:7"


def _seed(line):
    return int(hashlib.sha1(line.encode()).hexdigest()[:8], 16)


_concrete = {}


def run_impl(line):
    c = envimpl.concrete(line)
    _concrete[line] = c
    return envimpl.run_case(c, _seed(line))


def _no_t(c):
    """the Lean side does not see `T` steps (a slow exit changes no value)"""
    toks = [t for t in c.split() if t != "T"]
    out, i = [], 0
    while i < len(toks):
        if toks[i] == "[x" and i + 1 < len(toks) and toks[i + 1] == "]":
            i += 2                      # a block whose shell failed to initialise: nothing happened
        else:
            out.append(toks[i]); i += 1
    return " ".join(out)


def model_request(line, impl):
    return "env " + _no_t(_concrete.get(line, envimpl.concrete(line))) + " || " + impl


def spec_line(line):
    return _no_t(_concrete.get(line, line))


_lean = []


def in_domain(line):
    """is the (concrete) case in the domain of the Lean theorems (`Env.Case.wf`)?"""
    try:
        if not _lean:
            from leanproc import Lean
            _lean.append(Lean())
        return _lean[0].ask("envwf " + _no_t(_concrete.get(line, line)))
    except Exception:
        return "?"


def classify(line, obs):
    toks = line.split()
    ks = ["kind=" + toks[0], "chunk=" + toks[1], "theorem-domain=" + in_domain(line)]
    depth = mx = 0
    for t in toks[3:]:
        if t in ("[", "[?"):
            depth += 1
            mx = max(mx, depth)
            ks.append("block=" + ("guarded" if t == "[?" else "plain"))
        elif t == "]":
            depth -= 1
        elif t == "!":
            ks.append("raise@%d" % depth)
        else:
            ks.append("op=%s@%d" % (t.split(":")[0], depth))
            if t[0] in "se":
                v = unhx(t.split(":")[-1])
                for name, test in (("backslash", b"\\" in v), ("newline", b"\n" in v), ("dash", v.startswith(b"-")),
                                   ("quote", b"'" in v or b'"' in v), ("dollar", b"$" in v), ("empty", not v),
                                   ("nonascii", any(c >= 0x80 for c in v)), ("ctrl", any(c < 32 and c != 10 for c in v)),
                                   ("trailing-blank", v.endswith(b" "))):
                    if test:
                        ks.append("value:" + name)
    ks.append("depth=%d" % mx)
    for o in obs.split():
        if "=err:" in o:
            ks.append("res=" + o.split("/")[0])
    ks.append(obs.split()[-1] if obs.split() else "end:?")
    return ks


def nontrivial(line, obs):
    toks = line.split()[3:]
    depth, changed_inside, after = 0, False, False
    for t in toks:
        if t in ("[", "[?"):
            depth += 1
        elif t == "]":
            depth -= 1
        elif depth > 0 and t[0] in "sco":
            changed_inside = True
        elif depth == 0 and changed_inside and t[0] in "gwOp":
            after = True
    hard = any(t[0] == "s" and any(c in unhx(t.split(":")[2]) for c in b"\\'\"$ \n*") for t in toks)
    return after or hard


def _blocks(toks):
    """(open index, close index) of every block"""
    st, res = [], []
    for i, t in enumerate(toks):
        if t in ("[", "[?"):
            st.append(i)
        elif t == "]" and st:
            res.append((st.pop(), i))
    return res


def shrink_candidates(line):
    toks = line.split()
    head, prog = toks[:3], toks[3:]
    for a, b in _blocks(prog):
        yield " ".join(head + prog[:a] + prog[b + 1:])                     # drop a whole block
        yield " ".join(head + prog[:a] + prog[a + 1:b] + prog[b + 1:])     # unwrap it
    for i, t in enumerate(prog):
        if t not in ("[", "[?", "]"):
            yield " ".join(head + prog[:i] + prog[i + 1:])                 # drop one step
    if head[1] != "4096":
        yield " ".join([head[0], "4096", head[2]] + prog)
    for i, t in enumerate(prog):
        f = t.split(":")
        if f[0] in ("s", "e") and f[-1] != "-":
            v = unhx(f[-1])
            cands = [v[: len(v) // 2], v[1:], v[:-1]]
            for j in range(len(v)):
                cands.append(v[:j] + v[j + 1:])
            for nv in cands:
                try:
                    nv.decode("utf-8")
                except UnicodeDecodeError:
                    continue
                yield " ".join(head + prog[:i] + [":".join(f[:-1] + [hx(nv)])] + prog[i + 1:])
        if f[0] == "x":
            if f[2] != ".":
                yield " ".join(head + prog[:i] + [":".join([f[0], f[1], ".", f[3], f[4]])] + prog[i + 1:])
            if f[3] != "-":
                yield " ".join(head + prog[:i] + [":".join([f[0], f[1], f[2], "-", f[4]])] + prog[i + 1:])


def explain(line, impl, model):
    return ("first differing step: " + next((f"#{i}: impl {a} / model {b}" for i, (a, b) in
                                              enumerate(zip(impl.split(), model.split())) if a != b), "none"))
PARAM_EXTRACTORS = ["shellextract"]
