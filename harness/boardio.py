"""Reactive console for the board bring-up checks (C18): the ChannelIO contract of
lean/TbotVerif/Model/Channel.lean (`ioRead`, `ioWrite`) on the virtual clock, plus the staged
console of lean/TbotVerif/Model/Board.lean (`stamp`, `insertPiece`, `react`): the console shows
`init` at power-on and the output of the next stage when a transport write fires its trigger.

Everything that happens at the transport boundary is appended, in order, to one trace of
tokens in the wire syntax of the Lean side (`r/…`, `w/…`)."""
import vclock
import verbosity
from tbot.machine.channel import channel as tch
from mockio import Hang
from wire import hx, opt

OP_CAP = 20000


class Cap(BaseException):
    """virtual time passed the cap of the case (raised by the sleep hook)"""


class OpCap(BaseException):
    """too many transport operations (harness watchdog; never part of a valid observation)"""


def stamp(now, out):
    res = []
    for dt, data in out:
        now += dt
        res.append([now, bytes(data)])
    return res


class ReactiveIO(tch.ChannelIO):
    def __init__(self, init, stages, trace):
        # init: [(dt, bytes)], stages: [(trig, [(dt, bytes)])], trig in "ac"
        self.init = list(init)
        self.stages = list(stages)
        self.script = []
        self.trace = trace
        self.ops = 0
        self._closed = False

    # -- console side
    def _insert(self, piece):
        i = 0
        while i < len(self.script) and self.script[i][0] <= piece[0]:
            i += 1
        self.script.insert(i, piece)

    def _insert_all(self, pieces):
        for p in pieces:
            self._insert(p)

    def power_on(self):
        self._insert_all(stamp(vclock.CLOCK.ticks, self.init))

    def _tick(self):
        self.ops += 1
        if self.ops > OP_CAP:
            raise OpCap()

    # -- ChannelIO interface
    def write(self, buf: bytes) -> int:
        self._tick()
        buf = bytes(buf)
        now = vclock.CLOCK.ticks
        self.trace.append(f"w/{now}/{hx(buf)}")
        if self.stages:
            trig, out = self.stages[0]
            if trig == "a" or 13 in buf:
                self.stages.pop(0)
                self._insert_all(stamp(now, out))
        return len(buf)

    def read(self, n: int, timeout=None) -> bytes:
        self._tick()
        clk = vclock.CLOCK
        t0 = clk.ticks
        tt = None if timeout is None else vclock.to_ticks(timeout)

        def fail(t1, exc):
            clk.ticks = t1
            self.trace.append(f"r/{n}/{opt(tt)}/{t0}/{t1}/!")
            raise exc

        def deliver(t1):
            clk.ticks = t1
            tick, data = self.script[0]
            if len(data) <= n:
                self.script.pop(0)
                d = data
            else:
                d = data[:n]
                self.script[0] = [tick, data[n:]]
            self.trace.append(f"r/{n}/{opt(tt)}/{t0}/{t1}/{hx(d)}")
            return verbosity.through_debug_log(self, d)

        if not self.script:
            if tt is None:
                fail(t0, Hang())
            fail(t0 + tt, TimeoutError())
        tick = self.script[0][0]
        if tick <= t0:
            return deliver(t0)
        if tt is None:
            return deliver(tick)
        if tick <= t0 + tt:
            return deliver(tick)
        fail(t0 + tt, TimeoutError())

    def close(self) -> None:
        self._closed = True

    def fileno(self) -> int:
        return 99

    @property
    def closed(self) -> bool:
        return self._closed

    def update_pty(self, columns: int, lines: int) -> None:
        pass
