"""Parameters of `tbot.machine.channel.subprocess`, observed from the running code: the poll
slice of `SubprocessChannelIO.read` (first `select` timeout of a blocking read) and the guard of
`SubprocessChannelIO.write` (its `select` timeout)."""


def extract(p: dict) -> None:
    import subioimpl
    from tbot.machine.channel import subprocess as tsub
    slice_us, guard_us = subioimpl.observe_constants()
    p["subioMinReadWaitMicros"] = slice_us
    # the same on the 2^-10 s grid of the virtual clock (nearest tick)
    p["subioMinReadWait"] = int(round(slice_us * 1024 / 1e6))
    p["subioWriteGuard"] = int(round(guard_us * 1024 / 1e6))
    p["subioReadChunk"] = int(tsub.READ_CHUNK_SIZE)
    # does read() take its slice from the module attribute (which the harness sets per case)?
    p["subioSliceIsModuleAttr"] = slice_us == int(round(float(tsub.MIN_READ_WAIT) * 1e6))
