import sys, os, random, subprocess, collections
sys.path.insert(0, os.path.dirname(os.path.abspath(__file__)))
import c13
drv = subprocess.Popen([os.path.join(os.path.dirname(__file__), "../lean/.lake/build/bin/driver")], stdin=subprocess.PIPE, stdout=subprocess.PIPE, text=True, bufsize=1)
def ask(l):
    drv.stdin.write(l + "\n"); drv.stdin.flush(); return drv.stdout.readline().strip()
rng = random.Random(int(sys.argv[1])); N = int(sys.argv[2])
hist = collections.Counter(); cases = collections.Counter(); bad = 0
for i in range(N):
    line = c13.gen_case(rng, {})
    obs = c13.run_impl(line)
    mo = ask(c13.model_request(line, obs))
    sp = ask("spec C13 " + c13.spec_line(line) + " || " + obs)
    if mo != obs or sp != "1":
        bad += 1; print("DISAGREE", line, "| impl", obs, "| model", mo, "| spec", sp)
    ks = set(c13.classify(line, obs))
    for k in ks:
        if k.startswith("handling"):
            cases[k] += 1
    for k in c13.classify(line, obs):
        if k.startswith("handling"):
            hist[k] += 1
print("cases", N, "disagreements", bad)
for k in sorted(cases): print("  cases with", k, cases[k], " (sessions:", hist[k], ")")
