"""Additional parameter extractions, one call per cluster (each lives in `<cluster>extract.py`)."""


def extract(p: dict):
    for name in ("logextract",):
        try:
            mod = __import__(name)
        except ImportError:
            continue
        mod.extract(p)
