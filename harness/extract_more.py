"""Cluster-specific parameter extractors; each adds its keys to the dict `p`.

A failing extractor (e.g. a mutation of tbot makes the real `_init_shell` raise) must not blind
the checks of the other clusters: its keys are then taken from the cache of the last successful
extraction (`lean/TbotVerif/Generated/params_cache.json`) and its name is recorded under
`p["_failed"]`; the runner reports checks that depend on a failed extractor as broken
(correspondence not established) while still running their cases."""
import json, os, traceback

HERE = os.path.dirname(os.path.abspath(__file__))
CACHE = os.path.join(os.path.dirname(HERE), "lean", "TbotVerif", "Generated", "params_cache.json")
MODULES = ("tcextract", "sshextract", "logextract", "quote_params", "ctxextract", "shellextract", "ubootextract",
           "filesextract", "envextract", "runextract", "boardextract", "subioextract")


def _load_cache():
    try:
        return json.load(open(CACHE))
    except Exception:
        return {}


def extract(p: dict) -> None:
    cache = _load_cache()
    failed = []
    owners = {}
    for modname in MODULES:
        try:
            mod = __import__(modname)
        except ImportError:
            continue
        q = {}
        try:
            mod.extract(q)
        except BaseException as e:  # noqa: the extractor runs real tbot code
            failed.append(modname + ": " + type(e).__name__)
            for k, v in cache.get("values", {}).items():
                if cache.get("owners", {}).get(k) == modname:
                    q[k] = bytes(v["b"]) if isinstance(v, dict) and "b" in v else v
        for k in q:
            owners[k] = modname
        p.update(q)
    p["_failed"] = failed
    p["_owners"] = owners


def save_cache(p: dict) -> None:
    if p.get("_failed"):
        return
    vals = {k: ({"b": list(v)} if isinstance(v, bytes) else v) for k, v in p.items() if not k.startswith("_")}
    try:
        json.dump({"values": vals, "owners": p.get("_owners", {})}, open(CACHE, "w"))
    except Exception:
        pass
