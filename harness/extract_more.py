"""Further parameter extractions, one helper module per cluster (each has `extract(p: dict)`)."""


def extract(p):
    import sshextract
    sshextract.extract(p)
