"""Additional parameter extractions (called by extract_params.py).  One line per cluster; the
work is done in `<cluster>_params.py`."""


def extract(p: dict) -> None:
    import quote_params
    quote_params.extract(p)
