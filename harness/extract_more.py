"""Additional parameter extractions, one call per cluster (CONVENTIONS.md §1); called by
extract_params.py with the dict that becomes lean/TbotVerif/Generated/Params.lean."""


def extract(p):
    import tcextract
    tcextract.extract(p)
