"""Cluster-specific parameter extractors; each adds its keys to the dict `p`."""


def extract(p: dict) -> None:
    for modname in ("tcextract", "sshextract", "logextract", "quote_params", "ctxextract", "shellextract", "boardextract"):
        try:
            mod = __import__(modname)
        except ImportError:
            continue
        mod.extract(p)
