"""Run a C19 case on the REAL `tbot.machine.board.UBootShell` (composed with a plain connector
whose channel sits on `ubootsim.SimIO`) and print the observation in the wire syntax of
lean/TbotVerif/Driver/UBoot.lean.

case:  <prompt> <chunk> <cuts> <op>*
         op = x|x0|t / <args,…> / <out> / <status>      exec / exec0 / test; the console answers (out, status)
            | e / <var> / <value|!>                      env(var[, value])
obs:   one token per op   <val>/<ran>/<written>/<pieces>
         val = rc:<status>:<text> | out:<text> | b0 | b1 | err:<tag>
         ran = `;`-joined  a:<word,…> | q | h:<line>      (`.` = nothing dispatched)
"""
import random, zlib
import vclock
vclock.install()
import tbot  # noqa: E402
import tbot.error  # noqa: E402
from tbot.machine import board, channel, connector  # noqa: E402
import mockio  # noqa: E402
import ubootsim  # noqa: E402
from wire import hx, unhx, chars, lst  # noqa: E402

tbot.log.VERBOSITY = -1
BANNER = b"\r\n\r\nU-Boot 2024.01-sim\r\n\r\nHit any key to stop autoboot:  0 \r\n"

_LEAN = None


def lean():
    global _LEAN
    if _LEAN is None:
        from leanproc import Lean
        _LEAN = Lean()
    return _LEAN


def verdicts(line, obs):
    """per-call verdicts of Spec.C19 (ok / stop / bad) — used for the distribution evidence only"""
    v = lean().ask(f"ubootv {line} || {obs}")
    return [] if v in (".", "bad-op") else v.split(",")


def make_machine(prompt: bytes, chunk=None, channel_cls=None):
    """an un-entered UBootShell on a fresh simulated console; returns (machine, io, console)"""
    con = ubootsim.Console(prompt)
    io = ubootsim.SimIO(con, BANNER + prompt)
    base = channel_cls or channel.Channel
    attrs = {"__slots__": ()}
    if chunk is not None:
        attrs["READ_CHUNK_SIZE"] = chunk
    cls = type("SimChannel", (base,), attrs)

    class SimUBoot(connector.Connector, board.UBootShell):
        name = "sim-uboot"

        def _connect(self):
            ch = channel.Channel(io)
            ch.__class__ = cls
            return ch

        def clone(self):
            raise NotImplementedError

    SimUBoot.prompt = prompt
    return SimUBoot(), io, con


def exc_tag(e):
    if isinstance(e, tbot.error.IllegalDataException):
        return "illegal"
    if isinstance(e, tbot.error.InvalidRetcodeError):
        return "invalid-retcode"
    if isinstance(e, tbot.error.CommandFailure):
        return "command-failure"
    if isinstance(e, mockio.Hang):
        return "hang"
    if isinstance(e, TimeoutError):
        return "timeout"
    if isinstance(e, AssertionError):
        return "assert"
    return "other-" + type(e).__name__


def words(ws):
    return lst(hx(w) for w in ws)


def ran_wire(ran):
    items = []
    for r in ran:
        if r[0] == "a":
            items.append("a:" + words(r[1]))
        elif r[0] == "q":
            items.append("q")
        else:
            items.append("h:" + hx(r[1]))
    return ";".join(items) if items else "."


def parse_op(tok):
    f = tok.split("/")
    if f[0] in ("x", "x0", "t") and len(f) == 4:
        args = [] if f[1] == "." else [unhx(a) for a in f[1].split(",")]
        return (f[0], args, unhx(f[2]), int(f[3]))
    if f[0] == "e" and len(f) == 3:
        return ("e", unhx(f[1]), None if f[2] == "!" else unhx(f[2]))
    raise ValueError(tok)


def run_case(line: str) -> str:
    toks = line.split()
    prompt, chunk = unhx(toks[0]), int(toks[1])
    cuts = [] if toks[2] == "." else [int(x) for x in toks[2].split(",")]
    ops = [parse_op(t) for t in toks[3:]]
    try:
        for op in ops:
            if op[0] == "e":
                op[1].decode("utf-8")
                if op[2] is not None:
                    op[2].decode("utf-8")
            else:
                if not op[1]:
                    return "unsupported/no-args"
                for a in op[1]:
                    a.decode("utf-8")
    except UnicodeDecodeError:
        return "unsupported/non-utf8"
    m, io, con = make_machine(prompt, chunk)
    out = []
    with vclock.CLOCK:
        vclock.CLOCK.reset()
        try:
            m.__enter__()
        except BaseException as e:  # noqa: BLE001
            return "init-failed/" + exc_tag(e)
        if io.segs:
            return "init-left-data/" + hx(io.pending())
        io.cuts = list(cuts)
        h = zlib.crc32(line.encode())
        if h % 2 == 1:
            wr = random.Random(h)
            io.wmax = lambda: wr.choice([1, 3, 16, 64, 511, 4096])
        for op in ops:
            io.pieces = []
            io.tx = bytearray()
            con.ran = []
            try:
                if op[0] == "e":
                    con.table = None
                    var = op[1].decode()
                    v = m.env(var) if op[2] is None else m.env(var, op[2].decode())
                    val = "out:" + chars(v)
                else:
                    args = [a.decode() for a in op[1]]
                    con.table = (list(op[1]), op[2], op[3])
                    if op[0] == "x":
                        rc, o = m.exec(*args)
                        val = f"rc:{rc}:{chars(o)}"
                    elif op[0] == "x0":
                        val = "out:" + chars(m.exec0(*args))
                    else:
                        val = "b1" if m.test(*args) else "b0"
            except (Exception, mockio.Hang) as e:
                val = "err:" + exc_tag(e)
            out.append("/".join([val, ran_wire(con.ran), hx(bytes(io.tx)), lst(str(k) for k in io.pieces)]))
        try:
            m.__exit__(None, None, None)
        except BaseException:  # noqa: BLE001
            pass
    # the tie between the two consoles: every line this simulator tokenised, re-tokenised in Lean
    for ln, ws in con.tokenised:
        want = lean().ask("quote hsplit " + hx(ln))
        got = "hazard" if ws is None else "w:" + words(ws)
        if want != got:
            return f"tokenizer-mismatch/{hx(ln)}/{got}/{want}"
    return " ".join(out)


import verbosity  # noqa: E402
run_case = verbosity.wrap(run_case)   # one case in eight runs at Verbosity.CHANNEL
