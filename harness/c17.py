"""C17 ? log events are recorded completely; the log file parses back to the same events.

Two kinds of case (wire syntax in lean/TbotVerif/Driver/Log.lean):
  ev ? one real `EventIO` under given verbosity / nesting / colour / unicode settings, a text
       cut into `write` / `writeln` calls at arbitrary character positions, `data[...] =
       getvalue()`, `close`; observed: captured stdout per call, return values, getvalue(),
       the documents in the log file;
  pf ? several events written by the real writer to a real file in a given closing order,
       with document lengths placed around multiples of the read size, read back by the real
       `logparser.logfile`; observed: events yielded, trace of reads / decode attempts."""
import itertools

import logimpl
from logimpl import hx

KIND = "log"
SPECS = ["C17"]
THEOREMS = [
    "C17.spec_holds",
    "C17.stored_is_concat",
    "C17.printed_is_render",
    "C17.printed_is_render_closed",
    "C17.plain_text_any_splitting",
    "C17.printed_independent_of_splitting",
    "C17.nothing_printed_above_level",
    "C17.render_eq_emit",
    "C17.normalise_plain",
    "C17.logfile_yields",
    "C17.logfile_yields_writer",
    "C17.logfile_no_fuel",
    "C17.frame_decoderSpec",
    "C17.toy_decoderSpec",
    "C17.toy_logfile",
]
LEAN_MODULES = ["TbotVerif.Props.C17"]
QUICK_N, THOROUGH_N = 6000, 90000
QUICK_BUDGET, THOROUGH_BUDGET = 45, 600
CASE_WALL = 30
RULE = ("ev: random settings (VERBOSITY, event verbosity before/after construction, NESTING incl. -1, unicode, "
        "colour, prefix, nest_first, LOGFILE on/off) x a text over {letters, CR, LF, CRLF, LFCR, the seven "
        "terminal-control sequences, lone ESC, quotes, backslashes, braces, control and non-ASCII characters} cut "
        "into write/writeln calls at arbitrary character positions; pf: 1-5 events with flavoured payloads whose "
        "documents end within +-2 of a multiple of the read size (the extracted READ_SIZE, or 1..64 on small "
        "documents), closed in a random order. Non-trivial: ev with >= 2 writes, stdout output and a CR/LF/ESC in "
        "the text; pf where some document needed >= 2 decode attempts (it straddles a read boundary). "
        "distinct = distinct case lines")
TRUSTED = ["CPython's json encoder/decoder (the hypotheses of Log.DecoderSpec are checked against it on every "
           "generated file: complete documents decode to themselves with their length, sampled proper prefixes "
           "fail, documents do not start with white space, the separator is white space)",
           "CPython str.replace / re.split / io.StringIO agree with replaceAll / splitFrags / the stored text "
           "(tested by the same cases)",
           "termcolor / termcolor2 colour wrappers (extracted as parameters)"]
ASSUMPTIONS = ["payloads contain no lone surrogates", "the log file is written by tbot.log only (documents separated by "
               "one newline, file does not start with white space)", "read size >= 1",
               "prefix / verbosity / nesting do not change between the first write and close"]

ATOMS = (["a", "b", "z", " ", "0"] * 3 + ["\n"] * 5 + ["\r"] * 3 + ["\r\n"] * 3 + ["\n\r"] * 2
         + logimpl.ESCAPES[:7] * 2 + ["\x1b", "\x1b[", "[H", "7", "\x1b[999;999", "\r\r\n", "\n\n"]
         + ['"', "\\", "{", "}", "'", "\t", "\x00", "\x7f", "\x08", "\xe9", "\u20ac", "\u4e2d", "\U0001f600", "\u2028", "\x85"])
GLYPHS = ["-", "-", "-", "_", hx("\u2514\u2500"), hx("\\-"), hx("x")]
PREFIXES = ["-", "-", "_", hx("   ## "), hx("  "), hx("\xe9> "), hx("a\nb")]
TYPES = ["msg", "cmd", "tc", "begin", "end", "INFO", "lab-host", "b\xf6rd", "exception", ""]
KEYS = ["name", "cmd", "text", "k0", "stdout", "trace"]


def gen_text(rng, n):
    return "".join(rng.choice(ATOMS) for _ in range(n))


def cut(rng, text):
    """cut `text` into pieces at arbitrary character positions (possibly empty pieces)"""
    if not text:
        return [""]
    k = rng.choice([1, 1, 2, 3, 4, 6])
    pts = sorted(rng.randrange(0, len(text) + 1) for _ in range(k - 1))
    out, last = [], 0
    for p in pts:
        out.append(text[last:p])
        last = p
    out.append(text[last:])
    return out


def gen_ev(rng, params):
    gv = rng.choice([0, 1, 2, 2, 3, 3, 4])
    nest = rng.choice(["-", "0", "1", "1", "2", "3"])
    uni, color = rng.choice("01"), rng.choice("001")
    lf = rng.choice("0111")
    ty = ",".join(hx(t) for t in rng.sample(TYPES, rng.choice([0, 1, 2, 2, 3]))) or "."
    kws = rng.sample(KEYS, rng.choice([0, 0, 1, 2]))
    kw = ",".join(hx(k) + "/" + hx(gen_text(rng, rng.choice([0, 1, 3]))) for k in kws) or "."
    v0 = rng.choice([0, 1, 1, 2, 2, 3, 4])
    v1 = rng.choice([v0, v0, v0, 3, rng.randrange(0, 5)])
    nf = rng.choice(GLYPHS)
    r = rng.random()
    if r < 0.55:
        msg = gen_text(rng, rng.choice([0, 1, 3])).replace("\n", "")
    elif r < 0.8:
        msg = gen_text(rng, 2).replace("\n", "") + "\n" + gen_text(rng, rng.choice([0, 1, 4]))
    else:
        msg = gen_text(rng, rng.choice([1, 4, 8]))
    pfx1 = rng.choice(PREFIXES)
    text = gen_text(rng, rng.choice([0, 1, 2, 4, 8, 8, 16, 30]))
    ops = []
    for p in cut(rng, text):
        if p.endswith("\n") and rng.random() < 0.3:
            ops.append("wl:" + hx(p[:-1]))
        else:
            ops.append("w:" + hx(p))
    for _ in range(rng.choice([0, 0, 1, 2])):
        ops.insert(rng.randrange(0, len(ops) + 1), "sd:" + hx(rng.choice(KEYS)))
    r = rng.random()
    if r < 0.7:
        ops.append("close")
    elif r < 0.8:
        ops.insert(rng.randrange(0, len(ops) + 1), "close")
    elif r < 0.87:
        ops += ["close", "close"]
    return " ".join(["ev", str(gv), nest, uni, color, lf, ty, kw, str(v0), nf, hx(msg) if msg else "-", pfx1, str(v1)] + ops)


FLAVOURS = "aqcwusjem"


def gen_pf(rng, params):
    big = params["logReadSize"]
    n = rng.choice([big, big, big, 1, 2, 3, 7, 64])
    ndocs = rng.choice([1, 2, 2, 3, 3, 4, 5]) if n != big else rng.choice([1, 1, 2, 2, 3])
    ids = rng.sample(range(1, 12), ndocs)
    toks, pos = [], 0
    for ident in ids:
        base = logimpl.base_len(ident)
        lo = pos + base + 1
        # end of the document within +-2 of a multiple of the read size, 0..3 blocks further on
        k = -(-lo // n) + (rng.choice([0, 0, 1, 2, 3]) if n >= 64 else rng.randrange(0, 40))
        end = k * n + rng.choice([-2, -1, 0, 0, 1, 2])
        if rng.random() < 0.2:
            end = lo + rng.randrange(0, 3 * n if n >= 64 else 60)
        end = max(end, lo)
        toks.append(f"{ident}/{end - pos}/{rng.choice(FLAVOURS)}/{rng.randrange(1000)}")
        pos = end + 1
    return " ".join(["pf", str(n)] + toks)


def gen_case(rng, params):
    return gen_ev(rng, params) if rng.random() < 0.8 else gen_pf(rng, params)


def run_impl(line):
    try:
        return logimpl.run_case(line)
    except Exception as e:      # raised by the code under test (or a malformed case): an observation, not a crash
        return f"harness-exception/{type(e).__name__}"


def _ev_fields(line):
    t = line.split()
    return t[1:13], t[13:]


def classify(line, obs):
    ks = []
    t = line.split()
    ks.append("kind=" + t[0])
    if t[0] == "ev":
        head, ops = _ev_fields(line)
        gv, v0, v1 = int(head[0]), int(head[7]), int(head[11])
        ks.append("header=" + ("printed" if v0 <= gv else "gated"))
        ks.append("body=" + ("printed" if v1 <= gv else "gated"))
        if v0 > gv >= v1 and "0a" in head[9]:
            ks.append("lagged-constructor-text")
        ks.append("nesting=" + head[1])
        ks.append("colour=" + head[3] + " unicode=" + head[2] + " logfile=" + head[4])
        nw = sum(1 for o in ops if o.startswith(("w:", "wl:")))
        ks.append("writes=%s" % (nw if nw < 4 else "4+"))
        closes = ops.count("close")
        ks.append("close=%s" % ("none" if closes == 0 else "last" if closes == 1 and ops[-1] == "close" else "mid/twice"))
        text = "".join(logimpl.payload(o.split(":")[1]) + ("\n" if o.startswith("wl:") else "")
                       for o in ops if o.startswith(("w:", "wl:")))
        per = [logimpl.payload(o.split(":")[1]) for o in ops if o.startswith(("w:", "wl:"))]
        for name, seqs in (("esc", logimpl.ESCAPES[:7]), ("crlf", ["\r\n", "\n\r"])):
            whole = any(s in p for s in seqs for p in per)
            split = any(s in text for s in seqs) and not all((text.count(s) == sum(p.count(s) for p in per)) for s in seqs)
            if whole:
                ks.append(name + "=whole")
            if split:
                ks.append(name + "=split-across-writes")
        if any(ord(ch) > 127 for ch in text):
            ks.append("non-ascii")
    else:
        n = int(t[1])
        ks.append("readsize=%s" % (n if n < 100 else "READ_SIZE"))
        ks.append("docs=%d" % (len(t) - 2))
        pos = 0
        for d in t[2:]:
            f = d.split("/")
            end = pos + int(f[1])
            if min(end % n, n - end % n) <= 2:
                ks.append("doc-end-at-read-boundary+-2")
            if int(f[1]) > n:
                ks.append("doc>readsize")
            ks.append("flavour=" + (f[2] if len(f) > 2 else "a"))
            pos = end + 1
    return ks


def nontrivial(line, obs):
    t = line.split()
    o = obs.split()
    if t[0] == "ev":
        _, ops = _ev_fields(line)
        nw = sum(1 for x in ops if x.startswith(("w:", "wl:")))
        printed = any(s.split(":")[-1] != "-" for s in o[3:])
        text = "".join(x.split(":")[1] for x in ops if x.startswith(("w:", "wl:")))
        return nw >= 2 and printed and any(h in text for h in ("0a", "0d", "1b"))
    if len(o) != 2 or o[1] == ".":
        return False
    run = 0
    for s in o[1].split(","):
        if s.startswith("f"):
            run += 1
        elif s.startswith("k"):
            if run >= 2:
                return True
            run = 0
    return False


def _shorter_texts(s):
    if len(s) > 1:
        yield s[: len(s) // 2]
        yield s[len(s) // 2:]
    for i in range(min(len(s), 12)):
        yield s[:i] + s[i + 1:]
    if s and s != "a" * len(s):
        yield "a" * len(s)


def shrink_candidates(line):
    t = line.split()
    if t[0] == "ev":
        head, ops = t[1:13], t[13:]
        for i in range(len(ops)):
            yield " ".join(["ev"] + head + ops[:i] + ops[i + 1:])
        for i in range(len(ops) - 1):       # merge two adjacent writes
            a, b = ops[i].split(":"), ops[i + 1].split(":")
            if a[0] == "w" and b[0] in ("w", "wl"):
                m = b[0] + ":" + hx(logimpl.payload(a[1]) + logimpl.payload(b[1]))
                yield " ".join(["ev"] + head + ops[:i] + [m] + ops[i + 2:])
        for i, op in enumerate(ops):
            f = op.split(":")
            if f[0] in ("w", "wl"):
                for s in _shorter_texts(logimpl.payload(f[1])):
                    yield " ".join(["ev"] + head + ops[:i] + [f[0] + ":" + hx(s)] + ops[i + 1:])
                if f[0] == "wl":
                    yield " ".join(["ev"] + head + ops[:i] + ["w:" + f[1]] + ops[i + 1:])
        simple = {1: "-", 2: "0", 3: "0", 4: "0", 5: ".", 6: ".", 8: "-", 9: "-", 10: "-"}
        for idx, val in simple.items():
            if head[idx] != val:
                yield " ".join(["ev"] + head[:idx] + [val] + head[idx + 1:] + ops)
        if head[9] != "-":
            for s in _shorter_texts(logimpl.payload(head[9])):
                yield " ".join(["ev"] + head[:9] + [hx(s)] + head[10:] + ops)
        for idx in (0, 7, 11):
            if head[idx] != "0":
                yield " ".join(["ev"] + head[:idx] + [str(int(head[idx]) - 1)] + head[idx + 1:] + ops)
    else:
        # (the runner only accepts candidates whose line is shorter)
        n, docs = t[1], t[2:]
        for i in range(len(docs)):
            yield " ".join(["pf", n] + docs[:i] + docs[i + 1:])
        fields = [d.split("/") for d in docs]
        total = sum(int(f[1]) for f in fields)
        for new in (1, 2, 3, 5, 9, 17, 65, 99, 999):
            if new < int(n):
                # scale the documents down together with the read size (same number of blocks, <= 3)
                scaled = []
                for f in fields:
                    base = logimpl.base_len(int(f[0]))
                    k, r = divmod(max(int(f[1]) - base, 0), int(n))
                    scaled.append("/".join([f[0], str(base + min(k, 3) * new + r % new)] + f[2:]))
                yield " ".join(["pf", str(new)] + scaled)
                if total // new < 4000:     # (a decode attempt per block: keep the candidate cheap)
                    yield " ".join(["pf", str(new)] + docs)
        for i, d in enumerate(docs):
            f = d.split("/")
            base = logimpl.base_len(int(f[0]))
            ln = int(f[1])
            if len(f) > 2:      # default flavour / seed
                yield " ".join(["pf", n] + docs[:i] + [f[0] + "/" + f[1]] + docs[i + 1:])
            cands = [base, base + 1, base + 2, base + int(n), base + 2 * int(n), 99, 100, 999, 1000, 9999, ln // 2, ln - 1]
            for new in cands:
                if base <= new < ln:
                    yield " ".join(["pf", n] + docs[:i] + ["/".join([f[0], str(new)] + f[2:])] + docs[i + 1:])
            if len(f[0]) > 1 and "1" not in [x.split("/")[0] for x in docs]:
                yield " ".join(["pf", n] + docs[:i] + ["/".join(["1", str(ln - len(f[0]) + 1)] + f[2:])] + docs[i + 1:])


def exhaustive(params):
    """ev: every text of length <= 4 over {a, CR, LF, ESC, 7} in every composition into writes,
    printed / gated, with / without nesting, closed; pf: read sizes 1..6 x two documents with
    every length in base .. base+7"""
    alpha = ["a", "\r", "\n", "\x1b", "7"]
    for n in range(0, 5):
        for tup in itertools.product(alpha, repeat=n):
            text = "".join(tup)
            for mask in range(1 << max(n - 1, 0)):
                pieces, last = [], 0
                for i in range(1, n):
                    if mask >> (i - 1) & 1:
                        pieces.append(text[last:i])
                        last = i
                pieces.append(text[last:])
                ops = " ".join("w:" + hx(p) for p in pieces)
                for gv, nest in ((1, "1"), (1, "-"), (0, "1")):
                    yield f"ev {gv} {nest} 0 0 1 {hx('t')} . 1 - {hx('m')} {hx('# ')} 1 {ops} close"
    base = logimpl.base_len(1)
    for n in range(1, 7):
        for l1 in range(base, base + 8):
            for l2 in range(base, base + 8):
                yield f"pf {n} 1/{l1}/q/1 2/{l2}/j/2"
                yield f"pf {n} 2/{l1}/c/1 1/{l2}/a/2"


def explain(line, impl, model):
    t = line.split()
    if t[0] == "pf":
        want = ",".join(d.split("/")[0] for d in t[2:]) or "."
        return f"events closed (in this order): {want}; logparser.logfile yielded: {impl.split()[0] if impl else impl}"
    return "EventIO observation (header, getvalue(), log documents, per-call result:stdout) differs from the batch specification"
