"""Line-protocol client for the Lean driver (compiled `lean_exe`; falls back to the interpreter)."""
import os, subprocess, sys

VERIF = os.path.dirname(os.path.dirname(os.path.abspath(__file__)))
LEAN_DIR = os.path.join(VERIF, "lean")
DRIVER = os.path.join(LEAN_DIR, ".lake", "build", "bin", "driver")


class Lean:
    def __init__(self):
        if os.path.exists(DRIVER):
            cmd = [DRIVER]
        else:
            cmd = ["lake", "env", "lean", "--run", "TbotVerif/Driver/Main.lean"]
        self.p = subprocess.Popen(cmd, cwd=LEAN_DIR, stdin=subprocess.PIPE, stdout=subprocess.PIPE,
                                  bufsize=0)
        self.n = 0
        if self.ask("ping") != "pong":
            raise RuntimeError("lean driver does not answer")

    def ask(self, line: str) -> str:
        assert "\n" not in line
        self.p.stdin.write(line.encode() + b"\n")
        out = self.p.stdout.readline()
        if not out:
            raise RuntimeError(f"lean driver died on: {line[:200]}")
        self.n += 1
        return out.decode().rstrip("\n")

    def close(self):
        try:
            self.p.stdin.close()
            self.p.wait(timeout=5)
        except Exception:
            self.p.kill()
