"""Drive the REAL `tbot.machine.channel.subprocess.SubprocessChannelIO.read` / `.write` in-process
against a scripted pty and the virtual clock, and print the observation in the wire syntax of
lean/TbotVerif/Driver/SubIO.lean.

Nothing in tbot is edited.  A subclass overrides only `__init__` (a pty pair without a process;
`p` is a stand-in for the `Popen` object whose `poll()` / `returncode` follow the script), so
`read`, `write` and the `closed` property are the real ones.  While a case runs, four attributes of
the STANDARD library are replaced (and restored afterwards): `select.select`, `os.read`, `os.write`
(only for our descriptor; everything else is passed through) and `time.monotonic` (through
harness/vclock.py), and the module constant `tbot.machine.channel.subprocess.MIN_READ_WAIT` is set
to the case's slice length — a value on the 2^-10 s grid, so that every float operation of the
code under test is exact.

case:  <mrw> <wguard> <gone|-> <wready|-> <script> <accept> <op>*
       op = r:<n>:<T|->:<gap> | w:<hex>:<gap>        (all times in ticks)
obs:   one token per executed call  <out>/<t1>/<sel>
"""
import os
import pty
import select

import vclock
vclock.install()
import tbot  # noqa: E402
import tbot.error  # noqa: E402
from tbot.machine.channel import subprocess as tsub  # noqa: E402
from wire import hx, unhx  # noqa: E402

tbot.log.VERBOSITY = -1

_real_select = select.select
_real_os_read = os.read
_real_os_write = os.write


class Hang(BaseException):
    """the call would never return (decided from the script)"""


class Runaway(BaseException):
    """far more select() rounds than any correct implementation needs"""


class OffGrid(BaseException):
    """a select() timeout that is not a whole number of ticks"""


class FakeProc:
    """what `SubprocessChannelIO.closed` looks at: `poll()` then `returncode`"""

    def __init__(self, sim):
        self.sim = sim
        self.returncode = None
        self.pid = 0

    def poll(self):
        if self.returncode is None and self.sim.gone is not None and vclock.CLOCK.ticks >= self.sim.gone:
            self.returncode = 0
        return self.returncode


class Sim:
    """the scripted pty"""

    def __init__(self, gone, wready, script, accept):
        self.gone = gone
        self.wready = wready
        self.pend = [(t, bytes(d)) for t, d in script]
        self.accept = list(accept)
        self.sel = []          # select timeouts of the current call (ticks)
        self.limit = 0         # runaway guard for the current call
        self.blocking = False  # the current call has no timeout

    def readable(self, now):
        return bool(self.pend) and self.pend[0][0] <= now

    def writable(self, now):
        return self.wready is not None and self.wready <= now


_PTY = None


def pty_pair():
    """one pty pair per process: all traffic is scripted, the descriptors are only identities"""
    global _PTY
    if _PTY is None:
        _PTY = pty.openpty()
    return _PTY


class PtyIO(tsub.SubprocessChannelIO):
    def __init__(self, sim):  # noqa: the real __init__ spawns bash
        self.pty_master, self.pty_slave = pty_pair()
        self.p = FakeProc(sim)


def to_ticks(secs):
    x = secs * 1024.0
    r = round(x)
    if x != r:
        raise OffGrid(repr(secs))
    return int(r)


class Patched:
    """context manager: scripted select / os.read / os.write for descriptor `fd`, MIN_READ_WAIT = mrw"""

    def __init__(self, sim, fd, mrw_ticks):
        self.sim, self.fd, self.mrw = sim, fd, mrw_ticks

    def _select(self, rl, wl, xl, timeout=None):
        sim, clk = self.sim, vclock.CLOCK
        if self.fd not in rl and self.fd not in wl:
            return _real_select(rl, wl, xl, timeout)
        if timeout is not None and timeout < 0:
            raise ValueError("timeout must be non-negative")
        if timeout is None:
            raise OffGrid("blocking select")
        t = to_ticks(timeout)
        sim.sel.append(t)
        if len(sim.sel) > sim.limit:
            raise Runaway()
        now = clk.ticks
        for_read = self.fd in rl
        if for_read:
            ready_at = sim.pend[0][0] if sim.pend else None
        else:
            ready_at = sim.wready
        if for_read and sim.blocking and ready_at is None and sim.gone is None:
            raise Hang()
        if ready_at is not None and ready_at <= now:
            pass
        elif ready_at is not None and ready_at <= now + t:
            clk.ticks = ready_at
        else:
            clk.ticks = now + t
            return [], [], []
        return ([self.fd] if for_read else []), ([] if for_read else [self.fd]), []

    def _read(self, fd, n):
        if fd != self.fd:
            return _real_os_read(fd, n)
        sim = self.sim
        if not sim.readable(vclock.CLOCK.ticks):
            raise BlockingIOError(11, "Resource temporarily unavailable")
        tick, data = sim.pend[0]
        if len(data) <= n:
            sim.pend.pop(0)
            return data
        sim.pend[0] = (tick, data[n:])
        return data[:n]

    def _write(self, fd, buf):
        if fd != self.fd:
            return _real_os_write(fd, buf)
        sim = self.sim
        buf = bytes(buf)
        k = len(buf)
        if sim.accept:
            k = min(sim.accept.pop(0), len(buf))
        return k

    def __enter__(self):
        self.saved = (select.select, os.read, os.write, tsub.MIN_READ_WAIT)
        select.select, os.read, os.write = self._select, self._read, self._write
        tsub.MIN_READ_WAIT = self.mrw * vclock.TICK
        return self

    def __exit__(self, *a):
        select.select, os.read, os.write, tsub.MIN_READ_WAIT = self.saved


def parse_script(s):
    out = []
    if s != ".":
        for p in s.split(","):
            t, h = p.split("@")
            out.append((int(t), unhx(h)))
    return out


def optn(s):
    return None if s == "-" else int(s)


def nlist(s):
    return [] if s == "." else [int(x) for x in s.split(",")]


def fmt_sel(sel):
    return ",".join(str(x) for x in sel) if sel else "."


def run_case(line: str) -> str:
    toks = line.split()
    mrw, wguard = int(toks[0]), int(toks[1])
    sim = Sim(optn(toks[2]), optn(toks[3]), parse_script(toks[4]), nlist(toks[5]))
    ops = toks[6:]
    clk = vclock.CLOCK
    clk.reset(0)
    io = PtyIO(sim)
    out = []
    with clk, Patched(sim, io.pty_master, mrw):
        for op in ops:
            f = op.split(":")
            gap = int(f[-1])
            clk.ticks += gap
            t0 = clk.ticks
            events = [t for t, _ in sim.pend] + [x for x in (sim.gone, sim.wready) if x is not None]
            sim.sel = []
            try:
                if f[0] == "r":
                    n, T = int(f[1]), optn(f[2])
                    span = max([T or 0] + [e - t0 for e in events])
                    sim.limit = span // max(mrw, 1) + 16
                    sim.blocking = T is None
                    d = io.read(n, None if T is None else T * vclock.TICK)
                    res = "d:" + hx(bytes(d))
                else:
                    sim.limit, sim.blocking = 16, False
                    k = io.write(unhx(f[1]))
                    res = f"w:{int(k)}"
            except TimeoutError:
                res = "to" if f[0] == "r" else "wto"
            except tbot.error.ChannelClosedError:
                res = "cl"
            except Hang:
                res = "hang"
            except Runaway:
                res = "runaway"
            except OffGrid:
                res = "exc:offgrid"
            except Exception as e:  # noqa: anything else the real code raises is an observation
                res = "exc:" + type(e).__name__
            out.append(f"{res}/{clk.ticks}/{fmt_sel(sim.sel)}")
            if res in ("hang", "runaway"):
                break
    return " ".join(out) if out else "."


def observe_constants():
    """(first select timeout of a blocking read in microseconds, write guard in microseconds),
    observed from the running code WITHOUT overriding MIN_READ_WAIT"""
    seen = []

    def sel(rl, wl, xl, timeout=None):
        seen.append(timeout)
        return (list(rl), list(wl), [])

    sim = Sim(None, 0, [(0, b"x")], [])
    io = PtyIO(sim)
    saved = (select.select, os.read, os.write)
    try:
        select.select = sel
        os.read = lambda fd, n: b"x" if fd == io.pty_master else _real_os_read(fd, n)
        os.write = lambda fd, b: len(b) if fd == io.pty_master else _real_os_write(fd, b)
        io.read(1, None)
        io.write(b"x")
    finally:
        select.select, os.read, os.write = saved
    return int(round(seen[0] * 1e6)), int(round(seen[1] * 1e6))


if __name__ == "__main__":
    import sys
    for ln in sys.stdin:
        if ln.strip():
            print(run_case(ln.strip()))
