"""Parameters of the `Quote` cluster, observed on the running code (called from extract_more.py):
the safe-character class of `_hush_quote` and the verbatim text of the `linux.special` tokens."""


class _Probe:
    """a path stand-in whose `at_host` returns a marker that needs no quoting"""

    def at_host(self, _h):
        return "/P"


def extract(p: dict) -> None:
    from tbot.machine.board import uboot
    from tbot.machine.linux import special

    q = uboot._hush_quote
    p["hushSafe"] = [c for c in range(128) if q(chr(c)) == chr(c)]
    p["hushNonAsciiQuoted"] = all(q(chr(c)) != chr(c) for c in list(range(0x80, 0x100)) + [0x2713, 0x1F600])
    p["hushEmpty"] = q("").encode()
    # static tokens
    for name, tok in (("Pipe", special.Pipe), ("Then", special.Then), ("AndThen", special.AndThen),
                      ("OrElse", special.OrElse), ("Background", special.Background)):
        p["sp" + name] = tok._to_string(None)
    # redirections: prefix and suffix around the quoted path, observed on a path that needs no quoting
    for name in ("RedirStdout", "RedirStderr", "RedirBoth", "RedirStdin", "AppendStdout", "AppendStderr",
                 "AppendBoth"):
        s = getattr(special, name)(_Probe())._to_string(None)
        pre, _, post = s.partition("/P")
        assert pre and "/P" in s, s
        p["sp" + name + "Pre"] = pre
        p["sp" + name + "Post"] = post
