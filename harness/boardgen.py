"""Case generator for C18: configurations of the board machines and staged consoles that follow
tbot's protocol — mostly — with fragmentation, delays, garbage and faults at every stage."""
import boardimpl as bi
from wire import hx

SEC = 1024

UB_PROMPTS = [b"U-Boot> ", b"=> ", b"U-Boot# "]
KEYS = [b"\r", b" ", b"\x7f\x7f\x7f\x7f", b"x\r"]
USERS = [b"root", b"admin", b"u", b"r\xc3\xb6\xc3\x9f", b""]
PASSWORDS = [b"hunter2", b"pw", b"root", b"p w", b""]
GARBAGE = [b"[    0.000000] Booting Linux on physical CPU 0x0\r\n", b"random: crng init done\r\n", b"\r\n",
           b"login", b"login:", b"assword", b"ogin: x", b"U-Boo", b"=>", b"auto", b"\xe2\x9c", b"\x93 ok\r\n",
           b"Starting kernel ...\r\n\r\n", b"Hit any key", b"\n\r", b"\r", b"Please press", b"DRAM:  1 GiB\r\n",
           b"##", b"\x1b[0m", b"x", b"\x1b[2J\x1b[H", b"\x1b7\x1b[r\x1b[999;999H\x1b[6n", b"\x1b[", b"H\x1b[u"]


def pcs(l):
    return ",".join(f"{t}@{hx(d)}" for t, d in l) if l else "."


def stage_tok(trig, l):
    return f"{trig}:{pcs(l)}"


def optw(x):
    return "-" if x is None else str(x)


def ub_tok(u):
    if u is None:
        return "-"
    return f"{'~' if u['auto'] is None else u['auto']};{hx(u['keys'])};{hx(u['prompt'])};{optw(u['T'])}"


def lnx_tok(l):
    if l is None:
        return "-"
    return ";".join(["~" if l["ask"] is None else hx(l["ask"]), hx(l["login"]), str(l["delay"]), hx(l["user"]),
                     "~" if l["pw"] is None else hx(l["pw"]), l["pwpat"], optw(l["npt"]), optw(l["T"])])


def case_line(chunk, cap, u, l, init, stages):
    return " ".join([str(chunk), str(cap), ub_tok(u), lnx_tok(l), pcs(init)] + [stage_tok(t, o) for t, o in stages])


def cut(rng, data, style):
    """split `data` into non-empty pieces"""
    if not data:
        return []
    if style == "whole":
        return [data]
    if style == "bytes":
        return [data[i:i + 1] for i in range(len(data))]
    n = len(data)
    k = rng.randint(1, min(n, 6 if style == "few" else 14))
    cuts = sorted(rng.sample(range(1, n), k - 1)) if n > 1 else []
    out, last = [], 0
    for c in cuts + [n]:
        out.append(data[last:c])
        last = c
    return out


def tempo(rng, n, profile):
    """n inter-arrival delays"""
    if profile == "instant":
        return [0] * n
    if profile == "fast":
        return [rng.choice([0, 0, 1, 2, 5, 20]) for _ in range(n)]
    if profile == "medium":
        return [rng.choice([0, 1, 10, 100, 300, 511, 512, 513, 700]) for _ in range(n)]
    return [rng.choice([0, 5, 100, 512, 1024, 1500, 2048, 3000, 5119, 5120, 5121]) for _ in range(n)]


def garbage(rng, k=2):
    return b"".join(rng.choice(GARBAGE) for _ in range(rng.randint(0, k)))


def gen_regex_auto(rng):
    import regen
    r = regen.gen(rng, b"auto:3 ", depth=2)
    return "X" + r.wire(), r


def sample_match(rng, wire):
    """some text that (probably) ends with a match of the autoboot prompt"""
    if wire == bi.DEFAULT_AUTOBOOT_WIRE:
        return rng.choice([b"Hit any key to stop autoboot:  3 ", b"autoboot: ", b"autoboot:\t2 \x08\x08\x08 1 ",
                           b"Hit any key to stop autoboot: 10 "])
    if wire.startswith("L"):
        return bytes.fromhex(wire[1:]) if wire[1:] != "-" else b""
    return rng.choice([b"auto:3 ", b"a", b"auto", b":3 ", b"uu:", b"33  "])


def gen_config(rng):
    mode = rng.choice(["ub", "ub", "lnx", "lnx", "lnx", "ublnx", "ublnx", "ublnx"])
    u = l = None
    if mode != "lnx":
        k = rng.random()
        if k < 0.4:
            auto = bi.DEFAULT_AUTOBOOT_WIRE
        elif k < 0.65:
            auto = None
        elif k < 0.8:
            auto = "L" + hx(rng.choice([b"Hit any key", b"stop autoboot", b"DEL 4 times"]))
        else:
            auto, _ = gen_regex_auto(rng)
        u = {"auto": auto, "keys": rng.choice(KEYS), "prompt": rng.choice(UB_PROMPTS),
             "T": rng.choice([None] * 6 + [5 * SEC] * 6 + [10 * SEC] * 4 + [SEC, 512, 700, 2 * SEC + 100, 3 * SEC] + ([0] if rng.random() < 0.3 else []))}
    if mode != "ub":
        ask = None
        if rng.random() < 0.45:
            ask = rng.choice([b"Please press Enter to activate this console.", b"press Enter", b"Enter"])
        pw = rng.choice(PASSWORDS + [None, None])
        k = rng.random()
        if k < 0.7:
            pwpat = "L" + hx(b"assword: ")
        elif k < 0.85:
            pwpat = "L" + hx(rng.choice([b"Password: ", b"pw? "]))
        else:
            import regen
            pwpat = "X" + regen.Seq(regen.lit(b"assword"), regen.Seq(regen.Rep(regen.Cls([(32, 126)]), 0, 5), regen.lit(b": "))).wire()
        l = {"ask": ask, "login": rng.choice([b"login: ", b"login: ", b"Login:", b"l: "]),
             "delay": rng.choice([0, 0, 0, 2 * SEC, 2 * SEC, 300]), "user": rng.choice(USERS), "pw": pw, "pwpat": pwpat,
             "npt": rng.choice([None, 5 * SEC, 5 * SEC, 5 * SEC, SEC, 100]),
             "T": rng.choice([None] * 6 + [5 * SEC] * 5 + [10 * SEC] * 6 + [3 * SEC, 2 * SEC, 2 * SEC + 1, 600] + ([0] if rng.random() < 0.3 else []))}
        if mode == "ublnx":
            # the Linux channel inherits the U-Boot write black-list: keep credentials printable
            pass
    return mode, u, l


def pw_prompt_text(rng, l):
    w = l["pwpat"]
    if w.startswith("L"):
        t = bytes.fromhex(w[1:])
        return (b"P" if t.startswith(b"assword") else b"") + t
    return rng.choice([b"Password: ", b"Password for x: ", b"Password (8): "])


def gen_case(rng, params):
    mode, u, l = gen_config(rng)
    chunk = rng.choice([params["readChunkSize"]] * 5 + [1, 2, 3, 7, 16])
    cap = rng.choice([12 * SEC, 20 * SEC, 30 * SEC])
    # the protocol: texts the console shows at power-on and in answer to each expected write
    texts = []        # (trig, text, awaited-suffix-length) in the order the writes are expected
    boot_log = garbage(rng, 3)
    if u is not None:
        banner = rng.choice([b"U-Boot 2021.01 (Jan 01 2021)\r\n\r\n", b"\r\nU-Boot SPL\r\n", b""]) + garbage(rng, 2)
        if u["auto"] is not None:
            texts.append(("a", banner + sample_match(rng, u["auto"])))
            texts.append(("a", rng.choice([b"\r\n", b"", b"\x08\x08\x08 0 \r\n"]) + garbage(rng, 1) + u["prompt"]))
        else:
            texts.append(("a", banner + u["prompt"]))
    if l is not None:
        first = boot_log + (l["ask"] + rng.choice([b"", b"\r\n", b" GARBLE"]) if l["ask"] is not None
                            else rng.choice([b"\r\nbuildroot ", b"\r\n", b"host "]) + l["login"])
        if u is not None:
            texts.append(("c", rng.choice([b"boot\r\n", b"boot\r\n", b"boot\r\n", b"", b"boo"]) + first))
        else:
            texts.append(("a", first))
        if l["ask"] is not None:
            texts.append(("c", b"\r\n" + garbage(rng, 2) + rng.choice([b"host ", b""]) + l["login"]))
        if l["delay"]:
            texts.append(("c", b"\r\n" + rng.choice([b"host ", b""]) + l["login"]))
        miss_pw = l["pw"] is not None and rng.random() < 0.25
        if l["pw"] is not None and not miss_pw:
            texts.append(("c", rng.choice([l["user"] + b"\r\n", b"\r\n", b""]) + pw_prompt_text(rng, l)))
            texts.append(("c", b"\r\n" + garbage(rng, 1) + b"# "))
        else:
            texts.append(("c", rng.choice([l["user"] + b"\r\n", b"\r\n"]) + garbage(rng, 1) + b"# "))
    # U-Boot prompt polls: `^C` is a write, too — sometimes the console answers it
    style = rng.choice(["whole", "whole", "few", "few", "many", "bytes"])
    profile = rng.choice(["instant", "fast", "fast", "fast", "fast", "medium", "medium", "slow"])
    outs = []
    for trig, text in texts:
        pieces = cut(rng, text, style if len(text) < 200 or style != "bytes" else "many")
        outs.append([trig, list(zip(tempo(rng, len(pieces), profile), pieces))])
    # faults
    fault = rng.choice(["none", "none", "none", "none", "stall", "stall", "truncate", "late", "trailing", "intr", "swap-trig",
                        "deadline", "random"])
    if outs and fault == "stall":
        k = rng.randrange(len(outs))
        outs[k][1] = []
        del outs[k + 1:]
    elif outs and fault == "truncate":
        k = rng.randrange(len(outs))
        if outs[k][1]:
            j = rng.randrange(len(outs[k][1]))
            outs[k][1] = outs[k][1][:j] + ([(outs[k][1][j][0], outs[k][1][j][1][:-1])] if len(outs[k][1][j][1]) > 1 else [])
        del outs[k + 1:]
    elif outs and fault == "late":
        k = rng.randrange(len(outs))
        if outs[k][1]:
            j = rng.randrange(len(outs[k][1]))
            dt, d = outs[k][1][j]
            outs[k][1][j] = (dt + rng.choice([600, 1100, 2 * SEC, 5 * SEC, 5 * SEC + 1, 10 * SEC, 12 * SEC]), d)
    elif outs and fault == "trailing":
        k = rng.randrange(len(outs))
        outs[k][1].append((rng.choice([0, 1, 50, 600]), rng.choice(GARBAGE)))
    elif outs and fault == "intr" and u is not None:
        # late U-Boot prompt, the console answers every ^C with a fresh prompt
        k = 1 if u["auto"] is not None else 0
        if k < len(outs):
            n = rng.randint(1, 3)
            late = outs[k][1]
            if late:
                late[0] = (late[0][0] + rng.choice([513, 1025, 1600]), late[0][1])
            answers = [["a", [(rng.choice([0, 3]), b"<INTERRUPT>\r\n" + u["prompt"])]] for _ in range(n)]
            outs[k + 1:k + 1] = answers
    elif outs and fault == "swap-trig":
        k = rng.randrange(len(outs))
        outs[k][0] = "a" if outs[k][0] == "c" else "c"
    elif outs and fault == "deadline":
        # make one stage end exactly at / next to a configured deadline
        Ts = [x for x in [(u or {}).get("T"), (l or {}).get("T"), (l or {}).get("npt"), (l or {}).get("delay")] if x]
        if Ts:
            T = rng.choice(Ts)
            k = rng.randrange(len(outs))
            tot = sum(dt for dt, _ in outs[k][1])
            if outs[k][1] and tot <= T + 1:
                dt, d = outs[k][1][-1]
                outs[k][1][-1] = (dt + (T - tot) + rng.choice([-1, 0, 0, 1]), d)
                outs[k][1][-1] = (max(0, outs[k][1][-1][0]), d)
    elif fault == "random":
        outs = [[rng.choice("ac"), [(rng.choice([0, 1, 100, 600, 2000]), rng.choice(GARBAGE + UB_PROMPTS + [b"login: ", b"Password: "]))
                                     for _ in range(rng.randint(0, 4))]] for _ in range(rng.randint(1, 5))]
    if not outs:
        outs = [["a", []]]
    init = outs[0][1]
    stages = [(t, o) for t, o in outs[1:]]
    return case_line(chunk, cap, u, l, init, stages)
