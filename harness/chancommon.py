"""Shared pieces of the channel property modules (C02–C08)."""
import chanimpl

KIND = "chan"
CASE_WALL = 30


def run_impl(line):
    return chanimpl.run_case(line)


def lean_line(line):
    """what the Lean side sees: a regex the harness compiles with re.IGNORECASE (`I…`) becomes the equivalent
    case-sensitive regex (`X…`, classes closed under ASCII case) — flags are not part of the model"""
    import regen
    toks = line.split()
    return " ".join(toks[:4] + [":".join(",".join(regen.fold_field(x) for x in f.split(",")) for f in t.split(":"))
                                for t in toks[4:]])


def model_request(line, impl):
    return KIND + " " + lean_line(line)


def spec_line(line):
    return lean_line(line)


def ops_of(line):
    return line.split()[4:]


def obs_ops(obs):
    return obs.split()[1:]


def shrink_candidates(line):
    """smaller variants: drop an op, drop/merge a script piece, shorten a piece"""
    toks = line.split()
    head, ops = toks[:4], toks[4:]
    for i in range(len(ops)):
        yield " ".join(head + ops[:i] + ops[i + 1:])
    script = [] if head[2] == "." else head[2].split(",")
    for i in range(len(script)):
        rest = script[:i] + script[i + 1:]
        yield " ".join([head[0], head[1], ",".join(rest) if rest else ".", head[3]] + ops)
    for i in range(len(script) - 1):
        t1, h1 = script[i].split("@"); t2, h2 = script[i + 1].split("@")
        merged = script[:i] + [f"{t1}@{h1}{h2}"] + script[i + 2:]
        yield " ".join([head[0], head[1], ",".join(merged), head[3]] + ops)
    for i, p in enumerate(script):
        t, h = p.split("@")
        if len(h) > 2:
            for new in (h[2:], h[:-2]):
                s2 = script[:i] + [f"{t}@{new}"] + script[i + 1:]
                yield " ".join([head[0], head[1], ",".join(s2), head[3]] + ops)
        if t != "0":
            s2 = script[:i] + [f"0@{h}"] + script[i + 1:]
            yield " ".join([head[0], head[1], ",".join(s2), head[3]] + ops)


def classify_common(line, obs):
    ks = []
    toks = line.split()
    script = [] if toks[2] == "." else toks[2].split(",")
    ks.append("pieces=%s" % ("0" if not script else "1" if len(script) == 1 else "2-5" if len(script) <= 5 else "6+"))
    ks.append("chunk=%s" % toks[0])
    for o in obs_ops(obs):
        r = o.split(";")[0]
        ks.append("res=" + r.split(":")[0] + ("/" + r.split(":")[1].split("/")[0] if r.startswith("e:") else ""))
    for op in toks[4:]:
        ks.append("op=" + op.split(":")[0])
    return ks
