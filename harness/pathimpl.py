"""C12 implementation runner: evaluates a `path` case line (syntax: lean/TbotVerif/Driver/Path.lean)
on the REAL classes — `pathlib.PurePosixPath` for `pure` cases, `tbot.machine.linux.Path` on stub
machines for `tpath` cases — and prints the observation in the wire syntax of the Lean driver.

The machines are real `SubprocessConnector` + `Bash`/`Ash` classes that are never entered (no
channel is opened); `clone()` and `==` are the real `SubprocessConnector.clone` and
`Machine.__eq__`.  Nothing in tbot is patched."""
import functools
import pathlib
import shlex
import warnings

import tbot
import tbot.error
from tbot.machine import connector, linux

tbot.log.VERBOSITY = -1
warnings.simplefilter("ignore", DeprecationWarning)

P = pathlib.PurePosixPath


class PathStubBash(connector.SubprocessConnector, linux.Bash):
    name = "stub-bash"


class PathStubAsh(connector.SubprocessConnector, linux.Ash):
    name = "stub-ash"


CLASSES = [PathStubBash, PathStubAsh]
TOKENS = [linux.RedirStdout, linux.RedirStderr, linux.RedirBoth, linux.RedirStdin,
          linux.AppendStdout, linux.AppendStderr, linux.AppendBoth]


class CaseSyntax(Exception):
    pass


# ---- wire helpers -------------------------------------------------------------------------
def hx(s: str) -> str:
    b = s.encode("utf-8")
    return b.hex() if b else "-"


@functools.lru_cache(maxsize=None)
def unhx(h: str) -> str:
    return "" if h == "-" else bytes.fromhex(h).decode("utf-8")


def lst(items, sep):
    items = list(items)
    return sep.join(items) if items else "."


def intof(s):
    return -int(s[1:]) if s.startswith("~") else int(s)


@functools.lru_cache(maxsize=None)
def segs_of(s):
    return () if s == "." else tuple(unhx(x) for x in s.split("/"))


def exc_tag(e: BaseException) -> str:
    if isinstance(e, tbot.error.WrongHostError):
        return "WrongHostError"
    for cls in (IndexError, TypeError, ValueError):
        if type(e) is cls:
            return cls.__name__
    return "Other-" + type(e).__name__


# ---- evaluation ---------------------------------------------------------------------------
class Env:
    def __init__(self, pure, machines, host):
        self.pure = pure
        self.ms = machines
        self.host = host           # index of the base path's machine

    def hostidx(self, m):
        for i, x in enumerate(self.ms):
            if x is m:
                return str(i)
        return "?"

    def arg(self, s, cur):
        if s == "i":
            return 5
        if s == "@":
            if cur is None:
                raise CaseSyntax(s)
            return cur
        k = s[0]
        if k == "s":
            return unhx(s[1:])
        if k == "q":
            return P(*segs_of(s[2:]))
        if k == "t":
            h, segs = s[1:].split(":", 1)
            if self.pure:
                return P(*segs_of(segs))
            return linux.Path(self.ms[int(h)], *segs_of(segs))
        raise CaseSyntax(s)

    def args(self, s, cur):
        return [] if s == "." else [self.arg(x, cur) for x in s.split(",")]

    def mk(self, args):
        if self.pure:
            return P(*args)
        return linux.Path(self.ms[self.host], *args)

    def apply(self, p, op):
        k, _, r = op.partition(":")
        if k == "parent":
            return p.parent
        if k == "par":
            return p.parents[intof(r)]
        if k == "wn":
            return p.with_name(unhx(r))
        if k == "ws":
            return p.with_stem(unhx(r))
        if k == "wx":
            return p.with_suffix(unhx(r))
        if k == "jp":
            return p.joinpath(*self.args(r, p))
        if k == "div":
            return p / self.arg(r, p)
        if k == "rdiv":
            return self.arg(r, p) / p
        if k == "rel":
            return p.relative_to(*self.args(r, p))
        raise CaseSyntax(op)

    def pstr(self, p):
        """the string of a path as its own machine sees it"""
        return str(p) if self.pure else p.at_host(p.host)

    def pathval(self, r):
        if self.pure:
            if type(r) is not P:
                return None
            h = str(self.host)
        else:
            if type(r) is not linux.Path:
                return None
            h = self.hostidx(r.host)
        return f"{h}:{hx(self.pstr(r))}:{lst((hx(x) for x in r.parts), '/')}"

    def query(self, p, q):
        k, _, r = q.partition(":")
        if k == "str":
            return "s:" + hx(self.pstr(p))
        if k == "parts":
            v = p.parts
            return "l:" + lst((hx(x) for x in v), ",") if type(v) is tuple else "E:BadType"
        if k in ("name", "suffix", "stem"):
            v = getattr(p, k)
            return "s:" + hx(v) if type(v) is str else "E:BadType"
        if k == "suffixes":
            v = p.suffixes
            return "l:" + lst((hx(x) for x in v), ",") if type(v) is list else "E:BadType"
        if k == "abs":
            v = p.is_absolute()
            return "b:" + ("1" if v else "0") if type(v) is bool else "E:BadType"
        if k == "plen":
            return "n:%d" % len(p.parents)
        if k in ("plist", "psl"):
            if k == "plist":
                v = list(p.parents)
            else:
                a, b = r.split(":")
                v = p.parents[(None if a == "-" else intof(a)):(None if b == "-" else intof(b))]
                if type(v) is not tuple:
                    return "E:BadType"
            items = [self.pathval(x) for x in v]
            return "E:BadType" if None in items else "P:" + lst(items, ",")
        if k == "o":
            v = self.pathval(self.apply(p, r))
            return "E:BadType" if v is None else "p:" + v
        if k == "isrel":
            v = p.is_relative_to(*self.args(r, p))
            return "b:" + ("1" if v else "0") if type(v) is bool else "E:BadType"
        if k == "match":
            v = p.match(unhx(r))
            return "b:" + ("1" if v else "0") if type(v) is bool else "E:BadType"
        if k == "cmp":
            o = self.arg(r, p)
            eq = p == o
            bits = [eq, p < o, p <= o, p > o, p >= o, (not eq) or hash(p) == hash(o)]
            if (p != o) == eq or any(type(b) is not bool for b in bits):
                return "E:BadType"
            return "c:" + "".join("1" if b else "0" for b in bits)
        if self.pure:
            # pathlib has no hosts; the two entry points that have a pathlib reading
            if k == "at":
                return "s:" + hx(str(p))
            if k == "esc":
                return "s:" + hx(shlex.quote(str(p)))
            raise CaseSyntax("host query in a pure case: " + q)
        if k == "at":
            return "s:" + hx(p.at_host(self.ms[int(r)]))
        if k == "esc":
            return "s:" + hx(self.ms[int(r)].escape(p))
        if k == "redir":
            t, h = r.split(":")
            # ONE token object per (kind, path) of a case, handed to every machine it is asked for: whether a machine
            # accepts it must not depend on who rendered it before
            key = (int(t), str(p), id(p.host))
            if not hasattr(self, "_tokens"):
                self._tokens = {}
            if key not in self._tokens:
                self._tokens[key] = TOKENS[int(t)](p)
            return "s:" + hx(self.ms[int(h)].escape(self._tokens[key]))
        if k == "bg":
            h, o, e = r.split(",")
            kw = {}
            if o != "-":
                kw["stdout"] = self.arg(o, p)
            if e != "-":
                kw["stderr"] = self.arg(e, p)
            return "s:" + hx(self.ms[int(h)].escape(linux.Background(**kw)))
        if k == "auth":
            a = linux.auth.PrivateKeyAuthenticator(p)
            return "s:" + hx(a.get_key_for_host(None if r == "-" else self.ms[int(r)]))
        raise CaseSyntax(q)


def build_machines(spec):
    ms = []
    for s in spec.split(","):
        if s[0] == "n":
            ms.append(CLASSES[int(s[1:])]())
        elif s[0] == "c":
            ms.append(ms[int(s[1:])].clone())
        else:
            raise CaseSyntax(s)
    return ms


def run_case(line: str) -> str:
    toks = line.split()
    if len(toks) != 6 or toks[0] not in ("pure", "tpath"):
        raise CaseSyntax(line)
    mode, mspec, host, args, chain, queries = toks
    env = Env(mode == "pure", build_machines(mspec), int(host))
    try:
        a = env.args(args, None)
        p = env.mk(a)
    except CaseSyntax:
        raise
    except Exception as e:
        return "fail:0:" + exc_tag(e)
    if chain != ".":
        for k, op in enumerate(chain.split(";")):
            try:
                p = env.apply(p, op)
            except CaseSyntax:
                raise
            except Exception as e:
                return f"fail:{k + 1}:" + exc_tag(e)
            if env.pathval(p) is None:
                return f"fail:{k + 1}:BadType"
    if queries == ".":
        return "."
    out = []
    for q in queries.split(";"):
        try:
            out.append(env.query(p, q))
        except CaseSyntax:
            raise
        except Exception as e:
            out.append("E:" + exc_tag(e))
    return " ".join(out)


if __name__ == "__main__":
    import sys
    for ln in sys.stdin:
        ln = ln.strip()
        if ln:
            print(run_case(ln))
