"""C01Q — helper check for C01 (T1, T2): the quoting of `Bash.escape` / `Ash.escape`.

Two kinds of cases:
  esc <bash|ash> <bl> <args>   the REAL escape method against the Lean model, and `Spec.C01Q`
                               (one hazard-free shell word per str argument, tokens verbatim, no CR/LF
                               added, black-list equivalence) evaluated on the REAL output;
  split <line>                 validation of the Lean POSIX splitter against the installed bash and dash.
"""
import itertools
import shlex

import quote as q
from quote import KIND, CASE_WALL, shrink_candidates, chars  # noqa: F401
from wire import hx, unhx

SPECS = ["C01Q"]
THEOREMS = [
    "Quote.shlexSafe_plain", "Quote.shlexNonAsciiQuoted", "Quote.hazards_not_safe", "Quote.nonascii_not_safe",
    "C01Q.posixWords_escape", "C01Q.no_hazard", "C01Q.word_count", "C01Q.one_word", "C01Q.one_word_alone",
    "C01Q.forbidden_escape", "C01Q.escape_count", "C01Q.escape_CR", "C01Q.escape_LF", "C01Q.escape_no_CR_LF",
    "Quote.enc_shlexQuoteC", "C01Q.escape_utf8", "C01Q.posixWords_escape_utf8",
    "Quote.segCheck_escapeArgs", "Quote.count_escapeArgs", "Quote.forbidden_escapeArgs",
    "C01Q.spec_holds", "C01Q.segCheck_sound",
]
LEAN_MODULES = ["TbotVerif.Props.C01Q"]
QUICK_N, THOROUGH_N = 6000, 90000
QUICK_BUDGET, THOROUGH_BUDGET = 40, 600
RULE = ("esc cases: argument lists of length 0-6 over {str, Raw, Pipe/Then/AndThen/OrElse/Background, the seven "
        "redirections, linux.Path, unsupported object}; strings are per-position mixtures of safe characters, every "
        "shell metacharacter, both quotes, backslash runs, $x, backquote, !, globs, newline, tab, control bytes, "
        "2/3/4-byte UTF-8 (incl. encoding boundaries), empty, lengths 0-20 and 500-530; bash and ash; a random "
        "black-list. split cases: quoted lines (as produced, mutated, hand-written double-quote forms) run by the real "
        "bash and dash when the Lean splitter accepts them. Non-trivial: an esc case where some argument had to be "
        "quoted, or a split case that went to the real shells with a quote character in it; distinct = distinct case lines")
TRUSTED = [
    "CPython's shlex.quote is reached through the real Bash.escape / Ash.escape (not re-implemented)",
    "the POSIX splitter model `Quote.split` is validated against /bin/bash 5.2 and /bin/dash ONLY on lines it "
    "accepts (refused lines are never executed); that it refuses every line a shell would treat specially rests on "
    "the table fact `shlexSafe_plain` (unquoted bytes are letters, digits, % + , - . / : = @ _) and on reading POSIX",
    "bash is run non-interactively (no history expansion); `!` is a hazard in the model but not exercised in bash",
    "byte strings that are not valid UTF-8 reach only the split cases (a Python str cannot carry them)",
]
ASSUMPTIONS = ["arguments are Python str of Unicode scalar values (no lone surrogates) without NUL",
               "linux.Path arguments are generated already normalised (PurePosixPath normalisation belongs to C12)",
               "redirection suffixes are empty or start with a blank (Case.wf; true of the regenerated token table)"]

ALPHA = ["a", " ", "'", '"', "\\", "$", "`", "!", "*", "\n", "\t", ";", "#", "é", "=", "~"]   # 16 symbols


def gen_item(rng):
    r = rng.random()
    if r < 0.74:
        return "s:" + chars(q.gen_string(rng, q.POSIX_HAZ, q.SNIPPETS_POSIX, allow_ctrl=True))
    if r < 0.80:
        return "r:" + chars(q.gen_string(rng, q.POSIX_HAZ, q.SNIPPETS_POSIX, allow_ctrl=False, long_ok=False))
    if r < 0.87:
        return "t:" + rng.choice(sorted(q.STATIC))
    if r < 0.93:
        return "d:" + rng.choice(sorted(q.REDIR)) + ":" + chars(q.gen_path(rng, q.POSIX_HAZ))
    if r < 0.98:
        return "p:" + chars(q.gen_path(rng, q.POSIX_HAZ))
    return "o"


def gen_line_for_split(rng):
    """a command line: mostly the quoting of random arguments, sometimes mutated or hand-written"""
    r = rng.random()
    args = [q.gen_string(rng, q.POSIX_HAZ, q.SNIPPETS_POSIX, allow_ctrl=True, long_ok=False).replace("\0", "")
            for _ in range(rng.choice([0, 1, 1, 2, 3, 4]))]
    line = " ".join(shlex.quote(a) for a in args).encode("utf-8")
    if r < 0.55:
        return line
    if r < 0.70:   # double-quote forms and adjacent quoted pieces, harmless content
        pieces = []
        for _ in range(rng.randint(1, 4)):
            body = "".join(rng.choice("ab =:,./-%+@_*?[]{}~#;&|<>()^\t\n'") for _ in range(rng.randint(0, 4)))
            if rng.random() < 0.2:   # bytes that are live inside double quotes: the model must refuse them there
                i = rng.randint(0, len(body))
                body = body[:i] + rng.choice(["$", "$x", "`", "\\", "!", "\\\""]) + body[i:]
            k = rng.random()
            if k < 0.4:
                pieces.append('"' + body + '"')
            elif k < 0.7:
                pieces.append("'" + body.replace("'", "") + "'")
            else:
                pieces.append("".join(c for c in body if c in q.SAFE) or "a")
            if rng.random() < 0.5:
                pieces.append(" " * rng.randint(1, 3))
        return "".join(pieces).encode()
    if r < 0.80:   # raw bytes inside single quotes (also invalid UTF-8)
        body = bytes(rng.choice([0x80, 0xff, 0xc3, 0xa9, 0x7f, 0x01, 0x1b, 0x61, 0x20, 0x22, 0x5c, 0x24]) for _ in range(rng.randint(1, 6)))
        return b"'" + body + b"'" + (b" " + line if line else b"")
    # mutate: delete / insert / duplicate a byte (often produces a hazard)
    b = bytearray(line or b"a")
    for _ in range(rng.randint(1, 2)):
        i = rng.randrange(len(b) + 1)
        k = rng.random()
        if k < 0.4 and b:
            del b[min(i, len(b) - 1)]
        elif k < 0.8:
            b.insert(i, rng.choice(b" '\"\\$a"))
        elif b:
            b.insert(i, b[min(i, len(b) - 1)])
    return bytes(b).replace(b"\0", b"")


def gen_case(rng, params):
    r = rng.random()
    if r < 0.12:
        return "split " + hx(gen_line_for_split(rng))
    shell = rng.choice(["bash", "ash"])
    if r < 0.22:   # one short string over the hazard alphabet (the exhaustive space, sampled)
        s = "".join(rng.choice(ALPHA) for _ in range(rng.randint(0, 4)))
        return f"esc {shell} {q.gen_bl(rng)} s:{chars(s)}"
    n = rng.choice([0, 1, 1, 2, 2, 3, 3, 4, 5, 6])
    items = [gen_item(rng) for _ in range(n)]
    return f"esc {shell} {q.gen_bl(rng)} {q.items_wire(items)}"


def run_impl(line):
    return q.run_case(line)


def classify(line, obs):
    toks = line.split()
    ks = ["kind=" + toks[0], "obs=" + obs.split(":")[0].split("/")[0]]
    if toks[0] == "split":
        b = unhx(toks[1])
        ks.append("split:" + ("refused-not-run" if obs == "hazard" else "run-by-bash+dash"))
        if b"'" in b:
            ks.append("split:has-squote")
        if b'"' in b:
            ks.append("split:has-dquote")
        if any(c >= 0x80 for c in b):
            ks.append("split:has-high-byte")
        return ks
    ks.append("shell=" + toks[1])
    items = q.arg_items(toks[3])
    ks.append("nargs=" + (str(len(items)) if len(items) < 4 else "4+"))
    for it in items:
        f = it.split(":")
        ks.append("arg=" + f[0])
        if f[0] == "s":
            b = unhx(f[1])
            if not b:
                ks.append("str:empty")
            if len(b) >= 500:
                ks.append("str:long")
            if b"'" in b:
                ks.append("str:squote")
            if b"\n" in b:
                ks.append("str:newline")
            if any(c >= 0x80 for c in b):
                ks.append("str:nonascii")
            if any(c < 32 or c == 127 for c in b):
                ks.append("str:control")
            if b and all(chr(c) in "abcdefghijklmnopqrstuvwxyzABCDEFGHIJKLMNOPQRSTUVWXYZ0123456789_@%+=:,./-" for c in b):
                ks.append("str:safe-unquoted")
    return ks


def nontrivial(line, obs):
    toks = line.split()
    if toks[0] == "split":
        b = unhx(toks[1])
        return obs.startswith("w:") and (b"'" in b or b'"' in b)
    if not obs.startswith("l:"):
        return False
    plain = set(b"abcdefghijklmnopqrstuvwxyzABCDEFGHIJKLMNOPQRSTUVWXYZ0123456789_@%+=:,./-")
    for it in q.arg_items(toks[3]):
        if it.startswith("s:"):
            b = unhx(it[2:])
            if not b or any(c not in plain for c in b):
                return True
    return False


def exhaustive(params):
    """every string of length <= 3 over the 16-symbol hazard alphabet as a single argument (4369
    cases, both shells alternating), every pair of strings of length <= 1 (289), and the quoted
    form of every string of length <= 2 run through the real shells"""
    i = 0
    for n in range(0, 4):
        for tup in itertools.product(ALPHA, repeat=n):
            i += 1
            yield f"esc {'bash' if i % 2 else 'ash'} 03 s:{chars(''.join(tup))}"
    one = [""] + ALPHA
    for a in one:
        for b in one:
            yield f"esc bash - s:{chars(a)},s:{chars(b)}"
    for n in range(0, 3):
        for tup in itertools.product(ALPHA, repeat=n):
            yield "split " + hx(shlex.quote("".join(tup)).encode("utf-8"))
    for a in one:
        for b in one:
            yield "split " + hx((shlex.quote(a) + " " + shlex.quote(b)).encode("utf-8"))


def explain(line, impl, model):
    return ("Spec.C01Q: each str argument must be read back as exactly one word by the hazard-rejecting POSIX splitter, "
            "special tokens verbatim, no CR/LF added; for split cases the real shells must agree with the model")
