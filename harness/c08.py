"""C08: attached log streams — attach/detach sequences around consecutive commands."""
import changen as g
from wire import hx, opt, lst
from chancommon import KIND, CASE_WALL, shrink_candidates as _chan_shrink, classify_common  # noqa: F401
from chancommon import run_impl as _chan_run_impl

SPECS = ["C08"]
THEOREMS = ["C08.case_spec_partial", "C08.case_spec_full_is_false", "C08.attached_invariant", "C08.reads_pass_through", "C08.fw_prefix", "C08.fw_all", "C08.fw_literal", "C08.fw_at_prompt", "C08.detach_clean", "C08.detach_regex", "C08.overlap_spec", "C08.ovl_longest", "C08.asciiT_decodeReplace", "C08.asciiT_fragments", "C08.fwdFor_text", "C08.step",
            "C08.case_spec_overlapping", "C08.window_of_spec", "C08.stream_gets_exactly_its_window", "C08.model_step", "C08.vstep",
            "C08.fwdFor_visFwd", "C08.Eff.vis"]
LEAN_MODULES = ["TbotVerif.Props.C08", "TbotVerif.Props.C08OverlapAttach"]
QUICK_N, THOROUGH_N = 6000, 100000
QUICK_BUDGET, THOROUGH_BUDGET = 40, 900
RULE = ("literal and regex prompts, both suppression modes, 1-4 consecutive commands each read with read_until_prompt / "
        "read / expect / read_until_timeout inside sequential or nested attach/detach frames; pieces end inside prompt "
        "look-alikes, prompts appear mid-output, UTF-8 sequences are split; non-trivial = a stream was attached with "
        "suppression on and some read ended inside a prompt prefix (hold-back exercised), or two streams were attached at "
        "once; about 6% of the cases have only show_prompt=1 attachments, up to three open at once, ended in ANY order "
        "(`st-@<k>` ends the attachment of stream k, not necessarily the innermost one); distinct = distinct case lines")
TRUSTED = ["text-level comparison uses the ASCII projection (bytes < 0x80), which commutes with decoding for every fragmentation"]
ASSUMPTIONS = ["stream contents are observed as the sequence of str fragments written to the attached object"]


def run_impl(line):
    if line.startswith("exec-log"):
        import c08consumer
        return c08consumer.run(line)
    return _chan_run_impl(line)


def model_request(line, impl):
    if line.startswith("exec-log"):
        return "chanlog " + line + " || " + impl
    return KIND + " " + line


def specs_for(line):
    return ["C08X"] if line.startswith("exec-log") else SPECS


def _read_op(rng, lit):
    k = rng.random()
    if k < 0.6:
        return f"rup:-:{opt(rng.choice([0, 1, 1024]))}"
    if k < 0.7:
        return f"read:{rng.choice([1, 2, 5])}:1"
    if k < 0.8:
        return "read:-:1"
    if k < 0.9:
        return f"ex:1:L{hx(rng.choice([b'x', b'ab', lit]))}"
    return "rut:1"


def _overlap_ops(rng, lit, n_cmds):
    """attachments that ALL show the prompt (nothing is ever suppressed in such a case), up to three open at the same
    time, ended in any order: `st-@<k>` names the stream whose attachment ends; the innermost one is ended either way"""
    ops, open_, sid = [], [], 0
    for _ in range(n_cmds + rng.randint(0, 2)):
        while len(open_) < 3 and rng.random() < (0.85 if not open_ else 0.45):
            ops.append(f"st+:{sid}:1"); open_.append(sid); sid += 1
        ops.append(_read_op(rng, lit))
        while open_ and rng.random() < 0.45:
            j = rng.randrange(len(open_))
            if j == len(open_) - 1 and rng.random() < 0.5:
                ops.append(rng.choice(["st-", "st-!"]))
            else:
                ops.append(f"st-@{open_[j]}")
            open_.pop(j)
        if rng.random() < 0.08:
            ops.append(f"prompt:{hx(rng.choice(g.PROMPTS))}")
    while open_:
        ops.append(f"st-@{open_.pop(rng.randrange(len(open_)))}")
    return ops


def gen_case(rng, params):
    if rng.random() < 0.04:
        import c08consumer
        return c08consumer.gen(rng, params)
    overlap = rng.random() < 0.06
    chunk = rng.choice([1, 2, 3, 7, params["readChunkSize"], params["readChunkSize"]])
    regex = rng.random() < 0.25
    lit = rng.choice(g.PROMPTS)
    n_cmds = rng.choice([1, 2, 3, 4])
    ascii_only = rng.random() < 0.7
    data = g.gen_stream(rng, lit, n_cmds)
    if ascii_only:
        data = bytes(c for c in data if c < 128)
    if chunk == params["readChunkSize"] and rng.random() < 0.05:
        marks = [m.end() for m in __import__("re").finditer(__import__("re").escape(lit), data)]
        data, pieces = g.page_cut(rng, data, chunk, marks)
    else:
        pieces = g.cut(rng, data)
    ticks = g.schedule(rng, pieces, "zero")
    ops = []
    if rng.random() < 0.15 and len(data) > 2:
        # a death string that is completed while a stream is attached: the piece that completes it has been read and
        # belongs into the stream like every other piece (the caller may handle the exception and go on reading)
        i = rng.randrange(len(data) - 1)
        ops.append(f"ads:L{hx(data[i:i + rng.randint(1, 3)])}:0")
    if regex:
        import regen
        if rng.random() < 0.6:
            pat = regen.Pat("re", regen.lit(lit))                      # fixed-width regex
        else:
            pat = regen.Pat("re", regen.Seq(regen.lit(lit), regen.Rep(regen.Cls([(120, 120)]), 0, rng.randint(1, 4))))
        ops.append(f"wp+:{pat.wire()}")
    elif rng.random() < 0.9:
        ops.append(f"prompt:{hx(lit)}")
    if overlap:
        ops += _overlap_ops(rng, lit, n_cmds)
        return g.case_line(chunk, params["sendSliceSize"], g.script_wire(ticks, pieces), [], ops)
    sid = 0
    depth = 0
    for _ in range(n_cmds):
        shape = rng.random()
        if shape < 0.6 or depth > 0:
            ops.append(f"st+:{sid}:{rng.choice('01')}"); sid += 1; depth += 1
            if rng.random() < 0.25:
                ops.append(f"st+:{sid}:{rng.choice('01')}"); sid += 1; depth += 1
        ops.append(_read_op(rng, lit))
        while depth and rng.random() < 0.7:
            ops.append(rng.choice(["st-", "st-", "st-!"])); depth -= 1
        if rng.random() < 0.05:
            ops.append(f"prompt:{hx(rng.choice(g.PROMPTS))}")
    while depth:
        ops.append("st-"); depth -= 1
    return g.case_line(chunk, params["sendSliceSize"], g.script_wire(ticks, pieces), [], ops)


def classify(line, obs):
    if line.startswith("exec-log"):
        return ["consumer=" + line.split()[1]]
    ks = ["op=st-@" if k.startswith("op=st-@") else k for k in classify_common(line, obs)]
    ops = line.split()[4:]
    if any(o.startswith("st-@") for o in ops):
        ks.append("detach=named/" + ("fifo" if _non_lifo(line) else "lifo"))
    ks.append("prompt=" + ("regex" if any(o.startswith("wp+") for o in ops) else "literal"))
    ks.append("fwd=%d" % min(5, sum(0 if o.split(";")[5] == "." else o.split(";")[5].count(",") + 1 for o in obs.split()[1:])))
    return ks


def _frames(line):
    """walk through the ops: yields (op, open frames before it) with a frame = (stream id, show_prompt), innermost last"""
    st = []
    for o in line.split()[4:]:
        yield o, list(st)
        if o.startswith("st+"):
            st.append((o.split(":")[1], o.split(":")[2]))
        elif o in ("st-", "st-!") and st:
            st.pop()
        elif o.startswith("st-@"):
            for i in range(len(st) - 1, -1, -1):
                if st[i][0] == o[4:]:
                    st.pop(i)
                    break


def _nesting(line):
    """list of (outer_show, inner_show) for attachments open at the same time"""
    pairs = []
    for o, st in _frames(line):
        if o.startswith("st+"):
            for _, x in st:
                pairs.append((x, o.split(":")[2]))
    return pairs


def _non_lifo(line):
    """some `st-@<k>` ends an attachment that is not the innermost one"""
    for o, st in _frames(line):
        if o.startswith("st-@"):
            idx = [i for i, (sid, _) in enumerate(st) if sid == o[4:]]
            if idx and idx[-1] != len(st) - 1:
                return True
    return False


def nontrivial(line, obs):
    if line.startswith("exec-log"):
        return True
    ops = line.split()[4:]
    return any(o.startswith("st+") and o.endswith(":0") for o in ops) or bool(_nesting(line))


# ---- known findings -----------------------------------------------------------------------
def kf_nested_mixed_mode(line, impl, model):
    """an attachment is opened while another one with a different show_prompt is open: the
    suppression mode is channel-global, so the outer stream follows the inner one's mode"""
    # (… and the implementation behaves exactly as the model of the unchanged code does: another misbehaviour on
    # the same shape of case is a different finding)
    return impl == model and any(a != b for a, b in _nesting(line))


def kf_nested_holdback(line, impl, model):
    """an attachment is opened while another suppressing attachment is open: the hold-back buffer
    is channel-global, so bytes read before the inner attach can be flushed to the inner stream"""
    return impl == model and any(a == "0" and b == "0" for a, b in _nesting(line))


def _prompt_change_while_suppressing(line):
    for o, st in _frames(line):
        if st and st[-1][1] == "0" and (o.startswith(("prompt:", "wp+", "wp-")) or (o.startswith("rup:") and not o.startswith("rup:-"))):
            return True
    return False


def kf_prompt_change(line, impl, model):
    """the channel prompt is changed (assignment, with_prompt enter/exit, per-call prompt of
    read_until_prompt) while an attachment with suppression is open: the hold-back buffer was
    computed for the old prompt and is neither flushed nor re-examined"""
    return impl == model and _prompt_change_while_suppressing(line)


def shrink_candidates(line):
    if line.startswith("exec-log"):
        toks = line.split()
        n0 = 5 if toks[1] == "uboot" else 4 if toks[1] == "overlap" else 3
        for i in range(n0, len(toks)):
            if len(toks) - n0 > 1:
                yield " ".join(toks[:i] + toks[i + 1:])
        return
    yield from _chan_shrink(line)
