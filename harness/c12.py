"""C12 — Path behaves like PurePosixPath and refuses to be used on a foreign host.

Two differentials on the same case language: `pure` cases run `pathlib.PurePosixPath` against the
Lean `PurePath` model (the reference the Spec is written in), `tpath` cases run the real
`tbot.machine.linux.Path` on stub machines against the Lean `TPath` model; `Spec.C12` (= "the
observation is the reference observation": pathlib's result or exception type, `WrongHostError`
iff a path of a machine that is not clone-equivalent is involved) is evaluated on every
implementation observation."""
import pathgen as g
import pathimpl

KIND = "path"
SPECS = ["C12"]
LEAN_MODULES = ["TbotVerif.Props.C12"]
THEOREMS = [
    # the property: tbot model = reference (pathlib + host rule) for every well-formed case outside the quirk
    "C12.spec_holds_partial", "C12.tpath_run_eq_ref", "C12.pure_spec", "C12.withSuffix_quirk_witness",
    "PathM.withSuffix_inconsistent_iff", "PathM.parse_format_roundtrip",
    # TPath.op = PurePath.op, operation by operation
    "PathM.tp_name", "PathM.tp_suffix", "PathM.tp_suffixes", "PathM.tp_stem", "PathM.tp_parts",
    "PathM.tp_isAbsolute", "PathM.tp_match", "PathM.tp_cmp", "PathM.tp_withName", "PathM.tp_withStem",
    "PathM.tp_withSuffix", "PathM.tp_withSuffix_raw", "PathM.tp_parent", "PathM.tp_parentsLen",
    "PathM.tp_parentsGet", "PathM.tp_parentsList", "PathM.tp_parentsSlice", "PathM.tp_new", "PathM.tp_joinpath",
    "PathM.tp_truediv", "PathM.tp_rtruediv", "PathM.tp_relativeTo", "PathM.tp_isRelativeTo",
    "PathM.relativeTo_isRelativeTo", "C12.tp_eq_hash",
    # parents = iterate parent
    "C12.parents_eq_iterate_parent", "C12.parentsList_length", "C12.parentsGet_neg", "C12.isAbsolute_iff_root",
    # host decision logic
    "PathM.prepareArgs_eq", "PathM.prepareArgs_wrongHost_iff", "C12.new_wrongHost_iff",
    "C12.joinpath_wrongHost_iff", "C12.truediv_wrongHost_iff", "C12.rtruediv_wrongHost_iff",
    "C12.relativeTo_wrongHost_iff", "C12.isRelativeTo_wrongHost_iff", "PathM.atHost_wrongHost_iff",
    "PathM.escape_wrongHost_iff", "PathM.redir_wrongHost_iff", "PathM.background_wrongHost_iff",
    "PathM.authKey_wrongHost_iff",
    # Machine.__eq__ = clone-equivalence
    "PathM.machEq_iff_cloneEq", "PathM.cloneEq_equivalence", "PathM.cloneEq_clone", "PathM.cloneEq_fresh",
    "PathM.clone_eq", "PathM.Mach.eq_trans",
]
QUICK_N, THOROUGH_N = 9000, 36000
QUICK_BUDGET, THOROUGH_BUDGET = 40, 600
CASE_WALL = 20
RULE = ("grid cases: a segment tuple (alphabet of 16 edge-case segments, length <= 3) with ~270 queries = every "
        "unary operation, parents[-4..4], slices, and every binary operation with every alphabet element as str / "
        "Path argument, once on pathlib (`pure`) and once on tbot's Path (`tpath`); host cases: every host-taking "
        "entry point x 6 machines (same, clone, clone of clone, foreign same class, foreign other class, its "
        "clone) x base host; random cases: random args (str / Path on any machine / PurePosixPath / int), "
        "chains of <= 3 path-valued operations, 1..8 queries.  The quick tier walks a seed-shuffled "
        "permutation of the grid; thorough enumerates it completely.  non-trivial: the construction and chain "
        "succeed and at least one query yields a value; distinct = distinct case lines")
TRUSTED = ["pathlib.PurePosixPath of the running CPython (3.12) is the oracle named by the property; the Lean "
           "`PurePath` model is tied to it by the `pure` differential (exhaustive on the grid), not by proof",
           "shlex.quote agrees with `shQuote` (tested by the escape / redirection cases)"]
ASSUMPTIONS = ["match(): patterns without character classes, strings without line-boundary characters",
               "paths are compared with tbot Paths only (comparison with other types is NotImplemented)",
               "`str / Path` for the reflected operator: a tbot Path on the left is the ordinary `/`",
               "pathlib 3.12 quirk excluded from the theorem (hypothesis `quirkFree`): with_suffix('') on a name "
               "whose stem is '.' ('..x') — pathlib caches a '.' component, tbot re-parses and drops it"]

_QUIRK = g.quirk_enabled()
_STATE = {}


def _walker(rng):
    grid = [(m, t) for t in g.grid_tuples() for m in ("pure", "tpath")]
    rng.shuffle(grid)
    hosts = list(g.host_grid())
    rng.shuffle(hosts)
    return {"grid": grid, "gi": 0, "hosts": hosts, "hi": 0}


def gen_case(rng, params):
    st = _STATE.get(id(rng))
    if st is None or st["rng"] is not rng:
        st = _walker(rng)
        st["rng"] = rng
        _STATE[id(rng)] = st
    r = rng.random()
    if r < 0.60 and st["gi"] < len(st["grid"]):
        m, t = st["grid"][st["gi"]]
        st["gi"] += 1
        return g.grid_case(m, t, host=rng.choice([0, 0, 1, 3]) if m == "tpath" else 0)
    if r < 0.64 and st["hi"] < len(st["hosts"]):
        st["hi"] += 1
        return st["hosts"][st["hi"] - 1]
    while True:
        line = g.random_case(rng, _QUIRK)
        if _QUIRK or not g.has_quirk(line):
            return line


def run_impl(line):
    return pathimpl.run_case(line)


def kf_with_suffix_dot_stem(line, impl_obs, model_obs):
    """known-finding key: the case contains with_suffix('') on a path whose stem is '.'"""
    return g.has_quirk(line)


def _qkinds(line):
    toks = line.split()
    return [] if toks[5] == "." else [q.split(":")[0] + (":" + q.split(":")[1] if q.startswith("o:") else "")
                                      for q in toks[5].split(";")]


def classify(line, obs):
    toks = line.split()
    ks = ["mode=" + toks[0], "nargs=%d" % (0 if toks[3] == "." else toks[3].count(",") + 1),
          "chain=%d" % (0 if toks[4] == "." else toks[4].count(";") + 1), "host=" + toks[2]]
    if obs.startswith("fail:"):
        ks.append("fail=" + obs.split(":")[2])
        return ks
    res = obs.split()
    nq = len(res)
    ks.append("queries=%s" % ("1" if nq == 1 else "2-8" if nq <= 8 else "9-99" if nq < 100 else "100+"))
    seen = set()
    for q, r in zip(_qkinds(line), res):
        key = "q=" + q + ("/" + r[2:] if r.startswith("E:") else "")
        if key not in seen:
            seen.add(key)
            ks.append(key)
    return ks


def nontrivial(line, obs):
    return not obs.startswith("fail:") and any(not r.startswith("E:") for r in obs.split() if r != ".")


def explain(line, impl, model):
    qs = line.split()[5].split(";")
    if impl == model and line.startswith("tpath "):
        # the tbot model mirrors the code, the Spec (reference = pathlib + host rule) rejects both:
        # show what pathlib answers (hosts play no role in the one known case, the with_suffix quirk)
        try:
            from leanproc import Lean
            lean = Lean()
            ref = lean.ask("path pure " + line[len("tpath "):])
            lean.close()
        except Exception as e:  # pragma: no cover
            ref = f"(reference unavailable: {e})"
        return (f"implementation and tbot model agree ({impl[:300]}); the reference (pathlib semantics) is "
                f"{ref[:300]}" + ("; with_suffix('') on a stem '.' (pathlib 3.12 quirk)" if g.has_quirk(line) else ""))
    if impl.startswith("fail:") or model.startswith("fail:") or len(impl.split()) != len(model.split()):
        return f"impl={impl[:200]} model={model[:200]}"
    return "; ".join(f"{q}: impl {a} / reference-model {b}"
                     for q, a, b in zip(qs, impl.split(), model.split()) if a != b)[:1000]


def _shrink_str(h):
    """shorter variants of a hex string token"""
    s = g.unhx(h)
    for i in range(len(s)):
        yield g.hx(s[:i] + s[i + 1:])


def shrink_candidates(line):
    mode, ms, host, args, chain, queries = line.split()
    qs = [] if queries == "." else queries.split(";")
    ops = [] if chain == "." else chain.split(";")
    al = [] if args == "." else args.split(",")

    def mk(al=al, ops=ops, qs=qs):
        return " ".join([mode, ms, host, ",".join(al) if al else ".", ";".join(ops) if ops else ".",
                         ";".join(qs) if qs else "."])
    if len(qs) > 1:
        for q in qs:
            yield mk(qs=[q])
    for i in range(len(ops)):
        yield mk(ops=ops[:i] + ops[i + 1:])
    for i in range(len(al)):
        yield mk(al=al[:i] + al[i + 1:])
    for i, a in enumerate(al):
        if a[0] == "s":
            for h in _shrink_str(a[1:]):
                yield mk(al=al[:i] + ["s" + h] + al[i + 1:])
    # arguments inside the remaining query / ops: shorten hex strings
    for j, q in enumerate(qs):
        head, _, h = q.rpartition(":")
        if h and h not in ("-", ".") and all(c in "0123456789abcdef" for c in h) and len(h) % 2 == 0 \
                and not head.endswith(("par", "psl", "at", "esc", "auth")) and "redir" not in head:
            for h2 in _shrink_str(h):
                yield mk(qs=qs[:j] + [head + ":" + h2] + qs[j + 1:])
        if head.startswith("o:") or "," in q:
            for sep in (",",):
                parts = q.split(sep)
                if len(parts) > 1 and not q.startswith("bg"):
                    for i in range(1, len(parts)):
                        yield mk(qs=qs[:j] + [sep.join(parts[:i] + parts[i + 1:])] + qs[j + 1:])


def exhaustive(params):
    """the complete grid of DESIGN.md C12: every tuple of length <= 3 over the 16-segment alphabet, every
    query, both differentials; then the host grid"""
    for t in g.grid_tuples():
        yield g.grid_case("pure", t)
        yield g.grid_case("tpath", t)
    for t in g.grid_tuples():
        if len(t) <= 2:
            for h in (1, 3, 4):
                yield g.grid_case("tpath", t, host=h)
    yield from g.host_grid()
