"""Run C10 cases on the REAL `LinuxShell.run()` / `RunCommandProxy` of Bash and Ash against real
bash / dash on a pty (with a controlling terminal, so that ^C reaches the foreground command)
behind the re-fragmenting transport of shellio.  The interactive command is
harness/helper/tbvinter.c following a script file; the follow-up command is the C01 helper.

Nothing in tbot is patched.  Synchronisation with the remote happens outside tbot: before the
test body types something (and before read_until_timeout) the harness waits until the command is
blocked in its next read or is gone — the order of tty echo and program output is then fixed."""
import fcntl, os, pty, random, select, shutil, subprocess, tempfile, termios, time

import tbot
import tbot.error
import shellio
from tbot.machine import channel, connector, linux
from wire import hx, unhx, chars, lst

HERE = os.path.dirname(os.path.abspath(__file__))
HANG_AFTER = 1.0       # a read without timeout that sees nothing for this long counts as "hangs"
QUIET_WAIT = 4.0       # upper bound for waiting for the remote to become quiescent


SLEEPERS = ("nanosleep", "nsleep", "hrtimeout")     # kernel wait channels of a process that wakes up by itself


def session_busy(sid):
    """is some process of the session `sid` runnable, in uninterruptible sleep, or sleeping on a timer?  (Then the
    remote side may still produce output: on a loaded machine silence alone does not mean that it never will.)"""
    for name in os.listdir("/proc"):
        if not name.isdigit():
            continue
        try:
            with open(f"/proc/{name}/stat", "rb") as f:
                st = f.read().decode("latin-1")
            rest = st[st.rindex(")") + 2:].split()
            if int(rest[3]) != sid:
                continue
            if rest[0] in ("R", "D"):
                return True
            with open(f"/proc/{name}/wchan", "rb") as f:
                w = f.read().decode("latin-1")
            if any(x in w for x in SLEEPERS):
                return True
        except (OSError, ValueError, IndexError):
            continue
    return False


HANG_CAP = 60.0        # … but not for ever
LAST_HANG_DIAG = [""]  # what the session looked like when a hang was declared (for replays/c10-environment.log)


def session_diag(sid, master):
    out = []
    for name in os.listdir("/proc"):
        if not name.isdigit():
            continue
        try:
            st = open(f"/proc/{name}/stat", "rb").read().decode("latin-1")
            rest = st[st.rindex(")") + 2:].split()
            if int(rest[3]) != sid:
                continue
            out.append(f"{name}{st[st.index('('):st.rindex(')') + 1]}:{rest[0]}:pgrp={rest[2]}:tpgid={rest[5]}:"
                       + open(f"/proc/{name}/wchan", "rb").read().decode("latin-1"))
        except (OSError, ValueError, IndexError):
            continue
    try:
        a = termios.tcgetattr(master)
        out.append(f"iflag={a[0]:o} oflag={a[1]:o} lflag={a[3]:o}")
    except Exception as e:
        out.append("termios:" + type(e).__name__)
    return " ".join(out)


class RemoteSilent(BaseException):
    """a blocking read without timeout got nothing for HANG_AFTER seconds (tbot would wait for ever)"""


def build_inter():
    src = os.path.join(HERE, "helper", "tbvinter.c")
    out_dir = os.path.join(os.path.dirname(HERE), "lean", ".lake", "helper")
    os.makedirs(out_dir, exist_ok=True)
    exe = os.path.join(out_dir, "tbvinter")
    if not os.path.exists(exe) or os.path.getmtime(exe) < os.path.getmtime(src):
        subprocess.check_call(["cc", "-O1", "-o", exe, src])
    return exe


class RunIO(shellio.FragIO):
    """FragIO whose shell owns the pty as controlling terminal (job control, ^C), which can be
    pumped from outside, and which turns an endless wait into RemoteSilent"""

    def __init__(self, argv, sizes=None, linger=0.0, env=None):
        self.master, self.slave = pty.openpty()

        def pre():
            os.setsid()
            fcntl.ioctl(0, termios.TIOCSCTTY, 0)
            # a check started from a background job of a non-interactive shell (nohup … &, a CI runner) inherits
            # SIGINT / SIGQUIT as IGNORED, and a shell hands dispositions that were ignored on its entry on to
            # every command it starts: ^C would then not end the remote command.  The remote side of this check is
            # a terminal session as a user has it: default dispositions.
            import signal
            for sig in (signal.SIGINT, signal.SIGQUIT, signal.SIGTSTP, signal.SIGTTIN, signal.SIGTTOU, signal.SIGHUP,
                        signal.SIGTERM, signal.SIGPIPE):
                signal.signal(sig, signal.SIG_DFL)

        self.p = subprocess.Popen(argv, stdin=self.slave, stdout=self.slave, stderr=self.slave,
                                  preexec_fn=pre, env=env)
        self.sid = self.p.pid          # (setsid in the child: the shell leads its session)
        fl = fcntl.fcntl(self.master, fcntl.F_GETFL)
        fcntl.fcntl(self.master, fcntl.F_SETFL, fl | os.O_NONBLOCK)
        self.buf = bytearray()
        self.sizes = sizes or (lambda: 4096)
        self.linger = linger
        self.rx = bytearray()
        self.tx = bytearray()
        self.pieces = []
        self._closed = False

    def pump(self):
        """move what the pty has into the buffer without handing anything out"""
        while True:
            r, _, _ = select.select([self.master], [], [], 0)
            if self.master not in r:
                return
            try:
                data = os.read(self.master, 65536)
            except (BlockingIOError, OSError):
                return
            if not data:
                return
            self.buf += data
            self.rx += data

    def _fill(self, timeout):
        if timeout is not None:
            return super()._fill(timeout)
        silent = total = 0.0
        while True:
            r, _, _ = select.select([self.master], [], [], 0.1)
            if self.master in r:
                break
            if self.closed:
                raise tbot.error.ChannelClosedError
            silent += 0.1
            total += 0.1
            if silent >= HANG_AFTER:
                # silence counts only while every process behind the pty is blocked (waiting for input / for a child)
                if total < HANG_CAP and session_busy(self.sid):
                    silent = 0.0
                    continue
                LAST_HANG_DIAG[0] = session_diag(self.sid, self.master)
                raise RemoteSilent()
        if self.linger:
            time.sleep(self.linger)
        try:
            data = os.read(self.master, 65536)
        except (BlockingIOError, OSError):
            raise tbot.error.ChannelClosedError
        self.buf += data
        self.rx += data


def make_machine(kind, chunk=None):
    argv, shell_cls = shellio.SHELLS[kind]
    env = dict(os.environ)
    env.update({"PS1": "$ ", "ENV": "", "HISTFILE": "/dev/null", "LC_ALL": "C.UTF-8", "TERM": "dumb"})
    holder = {}

    class M(connector.Connector, shell_cls):
        name = "run-" + kind

        def _connect(self):
            io = RunIO(argv, None, 0.0, env)
            holder["io"] = io
            ch = channel.Channel(io)
            if chunk is not None:
                ch.__class__ = type("ChannelChunk", (channel.Channel,), {"READ_CHUNK_SIZE": chunk, "__slots__": ()})
            return ch

        def clone(self):
            raise NotImplementedError

        @property
        def workdir(self):
            return linux.Path(self, "/tmp")

    m = M()
    m._verif_io = holder
    return m


_machines = {}
_dir = None
_exe = None
_inter = None
_counter = [0]


def setup():
    global _dir, _exe, _inter
    if _dir is None:
        _exe = shellio.build_helper()
        _inter = build_inter()
        _dir = tempfile.mkdtemp(prefix="tbr-")
    return _exe, _inter, _dir


def cleanup():
    global _dir
    for key in list(_machines):
        drop_machine(key)
    if _dir is not None:
        shutil.rmtree(_dir, ignore_errors=True)
        _dir = None


import atexit
atexit.register(cleanup)


def drop_all_machines():
    for key in list(_machines):
        drop_machine(key)


def drop_machine(key):
    m, cx = _machines.pop(key, (None, None))
    if m is not None:
        try:
            m._verif_io["io"].close()
        except Exception:
            pass


def get_machine(kind, chunk):
    import contextlib
    key = (kind, chunk)
    if key not in _machines:
        m = make_machine(kind, chunk=chunk)
        cx = contextlib.ExitStack()
        cx.enter_context(m)
        _machines[key] = (m, cx)
    return _machines[key][0]


def new_id():
    _counter[0] += 1
    return str(_counter[0])


def exc_tag(e):
    if isinstance(e, linux.CommandEndedException):
        return "ended"
    if isinstance(e, tbot.error.ChannelBorrowedError):
        return "borrowed"
    if isinstance(e, tbot.error.IllegalDataException):
        return "illegal"
    if isinstance(e, tbot.error.CommandFailure):
        return "failure"
    if isinstance(e, tbot.error.InvalidRetcodeError):
        return "invalid-retcode"
    if isinstance(e, TimeoutError):
        return "timeout"
    if isinstance(e, AssertionError):
        return "assert"
    if isinstance(e, RemoteSilent):
        return "hang"
    return "other"


class BodyError(Exception):
    """what the test body raises"""


def pat_of(tok):
    assert tok[0] == "L", "only literal patterns are generated"
    return unhx(tok[1:])


def tmo(tok):
    return None if tok == "-" else int(tok) / 1000.0


class Sync:
    """what the harness knows about the remote command, for waiting until it is quiescent"""

    def __init__(self, io, d, cid, prompt):
        self.io, self.prompt = io, prompt
        self.state_file = os.path.join(d, f"state.{cid}")
        self.done = 0          # completed reads of the command, as far as typed input implies
        self.lb = self.pb = False
        self.killed = False
        self.off = False       # the proxy has ended: no more waiting
        self.rx0 = len(io.rx)
        self.rx_need = 0       # the echo of what was typed has arrived when this much was received

    def before_write(self, data):
        """the tty echoes asynchronously, and ^C discards output the master has not read yet:
        remember how much must have arrived before the next thing is typed"""
        self.io.pump()
        self.rx_next = len(self.io.rx) + len(data) + data.count(b"\r") + data.count(b"\n") - data.count(b"\x04")

    def typed(self, data):
        self.rx_need = self.rx_next
        for c in data:
            if c == 3:
                self.killed = True
            elif c == 4:
                if self.lb:
                    self.pb, self.lb = True, False
                else:
                    self.done += 1
                    self.pb = False
            elif c in (10, 13):
                self.done += 1
                self.lb = self.pb = False
            else:
                self.lb = True

    def last_state(self):
        try:
            data = open(self.state_file, "rb").read()
        except FileNotFoundError:
            return None
        lines = data.split(b"\n")[:-1]
        return lines[-1].decode() if lines else None

    def wait_quiet(self):
        if self.off:
            return
        end = time.monotonic() + QUIET_WAIT
        hard = time.monotonic() + HANG_CAP
        while True:
            if time.monotonic() >= end:
                # on a loaded machine the remote may simply not have been scheduled yet
                if time.monotonic() < hard and session_busy(self.io.sid):
                    end = time.monotonic() + 0.5
                else:
                    return
            st = self.last_state()
            self.io.pump()
            if self.killed or st == "X":
                if bytes(self.io.rx[self.rx0:]).endswith(self.prompt):
                    return
            elif st == f"R{self.done}":
                self.io.pump()
                if len(self.io.rx) >= self.rx_need:
                    return
            time.sleep(0.0005)


PROBES = {
    0: lambda ch: ch.read(1, timeout=0.01),
    1: lambda ch: ch.closed,
    2: lambda ch: ch.close(),
    3: lambda ch: ch.__exit__(None, None, None),
    4: lambda ch: ch.borrow().__enter__(),
}


def probe(ch, k):
    if k in PROBES:
        PROBES[k](ch)
    else:
        ch.take()
    return "ok"


def run_op(tok, p, m, io, sync, flags):
    f = tok.split(":")
    n_pc = len(io.pieces)
    try:
        if f[0] in ("s", "l"):
            data, rb = unhx(f[1]), f[2] == "1"
            sync.wait_quiet()
            sync.before_write(data + (b"\r" if f[0] == "l" else b""))
            if f[0] == "s":
                p.send(data, read_back=rb)
            else:
                p.sendline(data, read_back=rb)
                data += b"\r"
            sync.typed(data)
            res = "ok"
        elif f[0] == "c":
            sync.wait_quiet()
            sync.before_write(bytes([int(f[1])]))
            p.sendcontrol(chr(64 + int(f[1])))
            sync.typed(bytes([int(f[1])]))
            res = "ok"
        elif f[0] == "ex":
            r = p.expect([pat_of(x) for x in f[2].split(",")], timeout=tmo(f[1]))
            mt = r.match if isinstance(r.match, str) else r.match[0].decode("utf-8", errors="replace")
            res = f"x:{r.i}:{chars(r.before)}:{chars(mt)}:{chars(r.after)}"
        elif f[0] == "rup":
            res = "t:" + chars(p.read_until_prompt(prompt=None if f[1] == "-" else pat_of(f[1]), timeout=tmo(f[2])))
        elif f[0] == "rut":
            sync.wait_quiet()
            res = "t:" + chars(p.read_until_timeout(tmo(f[1])))
        elif f[0] == "term":
            rc, out = p.terminate()
            res = f"term:{rc}:{chars(out)}"
            flags["terminated"] = True
        elif f[0] == "term0":
            try:
                res = "out:" + chars(p.terminate0())
                flags["terminated"] = True
            except tbot.error.CommandFailure:
                flags["terminated"] = True
                raise
        elif f[0] == "probe":
            res = probe(m.ch, int(f[1]))
        elif f[0] == "w":
            sync.wait_quiet()
            res = "ok"
        else:
            raise ValueError("unknown op " + tok)
    except RemoteSilent:
        res = "e:hang"
        flags["broken"] = True
    except Exception as e:
        res = "e:" + exc_tag(e)
        if isinstance(e, linux.CommandEndedException):
            sync.off = True
    if flags.get("terminated"):
        sync.off = True
    return res + "/" + lst(str(k) for k in io.pieces[n_pc:])


def write_script(d, cid, steps):
    out = []
    for s in ([] if steps == "." else steps.split(",")):
        if s[0] == "P":
            out.append("P " + ("" if s[1:] == "-" else s[1:]))
        elif s[0] == "R":
            out.append("R")
        else:
            out.append(s[0] + " " + s[1:])
    with open(os.path.join(d, f"script.{cid}"), "w") as f:
        f.write("\n".join(out) + ("\n" if out else ""))
    for k in ("state", "lines"):
        try:
            os.remove(os.path.join(d, f"{k}.{cid}"))
        except FileNotFoundError:
            pass


def run_next(m, io, d, tok):
    pre, args, out, st = tok.split("/")
    unl = lambda s: [] if s == "." else [unhx(x) for x in s.split(",")]
    pre, args = unl(pre), unl(args)
    cid = pre[2].decode()
    with open(os.path.join(d, f"out.{cid}"), "wb") as f:
        f.write(unhx(out))
    with open(os.path.join(d, f"status.{cid}"), "wb") as f:
        f.write(st.encode())
    argv_file = os.path.join(d, f"argv.{cid}")
    if os.path.exists(argv_file):
        os.remove(argv_file)
    n_pc = len(io.pieces)
    ok = True
    try:
        rc, text = m.exec(*[x.decode("utf-8") for x in pre + args])
        val = f"rc:{rc}:{chars(text)}"
    except RemoteSilent:
        val, ok = "err:hang", False
    except Exception as e:
        val = "err:" + exc_tag(e)
        ok = isinstance(e, tbot.error.IllegalDataException)
    if os.path.exists(argv_file):
        raw = open(argv_file, "rb").read()
        argv = lst(hx(x) for x in raw.split(b"\0")[:-1])
    else:
        argv = "!"
    return "/".join([val, argv, lst(str(k) for k in io.pieces[n_pc:])]), ok


def read_lines(d, cid):
    try:
        data = open(os.path.join(d, f"lines.{cid}")).read().split("\n")[:-1]
    except FileNotFoundError:
        return "."
    return lst("!" if x == "EOF" else x for x in data)


def run_case(line, seed):
    """line = concrete case; returns the observation line"""
    toks = line.split()
    kind = "dash" if toks[0] == "ash" else "bash"
    chunk = int(toks[1])
    key = (kind, chunk)
    try:
        return _run_case(toks, kind, chunk, key, random.Random(seed))
    except BaseException:
        drop_machine(key)
        raise


def _run_case(toks, kind, chunk, key, rng):
    exe, inter, d = setup()
    try:
        m = get_machine(kind, chunk)
    except Exception as e:
        drop_machine(key)
        return "machine-failed:" + type(e).__name__
    io = m._verif_io["io"]
    mode = rng.choice(["1", "small", "mixed", "mixed", "mixed", "big"])
    n_out = sum(len(s) // 2 for s in toks[4].split(",") if s[0] == "P")
    if n_out > 1500 and mode in ("1", "small"):
        mode = "mixed"     # thousands of tiny reads take longer than the time-outs of the body
    io.sizes = {"1": lambda: 1, "small": lambda: rng.choice([1, 2, 3]), "big": lambda: 4096,
                "mixed": lambda: rng.choice([1, 2, 3, 7, 23, 50, 512, 4096])}[mode]
    io.linger = rng.choice([0.0, 0.0, 0.002])
    unl = lambda s: [] if s == "." else [unhx(x) for x in s.split(",")]
    pre, args, steps, nxt, ops = unl(toks[2]), unl(toks[3]), toks[4], toks[5], toks[6:]
    cid = pre[2].decode()
    write_script(d, cid, steps)
    prompt = m.ch.prompt
    out = []
    flags = {}
    n_pc = len(io.pieces)
    exit_tag = "none"
    entered = False
    body_exc = BodyError()
    sync = Sync(io, d, cid, prompt)
    # RunCommandProxy.__new__ replaces the class of the borrowed channel, so the per-machine
    # READ_CHUNK_SIZE of shellio is lost: the proxy gets the case's chunk size as class attribute
    linux.RunCommandProxy.READ_CHUNK_SIZE = chunk
    try:
        with m.run(*[x.decode("utf-8") for x in pre + args]) as p:
            entered = True
            out.append("E=ok/" + lst(str(k) for k in io.pieces[n_pc:]))
            for tok in ops:
                if tok == "raise":
                    out.append("O=ok/.")
                    raise body_exc
                out.append("O=" + run_op(tok, p, m, io, sync, flags))
    except RemoteSilent:
        exit_tag = "other"
        flags["broken"] = True
    except Exception as e:
        if not entered:
            out.append("E=e:" + exc_tag(e) + "/" + lst(str(k) for k in io.pieces[n_pc:]))
            exit_tag = "notentered"
        elif e is body_exc:
            exit_tag = "body"
        elif type(e) is RuntimeError:
            exit_tag = "runtime"
        else:
            exit_tag = "other"
    finally:
        del linux.RunCommandProxy.READ_CHUNK_SIZE
    out.append("X=" + exit_tag)
    in_sync = (flags.get("terminated") or not entered) and not flags.get("broken")
    if in_sync:
        tok, ok = run_next(m, io, d, nxt)
        out.append("N=" + tok)
        out.append("I=" + read_lines(d, cid))
        if not ok:
            drop_machine(key)
    else:
        out.append("N=-")
        out.append("I=~")
        drop_machine(key)
    return " ".join(out)


def concrete(line):
    """fill in the helper prefixes (interactive helper for the command, C01 helper for the follow-up)
    so that model and implementation see the same command lines"""
    exe, inter, d = setup()
    toks = line.split()
    toks[2] = ",".join([hx(inter.encode()), hx(d.encode()), hx(new_id().encode())])
    f = toks[5].split("/")
    f[0] = ",".join([hx(exe.encode()), hx(d.encode()), hx(new_id().encode())])
    toks[5] = "/".join(f)
    return " ".join(toks)


import verbosity  # noqa: E402
run_case = verbosity.wrap(run_case)   # one case in eight runs at Verbosity.CHANNEL
