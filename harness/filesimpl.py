"""Run C11 cases on the REAL `linux.Path` of real Bash / Ash machines talking to real bash / dash on a
pty behind the re-fragmenting transport of shellio.  The file is looked at INDEPENDENTLY: the
machines are local, so the harness opens it on the local file system."""
import atexit, os, random, shutil, tempfile

import tbot
import tbot.error
from tbot.machine import linux, channel
import shellimpl
from wire import hx, unhx, chars, lst

_dir = None


def workdir():
    global _dir
    if _dir is None:
        _dir = tempfile.mkdtemp(prefix="tbvf-")
    return _dir


def _cleanup():
    global _dir
    if _dir is not None:
        shutil.rmtree(_dir, ignore_errors=True)
        _dir = None


atexit.register(_cleanup)


def exc_tag(e):
    if isinstance(e, tbot.error.IllegalDataException):
        return "illegal"
    if isinstance(e, tbot.error.CommandFailure):
        return "command-failure"
    if isinstance(e, tbot.error.InvalidRetcodeError):
        return "invalid-retcode"
    if isinstance(e, linux.CommandEndedException):
        return "death/1/" + hx(bytes(e.args[0]))
    if isinstance(e, channel.DeathStringException):
        return "death/2/" + hx(bytes(e.args[0]))
    if isinstance(e, TimeoutError):
        return "timeout"
    return "other:" + type(e).__name__


def concrete(line):
    """replace the file NAME of a generated case by the absolute path below the work directory"""
    toks = line.split()
    op, data, name = toks[2].split("/")
    full = os.path.join(workdir().encode(), unhx(name))
    # a text may MENTION the file it is written to (`@@PATH@@`, e.g. a log that quotes an error message about itself)
    data = data.replace(hx(b"@@PATH@@"), hx(full)) if data != "-" else data
    return " ".join(toks[:2] + ["/".join([op, data, hx(full)])])


def run_case(line, seed):
    """line = '<bash|ash> <chunk> <t|b>/<data>/<path>' (concrete); returns the observation token"""
    toks = line.split()
    kind = "dash" if toks[0] == "ash" else "bash"
    chunk = int(toks[1])
    op, data, path = toks[2].split("/")
    data, path = unhx(data), unhx(path)
    rng = random.Random(seed)
    mode = rng.choice(["1", "small", "mixed", "mixed", "big"])
    sizes = {"1": lambda: 1, "small": lambda: rng.choice([1, 2, 3]), "big": lambda: 4096,
             "mixed": lambda: rng.choice([1, 2, 3, 7, 23, 50, 512, 4096])}[mode]
    key = (kind, chunk)
    try:
        return _run(kind, chunk, key, op, data, path, sizes, rng)
    except BaseException:
        # wall-clock timeout or anything else that left the machine in an unknown state
        shellimpl.drop_machine(key)
        raise


def _run(kind, chunk, key, op, data, path, sizes, rng):
    try:
        m = shellimpl.get_machine(kind, chunk)
    except Exception as e:
        shellimpl.drop_machine(key)
        return "machine-failed:" + type(e).__name__
    io = m._verif_io["io"]
    io.sizes = sizes
    io.linger = rng.choice([0.0, 0.0, 0.002])
    if os.path.lexists(path):
        os.remove(path)
    if rng.random() < 0.5:
        # the file exists already and holds something else (longer or shorter than what is written next): a write
        # REPLACES the contents
        with open(path, "wb") as f:
            f.write(rng.choice([b"stale\n", b"previous contents of the file\n" * 40, b"\x00\xff", b"x"]))
    p = linux.Path(m, path.decode("utf-8"))
    n_tx, n_pc = len(io.tx), len(io.pieces)
    broken = False
    try:
        if op == "t":
            ret = "n:%d" % p.write_text(data.decode("utf-8"))
        else:
            ret = "n:%d" % p.write_bytes(data)
    except Exception as e:
        ret = "err:" + exc_tag(e)
        broken = True
    tx_w, pc_w = bytes(io.tx[n_tx:]), io.pieces[n_pc:]
    n_tx, n_pc = len(io.tx), len(io.pieces)
    if broken:
        # an exception inside `run()` leaves the remote command running: the machine is spent
        shellimpl.drop_machine(key)
        return ";".join([ret, "!", "skip", hx(tx_w), "-", lst(map(str, pc_w)), "."])
    # the independent look at the file
    try:
        with open(path, "rb") as f:
            content = hx(f.read())
    except OSError:
        content = "!"
    try:
        if op == "t":
            back = "t:" + chars(p.read_text())
        else:
            back = "b:" + hx(p.read_bytes())
    except Exception as e:
        back = "err:" + exc_tag(e)
        if not isinstance(e, tbot.error.CommandFailure):
            shellimpl.drop_machine(key)
    tx_r, pc_r = bytes(io.tx[n_tx:]), io.pieces[n_pc:]
    return ";".join([ret, content, back, hx(tx_w), hx(tx_r), lst(map(str, pc_w)), lst(map(str, pc_r))])


import verbosity  # noqa: E402
run_case = verbosity.wrap(run_case)   # one case in eight runs at Verbosity.CHANNEL
