#!/bin/sh
# usage: .mut.sh '<python expr old>' '<new>'   (applied to uboot.py)
cd /tmp/r-uboot
/venv/bin/python - "$1" "$2" <<'PY'
import sys
p='tbot/machine/board/uboot.py'
s=open(p).read()
old,new=sys.argv[1],sys.argv[2]
assert s.count(old)>=1,(old,'not found')
open(p,'w').write(s.replace(old,new,1))
PY
cd /tmp/w-uboot && TBOT_VERIF_REPO=/tmp/r-uboot timeout 900 ./check C19 --budget 25 2>&1 | tail -2 | cut -c1-200
/venv/bin/python - <<'PY'
import json,glob
for f in glob.glob('/tmp/w-uboot/replays/C19-0-*.json'):
    d=json.load(open(f))
    print(f.split('/')[-1], d.get('kind'), 'case=',d.get('case','')[:200])
    print(' impl=',d.get('impl_obs','')[:200]); print(' model=',d.get('model_obs','')[:200]); print(' broken=',d.get('broken_theorems'))
PY
git -C /tmp/r-uboot checkout -- .
