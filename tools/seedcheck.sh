#!/bin/sh
# usage: tools/seedcheck.sh <seed-dir> <check-id>...   — apply a seeded defect to /repo, run the
# given checks (quick tier), print their verdict lines, and restore /repo.
set -u
seed="$1"; shift
cd /verif || exit 2
if ! git -C /repo diff --quiet; then echo "/repo is dirty"; exit 2; fi
git -C /repo apply "$seed/patch.diff" || { echo "patch does not apply"; exit 2; }
for c in "$@"; do
  out=$(timeout 900 ./check "$c" 2>&1)
  echo "== $c: exit=$? $(echo "$out" | grep -E 'VIOLATION|tier=' | tr '\n' ' ' | cut -c1-300)"
done
git -C /repo checkout -- .
