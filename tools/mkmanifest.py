#!/usr/bin/env python3
"""Generate MANIFEST.json from the table below (the single place where claims are recorded)."""
import json, os

VERIF = os.path.dirname(os.path.dirname(os.path.abspath(__file__)))
ids = [json.loads(l)["id"] for l in open(os.path.join(VERIF, "properties.jsonl"))]

TECH = "Lean 4 theorem about an executable model + differential correspondence with Spec evaluated on the implementation"

CLAIMS = {
 "C02": dict(
  text="Theorem C02.rup_spec: for every channel state (any history), prompt (literal or regex from the modelled subset, configured "
       "or per call), timeout, chunk size > 0 and script of non-empty pieces, the observation of read_until_prompt satisfies Spec.c02 "
       "(returns exactly when the delivered data ends with the prompt for the first time, result = text of the data before it, "
       "no transport request beyond READ_CHUNK_SIZE, time-out/hang only if no delivered prefix ended with the prompt). The same Spec is "
       "evaluated on the real Channel's observations for thousands of generated (stream, prompt, composition, schedule) cases and the "
       "model's observation is compared token by token. Auxiliary check C02G (reported under C02): theorems C02G.spec_holds, "
       "rupG_some/none, gPromptEnd_iff/none, returns_at_prompt, timeout_never_at_prompt for regex prompts behind a one-byte "
       "look-behind assertion (\\b, ^ under MULTILINE, (?<=[..]), (?<![..])) — the loop returns at the first delivery after which "
       "the least offset whose previous byte satisfies the look-behind and from which the rest is in the language exists; the real "
       "Channel (configured and per-call prompts) is compared with the model and judged by Spec.C02G.",
  note="partial: CPython re / bytes.decode / str.replace are represented by Lean functions validated by the same differential cases; "
       "regex prompts restricted to the modelled subset (classes, sequence, alternation, bounded repetition, end anchor; "
       "plus a leading one-byte look-behind in C02G, whose loop model has no time-outs or chunking); the model is hand-written and tied to the code by testing, not by proof.",
  ref="DESIGN.md section 4 C02"),
 "C04": dict(
  text="Theorem C04.expect_spec: for every channel state, pattern list, timeout and script, expect() returns at the first delivered "
       "piece after which some pattern matches, names the lowest-indexed matching pattern, and before/match/after are the text of the "
       "consumed data around that pattern's first match (Pat.search_bound: 0 <= start <= end <= consumed). Spec.c04 is also evaluated "
       "on the real Channel for generated cases; model and implementation observations are compared. The modelled regex subset "
       "includes positive look-ahead (Re.la; theorem Re.M_la_iff: it succeeds, consuming nothing, iff a prefix of the rest of the "
       "input is in the language — bytes that do not count in the pattern's width), and the generator cuts the stream inside the "
       "looked-ahead text.",
  note="partial: CPython re.search on the regex subset (classes, sequence, alternation, bounded greedy repetition, positive "
       "look-ahead) and bytes.find are modelled (Re.M / findSub) and validated by the same cases.",
  ref="DESIGN.md section 4 C04"),
 "C07": dict(
  text="Theorem C07.c07 / run_refines: for EVERY history of borrow (any nesting), take, end of borrow, I/O, closed/close/__exit__ and "
       "configuration calls on any handle ever created, the `_c`-slot-swapping model of Channel.borrow/take shows exactly what the "
       "ownership reference automaton (access / lent / taken per handle, copied and independent configuration) demands — a simulation "
       "proof by induction over the history. The automaton is evaluated on the real Channel's observations for thousands of random "
       "histories (every I/O method rotated through) and the model is compared with the implementation.",
  note="copy.deepcopy of the configuration is modelled as a value copy; I/O after closing the transport is outside the property.",
  ref="DESIGN.md section 4 C07"),
 "C13": dict(
  text="Theorem C13.run_spec: for EVERY machine class composition (any flat list of pre-connect, connector / console connector, "
       "initialiser incl. PowerControl, shell, post-shell mixins and init hook; any of the mixins' context managers may HANDLE the "
       "exception passing through it), every balanced nesting history and every fault "
       "assignment over all enter/exit/power_check/poweron/poweroff/hook/body points, the operational model of Machine.__enter__/"
       "__exit__ (re-entrancy counter, ExitStack, guard) and PowerControl._init_machine produces exactly the declaratively specified "
       "trace: steps begin in documented order up to the first fault, the body runs iff initialisation completed, exactly what was "
       "begun is torn down in reverse whatever is handled, the caller gets the last tear-down fault not handled by a step further "
       "out, else the set-up's / body's own exception (always; without handling steps: the last exception raised, spec_eq_plain), "
       "the counter is 0 and a fresh entry initialises "
       "again; corollaries power_off_exactly_once, power_off_position, conn_exit_after_power_off, refused_no_power, exc_iff_raised, "
       "body_exception_always_propagates, teardown_fault_propagates_unless_handled, handled_steps_still_torn_down. "
       "The same Spec is evaluated on dynamically composed REAL machine classes with instrumented mixins (15 000 cases per quick run; "
       "thorough: every single fault point and every pair for compositions of <= 7 steps).",
  note="contextlib.ExitStack / generator context-manager semantics are modelled (LIFO, continue past faults, a raising exit "
       "replaces the exception in flight, a handling exit clears it, Machine.__exit__ discards the stack's verdict); the lab-host "
       "clone of a ConsoleConnector does not handle; mixins subclass their Initializer base directly; at most one connector/shell/PowerControl per class.",
  ref="DESIGN.md section 4 C13"),
 "C03": dict(
  text="Theorems C03.op_spec / C03.case_spec: for every channel state and every read(n)/read()/read_iter(max,k)/readline/write/send/"
       "sendline/sendcontrol call — and by ChanCase.keeps + induction for every SEQUENCE of operations — the observation satisfies "
       "Spec.c03: read(n) returns exactly n bytes or raises, every transport request is min(READ_CHUNK_SIZE, max - got), bounded "
       "iteration never exceeds max, readline consumes exactly up to the first line ending, writes offer the not-yet-accepted rest "
       "(capped by the slow-send size) and the accepted segments concatenate to the payload for EVERY partial-write oracle, a "
       "forbidden byte is rejected before the transport write of that call, what reached the transport is a prefix of the request; "
       "conservation_run: bytes handed out ++ bytes left = scripted stream. The Spec is evaluated on the real Channel over random "
       "histories, scripts and partial-write oracles.",
  note="transports accept >= 1 byte per write and honour their timeout (the ChannelIO contract); slow-send chunk size > 0; model tied "
       "to the code by differential testing.",
  ref="DESIGN.md section 4 C03"),
 "C12": dict(
  text="Theorem C12.spec_holds_partial (+ 53 more): for every well-formed case — machine table with clones, constructor arguments, a "
       "chain of path operations and queries — the Lean model of tbot's Path wrapper returns exactly what a Lean model of CPython "
       "3.12 PurePosixPath returns (value or exception type) for every pure operation, parents = iterate parent, and WrongHostError is "
       "raised iff some Path involved belongs to a machine that is not clone-equivalent, for every host-taking entry point (constructor, "
       "/, reflected /, joinpath, relative_to, is_relative_to, at_host, escape, redirection tokens, Background, PrivateKeyAuthenticator). "
       "Two differentials run on the exhaustive segment grid: Lean PurePath vs pathlib, Lean TPath vs the real tbot Path.",
  note="partial: pathlib itself is the oracle and is modelled (tied by the grid, not by proof); the pathlib 3.12 with_suffix('') quirk on "
       "a stem '.' is excluded by hypothesis `quirkFree` (negation proved on the witness; listed as known finding); CPython 3.12.1 only.",
  ref="DESIGN.md section 4 C12"),
 "C16": dict(
  text="Theorem C16.run_spec: for EVERY tree of nested testcases (any depth/width; decorator, named decorator and context-manager forms; "
       "nodes that pass, raise, skip, raise KeyboardInterrupt or catch their children's exceptions) and every sequence of top-level "
       "testcases, the model of _testcase_block / the decorators / both CLI main loops produces a log that the Spec's stack automaton "
       "accepts: begin/end events properly nested with matching names, end flags = how the body ended, skip yields None and never "
       "propagates, NESTING restored, exit status 0 with a final SUCCESS event iff nothing escaped a top-level testcase (130 for "
       "KeyboardInterrupt), nothing run after the failing testcase. Evaluated on the real decorators in-process (thousands of trees) "
       "and end-to-end through /venv/bin/newbot and /venv/bin/tbot subprocesses.",
  note="SystemExit raised by a testcase is outside the domain (newbot maps it to an exit code by design); an end event with "
       "success=true AND skipped=true is read as 'skipped' (as log_event documents); CPython exception semantics are modelled.",
  ref="DESIGN.md section 4 C16"),
 "C17": dict(
  text="Theorems C17.spec_holds, stored_is_concat, printed_is_render, printed_independent_of_splitting, nothing_printed_above_level, "
       "logfile_yields: for every sequence of writes the stored text is each normalised write once in order; what EventIO prints "
       "incrementally equals the batch rendering of the stored text (prefix at every line start) for EVERY splitting of the text into "
       "writes, and nothing is printed above the verbosity level; for every event list and EVERY read size >= 1 the logparser loop "
       "yields exactly the events in closing order, given a decoder satisfying DecoderSpec (instantiated by a toy codec in Lean; "
       "validated against CPython json on every generated file). Evaluated on the real EventIO with captured stdout and the real "
       "logparser.logfile on files written by the real writer.",
  note="CPython's json encoder/decoder is abstracted by DecoderSpec (validated by test); no lone surrogates; prefix/verbosity/NESTING "
       "constant during one event.",
  ref="DESIGN.md section 4 C17"),
 "C20": dict(
  text="Theorem C20.run_spec (+ 21 more): for every machine table (any number of machines, any strings) and every connect/copy "
       "operation, parsing the ssh/scp argv the model of SSHConnector._connect / copy() / _scp_copy builds gives back exactly the "
       "remote machine's configuration: user@host (default user from the jump-host chain), port, StrictHostKeyChecking=no iff "
       "configured, every extra option, BatchMode=yes iff no password, identity file or sshpass password of the authenticator, the "
       "Control* options iff multiplexing, operand order per direction, executing host; unsupported pairings, foreign key paths and "
       "undefined authenticators raise and run nothing. The same parsers + Spec judge the argv recorded from the REAL classes on a "
       "recording lab-host stand-in for ~14 000 cases per run (thorough: the full 1944-configuration product x pairings x directions).",
  note="paramiko is not installed: a stand-in module makes the real ParamikoConnector class importable in one worker; argv compared word "
       "by word (quoting is C01's concern); option order not compared.",
  ref="DESIGN.md section 4 C20"),
 "C05": dict(
  text="Theorems C05.check_invariant / check_complete / check_sound / case_spec: ring-buffer invariant (after any data, every ring is "
       "the last min(2*len, received) bytes of the data received since registration — also after a match, all windows are "
       "processed), COMPLETENESS (an occurrence of a registered literal or eos-free regex that ends inside the delivered piece makes "
       "that read raise, whatever precedes/follows it and however it straddles scan windows: window size <= shortest string), "
       "SOUNDNESS (a raised death exception belongs to a registration whose string occurs in the data since its registration), scoping "
       "of with_death_string, and for EVERY operation sequence the Spec's monitor accepts the model's trace. The monitor is evaluated "
       "on the real Channel for generated cases (all read methods, nested registrations, reading continued after a death).",
  note="partial: death strings non-empty; regex death strings from the modelled subset without anchors or look-around assertions "
       "and not matching the empty string (counterexamples for the excluded shapes are proved in the file). For death strings "
       "with a look-around assertion the statement is FALSE of the code and of its model (C05Look.one_piece_violates_spec, "
       "split_noticed: the same stream is missed or noticed depending on the fragmentation): known finding "
       "KF-C05-lookaround-death-string, witness corpus/C05/kf_lookaround_death.case.",
  ref="DESIGN.md section 4 C05"),
 "C06": dict(
  text="Theorems C06.op_spec / case_spec (+ read_deadline, send_deadline, rut_exact, no_timeout_op …): for every state and every "
       "timed operation called at virtual time t0 with timeout T — and for every operation sequence — each transport request carries "
       "exactly T - (now - t0), TimeoutError is raised exactly at t0 + T and never without a timeout, any other result is returned at "
       "the moment of the last delivery and no later than t0 + T, read_until_timeout(T) never raises it and ends exactly at t0 + T; "
       "proved through one generic predicate `Timed` closed under the read_iter step and nesting of deadlines. The Spec is evaluated "
       "on the real Channel under a patched clock for thousands of arrival schedules (trickles, bursts, arrival exactly at the "
       "deadline, silence). Auxiliary check C06S (run by the same command): the select loop of SubprocessChannelIO.read/write is "
       "modelled and proved to satisfy the transport contract the C06 theorems assume — C06S.spec_holds, never_late, never_early, "
       "timeout_exact, slice_bound, closed_within_slice, zero_timeout_poll, hang_iff, write_guard and chanRead_eq_ioRead (the modelled "
       "subprocess read IS the scripted transport read of the channel model, so every Channel theorem transfers) — and the REAL "
       "SubprocessChannelIO.read/write is run with scripted select/os.read/time.monotonic against it.",
  note="partial: virtual time (tbot infinitely fast between clock reads; for transports other than SubprocessChannelIO, that the "
       "transport honours its timeout is a hypothesis); slow-send sleeps are exempt from the deadline clauses (the timeout is "
       "documented for the read-back only); real select() latency not modelled; MIN_READ_WAIT is set to values on the 2^-10 s grid "
       "(the extracted 0.3 s rounded to 307 ticks, and others) so that float arithmetic is exact.",
  ref="DESIGN.md section 4 C06"),
 "C08": dict(
  text="Theorems C08.attached_invariant, fw_prefix, fw_all, fw_literal, fw_at_prompt, detach_clean, detach_regex, "
       "asciiT_decodeReplace, case_spec_partial: for one attachment at a time and every sequence of reads, R = Fw ++ held-back always; "
       "Fw = R without suppression; with a literal prompt the held-back bytes are exactly the LONGEST suffix of R that is a prefix of "
       "the prompt; a read ending at the prompt leaves exactly the output in the stream; detaching empties the hold-back buffer and "
       "nothing is forwarded afterwards; regex prompts: prefix law and exact output after the exit flush; the ASCII projection of the "
       "decoded fragments equals that of the bytes for EVERY fragmentation; Spec.C08 holds for every case without nesting and without "
       "prompt changes under a suppressing attachment; C08.case_spec_overlapping / stream_gets_exactly_its_window: for attachments that "
       "all show the prompt, opened and ended in ANY order (detach by stream, not last-in-first-out), every stream receives exactly "
       "the text of what was delivered while it was attached. The Spec's monitor is evaluated on the real Channel (text written to "
       "attached stream objects); a consumer-level family compares the log event of the real Bash/Ash/U-Boot exec with the output "
       "returned (also with interactive commands in between).",
  note="partial: three shapes are excluded and listed as known findings (nested attachments with different modes, nested suppressing "
       "attachments, prompt changed while a suppressing attachment is open) — the unrestricted statement is proved false on "
       "witnesses that replay on the implementation; text identity beyond the ASCII projection holds only when no fragment boundary "
       "splits a character.",
  ref="DESIGN.md section 4 C08"),
 "C14": dict(
  text="Theorems C14.spec (= I1 ∧ I2 ∧ I3 ∧ I4 ∧ I5 ∧ I6 of Spec.C14), I6_event, I6_order, final_quiet: for EVERY request program (nested/sequential requests "
       "with reset / exclusive / reset_on_error, reconfigure blocks, teardown_if_alive, nested contexts, try/raise/skip), every "
       "dependency graph, both keep_alive settings and EVERY init/teardown fault oracle, the model of Context + InstanceManager + the "
       "machine re-entrancy counter keeps: at most one object of a class up, init/teardown alternate and nothing is up at the end, a "
       "yielded object is up, without keep-alive a class is down once its last request is released, nothing is up after the outermost "
       "context exit (also when teardowns raise), and inside the outermost exit (until a teardown fails) a machine goes down only when no "
       "machine built from its class is still up. The Spec's six "
       "conditions are evaluated on the callback log of the real tbot.Context with instrumented machine classes (15 000 cases per "
       "quick run; thorough: complete small-scope enumeration of 391 000 programs).",
  note="the full Spec.C14 is proved of the model; the teardown-order clause (I6) is stated for dependency graphs in which an exclusively "
       "requested class has a single dependant (`exclUnique`; otherwise exclusive=True itself forces an early teardown, as documented); "
       "generator-based from_context is modelled by frames.",
  ref="DESIGN.md section 4 C14"),
 "C15": dict(
  text="Theorem C15.refinement: for EVERY program, dependency graph, flag combination and fault oracle, the trace of the "
       "implementation model equals the trace of RefCtx, an executable reference model written from Documentation/context.rst (per "
       "class: alive?, holders, exclusive latch — no counters, no generators); plus the single-step laws share, exclusive_refuses, "
       "exclusive_end, keepalive_exit, roe_tears_down, roe_off, reset_fresh, exit_exception. Three-way comparison on every generated "
       "case: real tbot.Context vs implementation model vs reference model.",
  note="the reference model is this project's reading of the documentation; exception identity is modelled by tags.",
  ref="DESIGN.md section 4 C15"),
 "C01": dict(
  text="Theorems C01.exec_exact / execSeq_exact / exec0_exact / test_exact / exec_rejects / spec_holds (+ C01Q.posixWords_escape, "
       "Tty.echo_length_noctl, C01.parseInt_status): for EVERY command line, program output, status, prompt, chunk and slice size, "
       "partial-write oracle and EVERY fragmentation of the remote's answer (tty echo ++ cooked output ++ prompt, then the `echo $?` "
       "answer), under the no-early-prompt hypothesis, the model of Bash/Ash.exec on the channel model returns exactly (status, "
       "text(cook out)), writes exactly `line CR echo $? CR`, consumes exactly the answer and is in sync again — hence by induction "
       "every command of a sequence is exact; a forbidden byte is rejected with nothing written; the POSIX splitter (which fails on "
       "every expansion/glob/history/operator hazard) recovers exactly the argument list from escape(args) for ALL byte strings. "
       "Correspondence: the REAL Bash and Ash classes drive REAL bash 5.2 and dash on a pty behind a re-fragmenting transport; a helper "
       "program records argv through a side file; the fragmentation each run produced is replayed on the Lean model (results, written "
       "bytes and piece sizes compared); Spec.C01 judges the implementation.",
  note="partial: the kernel tty and the installed shells are the environment (their byte stream is predicted by Tty.echo/cook and "
       "validated on every case, not proved); command lines below the tty line limit; program output must not contain the complete "
       "prompt (NoEarly).",
  ref="DESIGN.md section 4 C01"),
 "C19": dict(
  text="Theorems C19Q.hushWords_hushQuote / hushWords_escape (the hazard-rejecting hush tokenizer recovers exactly the argument list "
       "from _hush_quote'd arguments: no variable expansion, separator, comment or quote-state escape, for every printable-ASCII / "
       "non-ASCII string), C19.exec_exact / exec_crc_exact / exec0_raises_iff / test_iff / exec_fragmentation / env_roundtrip / "
       "spec_holds: over a U-Boot console model (raw echo, hush tokenizer, command table, `echo $?`, setenv/printenv) exec returns "
       "exactly (status, text(output)) for EVERY fragmentation, slice count and chunk size — including the crc32 / '=> ' prompt "
       "override — and env(v,x); env(v) = x; table facts by `decide` over the regenerated black-list. Correspondence: the REAL "
       "UBootShell on a Python transcription of the same console (virtual clock), the tokenizer re-checked against Hush.hushWords on "
       "every line; Spec.C19 judges the implementation's return values, dispatch log and written bytes.",
  note="partial: there is no U-Boot/hush binary here — the hush tokenizer and the console are models written from cli_hush.c "
       "semantics (largest unvalidated item of the trusted base); arguments over printable ASCII and non-ASCII bytes; "
       "no-early-prompt hypothesis at stream level in the theorem, at delivered-piece level in the Spec.",
  ref="DESIGN.md section 4 C19"),
 "C09": dict(
  text="Theorems C09.env_roundtrip, readback_lemma, env_set_rejected, runProg_spec, spec_holds, block_restores, exec_after_block: "
       "over a reactive remote model (shell frames with exported variables / cwd / options behind the tty model, export, "
       "`\" ${NAME}\"` expansion, echo with dash's escape processing, printf, nested shells) composed with the channel model, for "
       "EVERY value without CR / forbidden byte and every fragmentation oracle env(v,x); env(v) = x and the remote's variable holds x; "
       "for EVERY program of sets/reads/cd/set-option/raise with plain and guarded subshell blocks nested to any depth, each step "
       "returns what a one-frame reference semantics says, the frame pushed by a subshell is popped on normal AND exceptional exit, "
       "and the machine is in sync afterwards (the next command is exact). Correspondence on REAL bash and dash (environment seen by a "
       "helper program through a side file, pwd, $-), every read re-fragmented, fragmentation replayed on the model.",
  note="partial: the shells, their builtins and the tty are the environment (the remote model is validated against the installed bash "
       "5.2 / dash on every case, not proved); the spawned shell is of the same kind; PS1 is not exported by the outer shell.",
  ref="DESIGN.md section 4 C09"),
 "C10": dict(
  text="Theorems C10.c10_partial (Spec.C10 holds for EVERY interaction script, command scenario and EVERY fragmentation in which no "
       "value-returning read ends inside the shell prompt), Run.step_sim / body_sim / enter_sim (simulation between the model of "
       "RunCommandProxy + Bash/Ash.run on the channel model and the Spec's reference remote), Run.terminate_live, fetchRc_exact, "
       "next_exact, reading_z (progress: a time-out or endless wait only after everything pending was consumed), and the corollaries "
       "C10.reading_rule, terminate_rule, terminate0_rule, raises_after_end, terminate_twice, machine_refuses, ownership_c07, "
       "machine_restored; the full statement is FALSE on this tree — C10.c10_full_is_false / split_witness prove the negation on a "
       "concrete witness, which the implementation reproduces (known finding KF-C10-split-prompt). Correspondence: the REAL Bash/Ash "
       "run() against real bash and dash owning the pty as controlling terminal (so ^C reaches the command), a scripted interactive "
       "helper program (print / read a line / sleep / exit) with side files, every read re-fragmented and the fragmentation replayed "
       "on the model; Spec.C10 judges every proxy call, the block exit and the next exec on the implementation.",
  note="partial: proved outside the `splits` shape only (a genuine defect, listed as a known finding: prompt bytes leak to the caller "
       "and an immediate terminate() waits for ever); the shells, tty signal handling (output is not lost on ^C) and the helper "
       "program are the environment, validated per case, not proved; send(read_back=True) is specified only when nothing is pending.",
  ref="DESIGN.md section 4 C10"),
 "C11": dict(
  text="Theorems C11.bytes_roundtrip(_b64), text_roundtrip, write_bytes_spec, read_bytes_spec, write_text_spec, read_text_spec, "
       "text_forbidden, spec_holds, Files.Remote.ttyRead_all (the canonical-mode double-EOF rule), Files.b64_ok: for EVERY byte string d "
       "and every fragmentation, after write_bytes d the model file holds d, the return value is |d| and read_bytes = d (for any codec "
       "satisfying CodecOk, instantiated by a concrete base64 proved correct); for every text in the domain the file is its UTF-8 "
       "encoding and read_text returns it, incl. empty text, no final newline, only newlines; a forbidden byte is rejected. "
       "Correspondence on REAL bash and dash with the file read independently from the local filesystem; lengths around the 57/76-byte "
       "base64 and 512-byte slice boundaries, all 256 byte values, multi-line non-ASCII text; fragmentation replayed on the model.",
  note="partial: tee / base64 / cat binaries and the kernel tty are the environment; text lines below the 4096-byte tty line limit; "
       "text must not contain the prompt.",
  ref="DESIGN.md section 4 C11"),
 "C18": dict(
  text="Theorems C18.run_monitor / run_spec / coop_success / credentials / deadline_linux / deadline_uboot / password_skipped / "
       "bootlogs (+ 22 more): for EVERY console (any staged, reactive script of timed pieces), configuration (autoboot prompt/keys, "
       "login delay, no-password timeout, boot timeout, with/without askfirst and U-Boot stage) the model of "
       "UBootAutobootIntercept/UBootShell._init_shell/boot, AskfirstInitializer, LinuxBootLogin, LinuxUbootConnector and the power "
       "callbacks produces an event trace accepted by a reference monitor: every write is the one the configuration calls for, made "
       "at the very tick the awaited text first completed (user name only after the login prompt, password only after the password "
       "prompt, none when the no-password timeout ran out), a configured boot timeout is never exceeded by more than one poll period "
       "and fails with TimeoutError, power-off is last, bootlog = text of what was read while the startup event was attached; for "
       "every cooperative console bring-up succeeds. The monitor is evaluated on the REAL board classes composed on an instrumented "
       "power-controlled board over a reactive console on the virtual clock.",
  note="partial: bring-up is modelled up to 'login complete' (the Linux shell hand-shake has no deadline in tbot and is C01's "
       "subject); real consoles and real time are replaced by the simulated console and the virtual clock; autoboot regexes from "
       "the modelled subset.",
  ref="DESIGN.md section 4 C18"),
}

REASON_TODO = "check not built yet (work in progress; will be claimed once its Lean model, theorems and correspondence harness exist)"


def main():
    checks = []
    for pid in ids:
        if pid in CLAIMS:
            c = CLAIMS[pid]
            checks.append({
                "property_id": pid,
                "quick_cmd": f"./check {pid} --tier quick",
                "thorough_cmd": f"./check {pid} --tier thorough",
                "evidence_file": f"evidence/{pid}.json",
                "replay_cmd_template": f"./check {pid} --replay {{path}}",
                "engine": "lean-proof+correspondence",
                "level_claimed": {"category": "proof", "text": c["text"], "design_ref": c["ref"]},
                "level_note": c["note"],
                "technique": c.get("technique", TECH),
            })
    m = {
        "version": 1,
        "setup_cmd": "./setup.sh",
        "hooks": {"guard": "TBOT_VERIF", "enable": "no hooks in /repo are needed; checks import /repo's working tree directly (PYTHONPATH=/repo)",
                  "baseline_off_cmd": "cd /repo && /venv/bin/python -m pytest -ra -q -p no:cacheprovider --timeout=900 --continue-on-collection-errors",
                  "source_commits": [], "add_only": True},
        "engines": [{"name": "lean-proof+correspondence", "path": "check", "serves_properties": sorted(CLAIMS),
                     "kind_free_text": "Lean 4 theorems (kernel-checked, axioms audited per run) about a hand-written executable model; the model is "
                                       "tied to /repo on every run by regenerated parameter tables and a differential correspondence harness that also "
                                       "evaluates the Lean Spec on the implementation's observations"}],
        "checks": checks,
        "notes": "see DESIGN.md; fixed/known defects in known_findings.json",
        "not_applicable": [{"property_id": i, "reason": REASON_TODO} for i in ids if i not in CLAIMS],
    }
    json.dump(m, open(os.path.join(VERIF, "MANIFEST.json"), "w"), indent=1)
    print("claimed:", sorted(CLAIMS))


if __name__ == "__main__":
    main()
