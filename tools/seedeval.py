#!/usr/bin/env python3
"""Confirm a seeded change and run the /verif checks against it.
usage: tools/seedeval.py <Cxx> <A|B> [check ids …]      (default check: the property's own)
Steps (all recorded in seeded/<Cxx>-<v>/meta.json):
  1. the patch applies to the scratch worktree /tmp/m-<Cxx> (same HEAD as /repo);
  2. the demonstration fails with the patch and passes without it;
  3. tbot's test-suite still passes with the patch (flaky tests re-run alone);
  4. the patch is applied to /repo, the given checks run (quick tier), /repo is restored."""
import json, os, re, shutil, subprocess, sys

VERIF = os.path.dirname(os.path.dirname(os.path.abspath(__file__)))


def sh(cmd, cwd=None, env=None, timeout=1800):
    p = subprocess.run(cmd, shell=True, cwd=cwd, env=env, stdout=subprocess.PIPE, stderr=subprocess.STDOUT, timeout=timeout)
    return p.returncode, p.stdout.decode(errors="replace")


def main():
    pid, v = sys.argv[1], sys.argv[2]
    checks = sys.argv[3:] or [pid]
    src = f"/tmp/seeds/{pid}/{v}"
    wt = os.environ.get("SEED_WT") or (f"/tmp/m-{pid}" if v in "AB" else f"/tmp/m2-{pid}" if v in "CD" else f"/tmp/m3-{pid}" if v in "EF" else f"/tmp/m4-{pid}" if v in "GH" else f"/tmp/m5-{pid}")
    via_wt = os.environ.get("SEEDEVAL_VIA_WORKTREE") == "1"
    dst = os.path.join(VERIF, "seeded", f"{pid}-{v}")
    os.makedirs(dst, exist_ok=True)
    for f in ("patch.diff", "demo.py", "README.md"):
        if os.path.exists(os.path.join(src, f)) and not os.path.exists(os.path.join(dst, f + ".keep")):
            shutil.copy(os.path.join(src, f), os.path.join(dst, f))
    meta = {"property": pid, "variant": v, "source": "fresh sub-agent given only the property text and a scratch worktree"}
    import tempfile
    env = dict(os.environ, PYTHONPATH=wt, XDG_RUNTIME_DIR=tempfile.mkdtemp(prefix="xdg-"))
    if not os.path.isdir(wt):
        sh(f"git worktree add -q --detach {wt} HEAD", cwd="/repo")
    sh("git reset -q --hard", cwd=wt)      # (a failed 3-way apply leaves conflict markers behind)
    # the scratch worktree follows /repo's HEAD (later fix: commits may have landed since the seed was written)
    rc, head = sh("git rev-parse HEAD", cwd="/repo")
    sh(f"git checkout -q --detach {head.strip()}", cwd=wt)
    meta["repo_head"] = head.strip()
    rc, out = sh(f"timeout 300 /venv/bin/python {dst}/demo.py", cwd=wt, env=env)
    meta["demo_without_change"] = {"exit": rc, "tail": out[-300:]}
    rc, out = sh(f"git apply {dst}/patch.diff || git apply --3way {dst}/patch.diff", cwd=wt)
    meta["patch_applies"] = rc == 0
    if rc != 0:
        meta["error"] = out[-300:]
    else:
        rc, out = sh(f"timeout 300 /venv/bin/python {dst}/demo.py", cwd=wt, env=env)
        meta["demo_with_change"] = {"exit": rc, "tail": out[-400:]}
        rc, out = sh("timeout 900 /venv/bin/python -m pytest -q -p no:cacheprovider --timeout=900 selftest 2>&1 | tail -4", cwd=wt, env=env)
        failed = re.findall(r"FAILED (\S+)", out)
        rerun = {}
        for t in failed:
            rc2, out2 = sh(f"timeout 300 /venv/bin/python -m pytest -q -p no:cacheprovider {t} 2>&1 | tail -1", cwd=wt, env=env)
            rerun[t] = out2.strip()
        meta["suite_with_change"] = {"summary": out.strip().split("\n")[-1], "failed": failed, "rerun_alone": rerun}
    if not via_wt:
        sh("git checkout -- .", cwd=wt)
    # 4. our checks against /repo — or, while other checks are running against /repo, against the scratch
    #    worktree (same HEAD as /repo, patch applied) through TBOT_VERIF_REPO; no evidence is written then
    target = wt if via_wt else "/repo"
    meta["checks_ran_against"] = ("scratch worktree at /repo's HEAD with the patch applied (TBOT_VERIF_REPO)" if via_wt
                                  else "/repo with the patch applied (git apply), restored afterwards")
    if not via_wt:
        rc, out = sh("git diff --quiet", cwd="/repo")
        if rc != 0:
            print("/repo is dirty; refusing"); sys.exit(2)
    results = {}
    cenv = dict(os.environ)
    if via_wt:
        cenv.update(TBOT_VERIF_REPO=wt, TBOT_VERIF_NOEVIDENCE="1", VERIF_SEED="7")
    if meta.get("patch_applies"):
        if not via_wt:
            rc, out = sh(f"git apply {dst}/patch.diff || git apply --3way {dst}/patch.diff", cwd="/repo")
            if rc != 0:
                sh("git checkout -- . ; git reset -q", cwd="/repo")
                print("patch does not apply to /repo:", out[-200:]); sys.exit(2)
        try:
            for c in checks:
                rc, out = sh(f"timeout 1200 ./check {c}", cwd=VERIF, env=cenv)
                lines = [l for l in out.split("\n") if "VIOLATION" in l or "tier=" in l or "proofs:" in l]
                replay = None
                m = re.search(r"replay=(\S+)", out)
                if m and os.path.exists(os.path.join(VERIF, m.group(1))):
                    rp = json.load(open(os.path.join(VERIF, m.group(1))))
                    replay = {k: (str(rp.get(k))[:400]) for k in ("kind", "case", "impl_obs", "model_obs", "broken_theorems") if k in rp}
                results[c] = {"exit": rc, "lines": lines, "replay": replay}
        finally:
            sh("git checkout -- .", cwd=target)
    meta["checks"] = results
    meta["caught_by"] = [c for c, r in results.items() if r["exit"] == 1 and any("VIOLATION" in l and "no-failing-input-found" not in l for l in r["lines"])]
    meta["flagged_without_input_by"] = [c for c, r in results.items() if r["exit"] == 1 and any("no-failing-input-found" in l for l in r["lines"])]
    json.dump(meta, open(os.path.join(dst, "meta.json"), "w"), indent=1)
    print(json.dumps({k: meta[k] for k in ("patch_applies", "caught_by", "flagged_without_input_by")}),
          meta.get("demo_without_change", {}).get("exit"), meta.get("demo_with_change", {}).get("exit"),
          meta.get("suite_with_change", {}).get("summary"))


if __name__ == "__main__":
    main()
