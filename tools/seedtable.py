#!/usr/bin/env python3
"""Render seeded/*/meta.json as the table of DESIGN.md section 10 (between the markers)."""
import glob, json, os, re
VERIF = os.path.dirname(os.path.dirname(os.path.abspath(__file__)))
rows = []
for f in sorted(glob.glob(os.path.join(VERIF, "seeded", "*", "meta.json"))):
    m = json.load(open(f))
    name = os.path.basename(os.path.dirname(f))
    readme = os.path.join(os.path.dirname(f), "README.md")
    what = m.get("summary", "")
    if not what and os.path.exists(readme):
        txt = open(readme).read()
        para = [l.strip() for l in txt.split("\n") if l.strip() and not l.startswith(("#", "```", "---", "|"))]
        what = " ".join(para[:2])[:240] if para else ""
    verdict = []
    for c in m.get("caught_by", []):
        verdict.append(f"`{c}`: VIOLATION with failing input")
    for c in m.get("flagged_without_input_by", []):
        verdict.append(f"`{c}`: VIOLATION no-failing-input-found")
    if not verdict:
        verdict = ["MISSED"]
    sw = m.get("suite_with_change", {})
    suite = sw.get("summary", "?").split(",")[0]
    if sw.get("failed"):
        alone = sw.get("rerun_alone", {})
        flaky = all(t.split("::")[-1] in ("test_unclean_shell", "test_gdb_machine") or "passed" in alone.get(t, "") for t in sw["failed"])
        suite += " (" + ", ".join(t.split("::")[-1] for t in sw["failed"]) + (": timing-dependent, fails on the unchanged tree too" if flaky else "") + ")"
    demo = f"{m.get('demo_without_change', {}).get('exit')}/{m.get('demo_with_change', {}).get('exit')}"
    note = m.get("note", "")
    what = re.sub(r"\s+", " ", what.replace("|", "/"))
    rows.append(f"| {name} | {what} | {demo} | {suite} | {'; '.join(verdict)} {note} |")
table = "\n".join(["| seed | change (from its README) | demo exit without/with | suite with change | checks |", "|---|---|---|---|---|"] + rows)
p = os.path.join(VERIF, "DESIGN.md")
s = open(p).read()
begin, end = "<!-- SEEDTABLE BEGIN -->", "<!-- SEEDTABLE END -->"
if begin not in s:
    s += f"\n\n## 10. Seeded changes and the checks that catch them\n\nEach change was written by a fresh sub-agent that was given only the text of the property and a scratch\nworktree of /repo; it was kept only after `tools/seedeval.py` confirmed that the patch applies, the\ndemonstration passes without and fails with it, tbot's test-suite still passes with it, and after the\n/verif checks were run against /repo with the patch applied (and /repo restored). Details per seed:\n`seeded/<id>/meta.json`.\n\n{begin}\n{end}\n"
s = re.sub(re.escape(begin) + r".*?" + re.escape(end), lambda _m: begin + "\n" + table + "\n" + end, s, flags=re.S)
open(p, "w").write(s)
print(len(rows), "seeds")
