#!/usr/bin/env python3
"""Regenerate lean/TbotVerif.lean (imports every module except the driver's Main)."""
import os
VERIF = os.path.dirname(os.path.dirname(os.path.abspath(__file__)))
mods = []
for root, _, files in os.walk(os.path.join(VERIF, "lean", "TbotVerif")):
    for f in files:
        if f.endswith(".lean"):
            m = os.path.relpath(os.path.join(root, f), os.path.join(VERIF, "lean"))[:-5].replace("/", ".")
            if m != "TbotVerif.Driver.Main":
                mods.append(m)
open(os.path.join(VERIF, "lean", "TbotVerif.lean"), "w").write("\n".join("import " + m for m in sorted(mods)) + "\n")
