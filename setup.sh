#!/bin/sh
# Build the Lean library (models, specs, proofs) and the driver executable from files on disk.
set -e
cd "$(dirname "$0")/lean"
lake build TbotVerif driver 2>&1 | tail -n 40
