import TbotVerif.Model.Ctx
/-! `RefCtx`: a reference model of the context written from `Documentation/context.rst` and the
    docstrings of `Context.request` / `reconfigure` / `teardown_if_alive` — *what the documentation
    promises*, not how the code does it.

    Per machine class it only knows: which instance (identity) is cached, if any; how many requests
    currently hold the class; whether the cached instance is held exclusively; and which
    prerequisite requests the cached instance made when it was built.  There are no machine
    objects, no re-entrancy counters, no `with instance` re-entry and no generators: an instance is
    created exactly when the documentation says a request (re-)initialises it and destroyed exactly
    when it says it is torn down.

      * request: a cached instance is shared ("it will get access to the *same* instance");
        `reset=True` tears a cached instance down first and builds a new one; a class held
        exclusively refuses every further request; building an instance requests its
        prerequisites from the context (`from_context`) and gives them back when it is torn down;
      * end of a request: with `reset_on_error` in effect and an exception that is not a pytest
        skip the instance is torn down and the exception propagates; an exclusive request tears
        the instance down; otherwise the last holder tears it down unless keep-alive is on;
      * `with ctx` (outermost exit, keep-alive on): every cached instance is torn down, in reverse
        order of first use; `reconfigure(keep_alive=True)` coming back to `False`: every cached
        instance without holders is torn down; `teardown_if_alive`. -/
namespace Ctx.Ref
open Ctx

/-- an active request: class and the flags that matter when it ends -/
structure Handle where
  cls : Nat
  excl : Bool
  roe : Bool
  dep : Bool
deriving DecidableEq, Repr, Inhabited

structure RMgr where
  inst : Option Nat := none      -- identity of the cached instance
  holders : Nat := 0             -- active requests on the class
  latch : Bool := false          -- the cached instance is held exclusively
  built : List Handle := []      -- prerequisite requests of the cached instance
deriving Repr, Inhabited

structure RSt where
  mgrs : Nat → RMgr := fun _ => {}
  nObj : Nat := 0
  order : List Nat := []
  openCtx : Nat := 0
  keepAlive : Bool := false
  roeDefault : Bool := false
  trace : List Ev := []
  nInit : Nat := 0
  nDown : Nat := 0
  nExc : Nat := 0

abbrev RR := RSt × Option Exc

def RSt.mgr (s : RSt) (c : Nat) : RMgr := s.mgrs c
def RSt.setMgr (s : RSt) (c : Nat) (m : RMgr) : RSt :=
  { s with mgrs := fun k => if k = c then m else s.mgrs k }
def RSt.log (s : RSt) (e : Ev) : RSt := { s with trace := e :: s.trace }
def RSt.alive (s : RSt) (c : Nat) : Bool := (s.mgr c).inst.isSome
def RSt.newExc (s : RSt) (kind : Kind) : RSt × Exc :=
  ({ s with nExc := s.nExc + 1 }, ⟨s.nExc, kind⟩)
def RSt.ctxError (s : RSt) : RR :=
  let r := s.newExc .ctx
  (r.1, some r.2)

section
variable (cfg : Cfg)

/-- a machine of class `c` with identity `o` is initialised; the initialisation may fail, and then
    the machine has cleaned up after itself -/
def bringUp (s : RSt) (c o : Nat) : RR :=
  let s := { s with nInit := s.nInit + 1 }
  let s := s.log (.init c o)
  if cfg.fi.contains s.nInit then
    let r := s.newExc .fi
    ((r.1.log (.created r.2)).log (.down c o), some r.2)
  else (s, none)

/-- a machine is de-initialised; its teardown may fail — it is gone in any case -/
def bringDown (s : RSt) (c o : Nat) : RR :=
  let s := { s with nDown := s.nDown + 1 }
  let s := s.log (.down c o)
  if cfg.fd.contains s.nDown then
    let r := s.newExc .fd
    (r.1.log (.created r.2), some r.2)
  else (s, none)

/-- give back a list of requests, last one first -/
def releaseAllWith (rx : Handle → RSt → Option Exc → RR) : List Handle → RSt → Option Exc → RR
  | [], s, e => (s, e)
  | h :: hs, s, e =>
    let r := rx h s e
    releaseAllWith rx hs r.1 r.2

/-- tear down the cached instance of class `c`: the machine goes down, then its prerequisites are
    given back -/
def teardownF (rx : Handle → RSt → Option Exc → RR) (c : Nat) (s : RSt) : RR :=
  match (s.mgr c).inst with
  | none => s.ctxError
  | some o =>
    let built := (s.mgr c).built
    let s := s.setMgr c { s.mgr c with built := [] }
    let r1 := bringDown cfg s c o
    let r2 := releaseAllWith rx built.reverse r1.1 r1.2
    (r2.1.setMgr c { r2.1.mgr c with inst := none }, r2.2)

/-- reset_on_error: "forcefully de-initialize this instance if the context-manager … was exited
    with an exception.  The exception is then of course propagated further up." (pytest skips excepted) -/
def roeStep (td : Nat → RSt → RR) (h : Handle) (s : RSt) (e : Option Exc) : RR :=
  match e with
  | some ex =>
    if h.roe && ex.kind != .skip && s.alive h.cls then
      let r := td h.cls s
      (r.1, later (some ex) r.2)
    else (s, some ex)
  | none => (s, none)

/-- "Once this request() ends, the instance will be torn down" (exclusive); otherwise the last
    holder tears it down unless instances are kept alive -/
def lastStep (td : Nat → RSt → RR) (c : Nat) (excl : Bool) (s : RSt) (e : Option Exc) : RR :=
  if excl || (!s.keepAlive && (s.mgr c).holders == 0) then
    if s.alive c then
      let r := td c s
      (r.1, later e r.2)
    else (s, e)
  else (s, e)

/-- a request ends, `e` = the exception its body was left with -/
def releaseF (td : Nat → RSt → RR) (h : Handle) (s : RSt) (e : Option Exc) : RR :=
  let r0 := roeStep td h s e
  let s := r0.1
  let s := s.setMgr h.cls { s.mgr h.cls with holders := (s.mgr h.cls).holders - 1 }
  let r2 := lastStep td h.cls h.excl s r0.2
  (r2.1.log (.released h.dep h.cls), r2.2)

/-- request the prerequisites in order; stop at the first failure -/
def acquireAllWith (rq : Nat → Bool → RSt → RSt × (Handle ⊕ Exc)) :
    List (Nat × Bool) → RSt → List Handle → RSt × List Handle × Option Exc
  | [], s, got => (s, got, none)
  | d :: ds, s, got =>
    match rq d.1 d.2 s with
    | (s, .inl h) => acquireAllWith rq ds s (got ++ [h])
    | (s, .inr e) => (s, got, some e)

/-- build an instance of class `c`: request the prerequisites, then initialise the machine -/
def createF (rq : Nat → Bool → RSt → RSt × (Handle ⊕ Exc)) (rx : Handle → RSt → Option Exc → RR)
    (c : Nat) (s : RSt) : RR :=
  if s.alive c then s.ctxError else
  let r := acquireAllWith rq (cfg.depsOf c) s []
  match r.2.2 with
  | some ex => releaseAllWith rx r.2.1.reverse r.1 (some ex)
  | none =>
    let s := r.1
    let o := s.nObj
    let s := { s with nObj := s.nObj + 1 }
    let r1 := bringUp cfg s c o
    match r1.2 with
    | some ex => releaseAllWith rx r.2.1.reverse r1.1 (some ex)
    | none => (r1.1.setMgr c { r1.1.mgr c with inst := some o, latch := false, built := r.2.1 }, none)

/-- reset: "it will be torn down and re-initialized" -/
def resetStep (td : Nat → RSt → RR) (c : Nat) (reset : Bool) (s : RSt) : RR :=
  if s.alive c && reset then td c s else (s, none)

/-- "If no instance exists, one will be created." -/
def ensureStep (cr : Nat → RSt → RR) (c : Nat) (s : RSt) : RR :=
  if !s.alive c then cr c s else (s, none)

/-- the cached instance is handed out unless it is held exclusively: "Any future request() while
    this one is active is forbidden and will fail." -/
def admitStep (dep : Bool) (c : Nat) (excl roe : Bool) (s : RSt) : RSt × (Handle ⊕ Exc) :=
  let m := s.mgr c
  match m.inst with
  | none => let r := s.newExc .ctx; (r.1, .inr r.2)
  | some o =>
    if m.latch then let r := s.newExc .ctx; (r.1, .inr r.2) else
    let s := s.setMgr c { m with holders := m.holders + 1, latch := excl }
    let s := if s.order.contains c then s else { s with order := s.order ++ [c] }
    let s := s.log (.yielded dep c o)
    (s, .inl { cls := c, excl := excl, roe := roe, dep := dep })

/-- `ctx.request(c, reset=, exclusive=, reset_on_error=)` -/
def requestF (td cr : Nat → RSt → RR) (dep : Bool) (c : Nat) (reset excl : Bool)
    (roe : Option Bool) (s : RSt) : RSt × (Handle ⊕ Exc) :=
  let roe := roe.getD s.roeDefault
  -- "you **must** enter its own context-manager" (keep-alive contexts)
  if s.keepAlive && s.openCtx == 0 then
    let r := s.newExc .ctx
    (r.1, .inr r.2)
  else
  let r0 := resetStep td c reset s
  match r0.2 with
  | some ex => (r0.1, .inr ex)
  | none =>
  let r1 := ensureStep cr c r0.1
  match r1.2 with
  | some ex => (r1.1, .inr ex)
  | none => admitStep dep c excl roe r1.1

structure Ops where
  teardown : Nat → RSt → RR
  release : Handle → RSt → Option Exc → RR
  request : Bool → Nat → Bool → Bool → Option Bool → RSt → RSt × (Handle ⊕ Exc)

def fuelR (s : RSt) : RR := (s, some ⟨0, .fuel⟩)

/-- level `k` serves classes `< k`; prerequisites are one level down -/
def ops : Nat → Ops
  | 0 => { teardown := fun _ s => fuelR s
           release := fun _ s _ => fuelR s
           request := fun _ _ _ _ _ s => (s, .inr ⟨0, .fuel⟩) }
  | k + 1 =>
    let prev := ops k
    let td := teardownF cfg prev.release
    let cr := createF cfg (fun d x s => prev.request true d false x none s) prev.release
    { teardown := td
      release := releaseF td
      request := requestF td cr }

def tdLoop (td : Nat → RSt → RR) (cond : RSt → Nat → Bool) : List Nat → RSt → Option Exc → RR
  | [], s, e => (s, e)
  | c :: cs, s, e =>
    if cond s c then
      let r := td c s
      tdLoop td cond cs r.1 (first e r.2)
    else tdLoop td cond cs s e

/-- leaving `with ctx`: the outermost exit of a keep-alive context tears everything down,
    dependants first -/
def ctxExit (s : RSt) : RR :=
  let r : RR :=
    if s.openCtx == 1 then
      tdLoop (ops cfg cfg.n).teardown (fun s c => s.alive c && s.keepAlive) s.order.reverse s none
    else (s, none)
  ({ r.1 with openCtx := r.1.openCtx - 1 }, r.2)

/-- end of `reconfigure`: "any machines which were kept alive due to the reconfiguration (but have
    no active outside users) will be torn down before returning to the old state" -/
def reconfExit (ka0 roe0 : Bool) (ka : Option Bool) (s : RSt) : RR :=
  let s := { s with keepAlive := ka0, roeDefault := roe0 }
  if ka0 == false && ka == some true then
    tdLoop (ops cfg cfg.n).teardown (fun s c => s.alive c && (s.mgr c).holders == 0) s.order.reverse s none
  else (s, none)

def logLeave (r : RR) : RR :=
  match r.2 with
  | some e => (r.1.log (.leaves e), some e)
  | none => r

mutual
def exec : Stmt → RSt → RR
  | .req c reset excl roe body, s =>
    match (ops cfg cfg.n).request false c reset excl roe s with
    | (s, .inr e) => (s.log (.leaves e), some e)
    | (s, .inl h) =>
      let r := execBlock body s
      logLeave ((ops cfg cfg.n).release h r.1 r.2)
  | .ctx body, s =>
    let s := s.log .ctxEnter
    let s := { s with openCtx := s.openCtx + 1 }
    let r := execBlock body s
    let r2 := ctxExit cfg (r.1.log .ctxBody)
    logLeave (r2.1.log .ctxLeave, later r.2 r2.2)
  | .reconf ka roe body, s =>
    let ka0 := s.keepAlive
    let roe0 := s.roeDefault
    let s := { s with keepAlive := ka.getD s.keepAlive, roeDefault := roe.getD s.roeDefault }
    let r := execBlock body s
    let r2 := reconfExit cfg ka0 roe0 ka r.1
    logLeave (r2.1, later r.2 r2.2)
  | .try_ body, s =>
    let r := execBlock body s
    match r.2 with
    | some e => (r.1.log (.caught e), none)
    | none => r
  | .raise, s =>
    let r := s.newExc .body
    (r.1.log (.created r.2), some r.2)
  | .skip, s =>
    let r := s.newExc .skip
    (r.1.log (.created r.2), some r.2)
  | .td c, s =>
    if s.alive c then
      let r := (ops cfg cfg.n).teardown c s
      match r.2 with
      | some e => (r.1.log (.leaves e), some e)
      | none => (r.1.log (.tdRes c true), none)
    else (s.log (.tdRes c false), none)

def execBlock : Block → RSt → RR
  | .nil, s => (s, none)
  | .cons p rest, s =>
    let r := exec p s
    match r.2 with
    | some e => (r.1, some e)
    | none => execBlock rest r.1
end

end

def initSt (ka roe : Bool) : RSt := { keepAlive := ka, roeDefault := roe }

def runSt (cs : Case) : RSt :=
  let r := execBlock cs.cfg cs.prog (initSt cs.ka cs.roe)
  r.1.log (.fin r.2)

/-- the reference trace of a case, chronological -/
def run (cs : Case) : List Ev := (runSt cs).trace.reverse

end Ctx.Ref
