import TbotVerif.Model.Channel
/-! Executable model of `SubprocessChannelIO.read` / `.write`
    (`tbot/machine/channel/subprocess.py`) over a scripted pty and a virtual clock.

    Time is in ticks (1 tick = 2^-10 s).  The pty is a FIFO of `Piece`s (arrival tick and
    non-empty payload, as in `Model/Channel.lean`): the master is readable at time `t` iff the
    head piece has arrived (`tick ≤ t`), and one `os.read(fd, n)` hands out at most `n` bytes of
    the head piece (`Chan.takeHead`, the same convention as the scripted transport `Chan.ioRead`).
    `gone` is the tick from which `Popen.poll()` reports an exit status (`closed` is true),
    `wready` the tick from which the master is writable.

    `select(r, w, x, t)` called at `now` returns as soon as the descriptor is ready and at
    `now + t` at the latest; a descriptor that becomes ready exactly at `now + t` is reported
    (Linux `do_select` looks at the descriptors once more after the timer fired).

    `loop` is the `while True:` of `read()`: a well-founded recursion (no fuel) — every round
    that does not end the call moves the clock forward by a positive slice towards the deadline
    (or, without a deadline, towards the next scripted event).  Without a deadline and with
    nothing scripted (no data, process never gone) the real loop never ends: outcome `hang`,
    decided from the script. -/

namespace SubIO

/-- `SubprocessChannelIO.closed` evaluated at time `t`: `p.poll()` has an exit status -/
def closedAt (gone : Option Nat) (t : Nat) : Bool :=
  match gone with
  | some g => decide (g ≤ t)
  | none => false

/-- the pty master is readable at time `t` -/
def ready (pend : List Piece) (t : Nat) : Bool :=
  match pend with
  | p :: _ => decide (p.tick ≤ t)
  | [] => false

/-- time at which `select([fd], [], [], st)` called at `now` returns -/
def wake (pend : List Piece) (now st : Nat) : Nat :=
  match pend with
  | p :: _ => if p.tick ≤ now then now else if p.tick ≤ now + st then p.tick else now + st
  | [] => now + st

/-- how the select loop of `read()` ends -/
inductive Loop where
  | ready      -- `break`: something to read
  | timeout    -- `raise TimeoutError()`
  | closed     -- `raise tbot.error.ChannelClosedError`
  | hang       -- never ends
  deriving Repr, BEq, DecidableEq, Inhabited

/-- `select_timeout` of one round: `MIN_READ_WAIT` or `min(MIN_READ_WAIT, end_time - now)` -/
def slice (mrw : Nat) (dl : Option Nat) (now : Nat) : Nat :=
  match dl with
  | none => mrw
  | some d => min mrw (d - now)

/-- the latest instant at which the loop can still be running (termination measure) -/
def horizon (dl gone : Option Nat) (pend : List Piece) : Nat :=
  match dl with
  | some d => d
  | none =>
    match pend, gone with
    | p :: _, some g => min p.tick g
    | p :: _, none => p.tick
    | [], some g => g
    | [], none => 0

theorem wake_of_not_ready (pend : List Piece) (now st : Nat)
    (h : ready pend (wake pend now st) = false) : wake pend now st = now + st := by
  unfold wake
  unfold ready wake at h
  cases pend with
  | nil => rfl
  | cons p ps =>
    simp only at h ⊢
    split
    · rename_i h1; simp [h1] at h
    · split
      · rename_i h1 h2; simp [h1, h2] at h
      · rfl

theorem loop_dec (mrw : Nat) (dl gone : Option Nat) (pend : List Piece) (now : Nat)
    (h1 : ¬ (dl.isSome = true ∧ slice mrw dl now = 0))
    (h3 : ready pend (wake pend now (slice mrw dl now)) = false)
    (h4 : closedAt gone (wake pend now (slice mrw dl now)) = false)
    (h2 : ¬ (dl.isNone = true ∧ pend.isEmpty = true ∧ gone.isNone = true))
    (h5 : ¬ slice mrw dl now = 0) :
    horizon dl gone pend - wake pend now (slice mrw dl now) < horizon dl gone pend - now := by
  have hw := wake_of_not_ready pend now _ h3
  rw [hw] at h3 h4 ⊢
  cases dl with
  | some d =>
    simp only [slice, horizon] at *
    omega
  | none =>
    simp only [slice, horizon] at *
    cases pend with
    | nil =>
      cases gone with
      | none => simp at h2
      | some g =>
        simp only [closedAt, decide_eq_false_iff_not] at h4
        simp only
        omega
    | cons p ps =>
      simp only [ready, decide_eq_false_iff_not] at h3
      cases gone with
      | none => simp only; omega
      | some g =>
        simp only [closedAt, decide_eq_false_iff_not] at h4
        simp only
        omega

/-- the `while True:` loop of `SubprocessChannelIO.read` (after the repair: when the deadline is
    reached the descriptor is polled once more with a zero timeout, so that data which is already
    waiting is returned — `timeout=0` is a non-blocking read).  Returns how the loop ended, the
    time, and the `select` timeouts requested so far (`sel` extended). -/
def loop (mrw : Nat) (dl gone : Option Nat) (pend : List Piece) (now : Nat) (sel : List Nat) :
    Loop × Nat × List Nat :=
  if _h1 : dl.isSome = true ∧ slice mrw dl now = 0 then
    -- `if select_timeout <= 0:` … last look, then `raise TimeoutError()`
    if ready pend now then (.ready, now, sel ++ [0]) else (.timeout, now, sel ++ [0])
  else if _h2 : dl.isNone = true ∧ pend.isEmpty = true ∧ gone.isNone = true then
    -- no deadline and nothing will ever happen: the real loop runs for ever
    (.hang, now, sel ++ [slice mrw dl now])
  else
    if _h3 : ready pend (wake pend now (slice mrw dl now)) = true then
      (.ready, wake pend now (slice mrw dl now), sel ++ [slice mrw dl now])
    else if _h4 : closedAt gone (wake pend now (slice mrw dl now)) = true then
      (.closed, wake pend now (slice mrw dl now), sel ++ [slice mrw dl now])
    else if _h5 : slice mrw dl now = 0 then
      -- `MIN_READ_WAIT = 0` without a deadline: a busy loop in which the clock never moves
      (.hang, now, sel ++ [slice mrw dl now])
    else
      loop mrw dl gone pend (wake pend now (slice mrw dl now)) (sel ++ [slice mrw dl now])
termination_by horizon dl gone pend - now
decreasing_by
  exact loop_dec mrw dl gone pend now _h1 (by simpa using _h3) (by simpa using _h4) _h2 _h5

/-- what one call looks like from outside -/
inductive Out where
  | data (b : Bytes)     -- `read` returned these bytes
  | timeout              -- `TimeoutError` of `read`
  | closed               -- `ChannelClosedError`
  | hang                 -- the call never returns
  | wrote (k : Nat)      -- `write` returned `k`
  | wtimeout             -- `TimeoutError("write timeout exceeded")`
  | other                -- anything else (only ever produced by the implementation side)
  deriving Repr, BEq, DecidableEq, Inhabited

/-- clock, what is still in the pty, and the partial-write oracle -/
structure St where
  now : Nat
  pend : List Piece
  accept : List Nat
  deriving Repr, Inhabited

/-- `os.read(self.pty_master, n)` on the non-blocking master, with the `except (BlockingIOError,
    OSError): raise ChannelClosedError` around it -/
def osRead (n : Nat) (s : St) : Out × St :=
  match s.pend with
  | p :: ps =>
    if p.tick ≤ s.now then (.data (Chan.takeHead n p ps).1, { s with pend := (Chan.takeHead n p ps).2 })
    else (.closed, s)
  | [] => (.closed, s)

/-- `SubprocessChannelIO.read(n, timeout)`; third component: the `select` timeouts requested -/
def read (mrw : Nat) (gone : Option Nat) (n : Nat) (timeout : Option Nat) (s : St) :
    Out × St × List Nat :=
  if closedAt gone s.now then
    let r := osRead n s
    (r.1, r.2, [])
  else
    match loop mrw (timeout.map (s.now + ·)) gone s.pend s.now [] with
    | (.ready, t1, sel) =>
      let r := osRead n { s with now := t1 }
      (r.1, r.2, sel)
    | (.timeout, t1, sel) => (.timeout, { s with now := t1 }, sel)
    | (.closed, t1, sel) => (.closed, { s with now := t1 }, sel)
    | (.hang, t1, sel) => (.hang, { s with now := t1 }, sel)

/-- what `os.write` is scripted to accept of `len` bytes (the partial-write oracle) -/
def accepted (accept : List Nat) (len : Nat) : Nat :=
  match accept with
  | [] => len
  | a :: _ => min a len

/-- `SubprocessChannelIO.write(buf)`: closed check, `select([], [fd], [], 10.0)`, `os.write` -/
def write (wguard : Nat) (gone wready : Option Nat) (buf : Bytes) (s : St) : Out × St × List Nat :=
  if closedAt gone s.now then (.closed, s, [])
  else
    let t1 : Option Nat := match wready with
      | some w => if w ≤ s.now then some s.now else if w ≤ s.now + wguard then some w else none
      | none => none
    match t1 with
    | none => (.wtimeout, { s with now := s.now + wguard }, [wguard])
    | some t1 =>
      let k := accepted s.accept buf.length
      let s' := { s with now := t1, accept := s.accept.drop 1 }
      if k = 0 then (.closed, s', [wguard]) else (.wrote k, s', [wguard])

/-- one call on the object; `gap` ticks pass before it -/
inductive Op where
  | read (n : Nat) (timeout : Option Nat) (gap : Nat)
  | write (buf : Bytes) (gap : Nat)
  deriving Repr, BEq, Inhabited

def Op.gap : Op → Nat
  | .read _ _ g => g
  | .write _ g => g

structure OpObs where
  out : Out
  t1 : Nat                -- virtual time at which the call returned / raised
  sel : List Nat          -- timeouts of the `select` calls it made
  deriving Repr, BEq, DecidableEq, Inhabited

structure Case where
  mrw : Nat               -- `MIN_READ_WAIT` in ticks
  wguard : Nat            -- the write guard (10 s) in ticks
  gone : Option Nat
  wready : Option Nat
  script : List Piece
  accept : List Nat
  ops : List Op
  deriving Repr, Inhabited

/-- the domain: a positive slice, non-empty pieces -/
def Case.wf (c : Case) : Bool :=
  decide (0 < c.mrw) && c.script.all (fun p => !p.data.isEmpty)

def runOp (c : Case) (op : Op) (s : St) : OpObs × St :=
  let s0 := { s with now := s.now + op.gap }
  match op with
  | .read n t _ =>
    let r := read c.mrw c.gone n t s0
    (⟨r.1, r.2.1.now, r.2.2⟩, r.2.1)
  | .write b _ =>
    let r := write c.wguard c.gone c.wready b s0
    (⟨r.1, r.2.1.now, r.2.2⟩, r.2.1)

/-- a sequence of calls on one object; it ends with the first call that never returns -/
def runOps (c : Case) : List Op → St → List OpObs
  | [], _ => []
  | op :: ops, s =>
    let r := runOp c op s
    if r.1.out = .hang then [r.1] else r.1 :: runOps c ops r.2

def run (c : Case) : List OpObs := runOps c c.ops ⟨0, c.script, c.accept⟩

/-! ### the same read seen as a `ChannelIO.read` of the channel model -/

/-- `SubprocessChannelIO.read` with a subprocess that stays alive, plugged into the channel
    model's state in place of the scripted transport `Chan.ioRead` -/
def chanRead (mrw n : Nat) (timeout : Option Nat) (s : _root_.St) : Res Bytes :=
  match read mrw none n timeout ⟨s.now, s.script, []⟩ with
  | (.data b, s', _) =>
    (.ok b, { s with now := s'.now, script := s'.pend,
                     reads := s.reads ++ [⟨n, timeout, s.now, s'.now, some b⟩] })
  | (.hang, s', _) =>
    (.error .hang, { s with now := s'.now, reads := s.reads ++ [⟨n, timeout, s.now, s'.now, none⟩] })
  | (_, s', _) =>
    (.error .timeout, { s with now := s'.now, reads := s.reads ++ [⟨n, timeout, s.now, s'.now, none⟩] })

end SubIO
