/-! Machine life-cycle model (C13).  Core Lean only.

Mirrors, as the code is in /repo:

* `tbot/machine/machine.py` — `Machine.__enter__` / `Machine.__exit__`: the re-entrancy counter
  `_rc`, the `contextlib.ExitStack` `_cx` that holds every entered step, the inner guard stack
  that pushes `self` while the steps are entered, and the order of the steps
  (PreConnectInitializer*, `_connect`, Initializer* in class order, `_init_shell`,
  PostShellInitializer*, the `init` hook);
* `contextlib.ExitStack` (DESIGN 3.6): `enter_context` registers the exit callback only when
  `__enter__` returned; `__exit__` runs the callbacks LIFO and keeps going when one raises: the
  exception a callback raises replaces the one in flight (`pending_raise = True`), a callback that
  returns true (a step whose context manager HANDLES the exception: class style `__exit__` returns
  `True`, generator style catches what `contextmanager.__exit__` throws into it) clears it
  (`pending_raise = False`); at the end the stack raises the exception in flight iff
  `pending_raise`, otherwise it *returns* `received_exc and suppressed_exc` — a verdict that
  `Machine.__exit__` discards;
* `tbot/machine/board/board.py` — `PowerControl._init_machine`: `power_check`, the
  `powercycle_delay` wait, `poweron` inside `try`, `poweroff` and the time-stamp in `finally`.

Exceptions carry an identity (`Tag` = the callback that raised it) so that "the same exception
object reaches the caller" is expressible. -/

namespace Life

/-- kind of a base class of the composed machine class (`hook` = the class overrides `init`;
    `host` = the connector is the real `ConsoleConnector`, whose `_connect` first enters a clone
    of the lab-host it was constructed with) -/
inductive Kind where
  | pre | host | conn | init | power | shell | post | hook
  deriving DecidableEq, Repr, Inhabited

/-- one class of the composition; `id` = its position in the list of bases; `handles` = the context
    manager the step returns handles (suppresses) an exception passing through its `__exit__`
    (class style: `__exit__` returns `True`; generator style: `except BaseException:` around the
    `yield` without re-raising) -/
structure Step where
  id : Nat
  kind : Kind
  handles : Bool := false
  deriving DecidableEq, Repr, Inhabited

/-- the step table by id: which context managers handle the exception passing through them
    (parallel to `Faults`, which says by id which callbacks raise) -/
abbrev Handles := Nat → Bool

/-- the step table of a composition -/
def handlesOf (steps : List Step) : Handles := fun i => steps.any fun s => s.id == i && s.handles

/-- identity of an exception = the callback that raised it.  `refused` is the exception tbot
    itself raises when `power_check()` returns `False`; `body k` is raised by the `with` body. -/
inductive Tag where
  | enter (id : Nat) | exit (id : Nat) | check (id : Nat) | refused (id : Nat)
  | on (id : Nat) | off (id : Nat) | hook (id : Nat) | body (k : Nat)
  deriving DecidableEq, Repr, Inhabited

/-- begin of a callback of an instrumented mixin, or an action of the `with` body -/
inductive Ev where
  | enter (id : Nat) | exit (id : Nat)          -- `__enter__` / `__exit__` of a step's context manager
  | check (id : Nat) | sleep (n : Nat) | on (id : Nat) | off (id : Nat)   -- PowerControl
  | hook (id : Nat)                              -- `init()`
  | opened | closed | mark (k : Nat) | raise (k : Nat)   -- body: inner `with m:` entered / left, marker, raise
  deriving DecidableEq, Repr, Inhabited

/-- fault assignment: `f t = true` — the callback identified by `t` raises when it is reached
    (`f (.refused id)`: `power_check` returns `False`) -/
abbrev Faults := Tag → Bool

/-- virtual clock and the class attribute `_last_poweroff_timestamp` -/
structure Env where
  now : Nat := 0
  lastOff : Option Nat := none
  deriving DecidableEq, Repr, Inhabited

/-- an exit callback registered on the ExitStack `_cx` -/
inductive Frame where
  | cm (id : Nat)       -- `__exit__` of a step's context manager
  | power (id : Nat)    -- the `finally:` block of `PowerControl._init_machine`
  deriving DecidableEq, Repr, Inhabited

/-- `finally:` of `PowerControl._init_machine`: `poweroff()`, then (only when it returned) the
    time-stamp. -/
def powerOff (f : Faults) (id : Nat) (env : Env) : List Ev × Option Tag × Env :=
  if f (.off id) then ([.off id], some (.off id), env)
  else ([.off id], none, { env with lastOff := some env.now })

/-- run one exit callback: events, the exception it raised (if any), environment -/
def Frame.run (f : Faults) : Frame → Env → List Ev × Option Tag × Env
  | .cm id, env => ([.exit id], if f (.exit id) then some (.exit id) else none, env)
  | .power id, env => powerOff f id env

/-- does the callback return true when it does not raise?  (`PowerControl._init_machine` is a
    `try … finally`: never.) -/
def Frame.handles (H : Handles) : Frame → Bool
  | .cm id => H id
  | .power _ => false

/-- the state of the loop in `ExitStack.__exit__`: `exc_details[1]` (the exception in flight) and
    `pending_raise` -/
structure Flight where
  exc : Option Tag
  pending : Bool := false
  deriving DecidableEq, Repr, Inhabited

/-- one iteration of the loop, `cb(*exc_details)`: a callback that raises replaces the exception in
    flight (`pending_raise = True`; Python chains the old one as `__context__`, only the identity of
    the new one matters); one that returns true clears it (`suppressed_exc = True; pending_raise =
    False; exc_details = (None, None, None)`).  For a generator-style handling step the clean-up
    runs inside its `except` clause: a fault there leaves `gen.throw()` as a new exception, which
    `contextmanager.__exit__` re-raises (`if exc is not value: raise`); without a fault the
    generator returns and `__exit__` returns `exc is not value` = `True`. -/
def Flight.after (fl : Flight) (raised : Option Tag) (handled : Bool) : Flight :=
  match raised with
  | some x => { exc := some x, pending := true }
  | none => if handled then { exc := none, pending := false } else fl

/-- end of `ExitStack.__exit__`: `if pending_raise: raise exc_details[1]` -/
def Flight.raised (fl : Flight) : Option Tag := if fl.pending then fl.exc else none

/-- … otherwise `return received_exc and suppressed_exc` (with an exception received and none
    pending, `suppressed_exc` holds iff nothing is in flight any more) -/
def Flight.verdict (received : Option Tag) (fl : Flight) : Bool := received.isSome && fl.exc.isNone

/-- the loop of `ExitStack.__exit__(exc)`: callbacks LIFO (head = top of the stack); every
    callback runs and is logged, whatever the ones before it did. -/
def unwind (f : Faults) (H : Handles) : List Frame → Flight → Env → List Ev × Flight × Env
  | [], fl, env => ([], fl, env)
  | fr :: rest, fl, env =>
    let (ev, r, env1) := fr.run f env
    let (evs, fl2, env2) := unwind f H rest (fl.after r (fr.handles H)) env1
    (ev ++ evs, fl2, env2)

/-- the `powercycle_delay` wait: ticks to sleep before `poweron` -/
def sleepFor (delay : Nat) (env : Env) : Nat :=
  match env.lastOff with
  | some t => if delay > 0 then delay - (env.now - t) else 0
  | none => 0

/-- `PowerControl._init_machine` up to the `yield`. -/
def powerOn (f : Faults) (delay id : Nat) (env : Env) : List Ev × Except Tag (Option Frame) × Env :=
  if f (.check id) then ([.check id], .error (.check id), env)
  else if f (.refused id) then ([.check id], .error (.refused id), env)
  else
    let slp := sleepFor delay env
    let env1 := { env with now := env.now + slp }
    let evs := .check id :: ((if slp > 0 then [Ev.sleep slp] else []) ++ [.on id])
    if f (.on id) then
      -- `poweron()` raised inside `try`: the `finally` runs at once, nothing is registered
      let (evo, r, env2) := powerOff f id env1
      (evs ++ evo, .error (r.getD (.on id)), env2)
    else (evs, .ok (some (.power id)), env1)

/-- `self._cx.enter_context(step)` (or `self.init()` for the hook): events, the frame it
    registered or the exception it raised. -/
def enterStep (f : Faults) (delay : Nat) (s : Step) (env : Env) :
    List Ev × Except Tag (Option Frame) × Env :=
  match s.kind with
  | .power => powerOn f delay s.id env
  | .hook => ([.hook s.id], if f (.hook s.id) then .error (.hook s.id) else .ok none, env)
  | _ => ([.enter s.id], if f (.enter s.id) then .error (.enter s.id) else .ok (some (.cm s.id)), env)

/-- the steps that are entered by ONE context manager handed to `self._cx.enter_context`:
    `ConsoleConnector._connect` (connector/common.py) is the generator
    `with self.host.clone() as cloned, self.connect(cloned) as ch: yield ch` — the lab-host clone
    and the console connection are one unit; every other step is a unit of its own. -/
def units : List Step → List (List Step)
  | [] => []
  | [s] => [[s]]
  | s :: c :: rest => if s.kind == .host then [s, c] :: units rest else [s] :: units (c :: rest)

/-- `__enter__` of one unit: the `with a, b:` statement inside the generator enters its context
    managers in order; when one fails to enter, those entered before it are exited AT ONCE,
    innermost first, by that `with` statement (the last exception raised leaves the generator) —
    nothing of the unit reaches the ExitStack.  When all are entered the generator yields and
    `enter_context` registers it: exiting it later exits them innermost first, each seeing what
    the one before left in flight, exactly as consecutive callbacks of the stack would.
    (A lab-host clone never handles — `Kind.mayHandle` —, so the walk over `held` uses the empty
    step table.) -/
def enterUnit (f : Faults) (delay : Nat) : List Step → List Frame → Env →
    List Ev × Except Tag (List Frame) × Env
  | [], held, env => ([], .ok held, env)
  | s :: rest, held, env =>
    match enterStep f delay s env with
    | (ev, .error t, env1) =>
      let (evx, fl, env2) := unwind f (fun _ => false) held { exc := some t } env1
      (ev ++ evx, .error (fl.raised.getD t), env2)
    | (ev, .ok fr, env1) =>
      let (evs, r, env2) := enterUnit f delay rest (fr.toList ++ held) env1
      (ev ++ evs, r, env2)

/-- enter the units in order, stop at the first that raises.  Result: events, exception, the
    ExitStack, environment. -/
def enterUnits (f : Faults) (delay : Nat) : List (List Step) → List Frame → Env →
    List Ev × Option Tag × List Frame × Env
  | [], cx, env => ([], none, cx, env)
  | u :: rest, cx, env =>
    match enterUnit f delay u [] env with
    | (ev, .error t, env1) => (ev, some t, cx, env1)
    | (ev, .ok frs, env1) =>
      let (evs, r, cx2, env2) := enterUnits f delay rest (frs ++ cx) env1
      (ev ++ evs, r, cx2, env2)

/-- the body of the guarded block in `__enter__`: enter the steps in order, stop at the first that
    raises.  Result: events, exception, the ExitStack, environment. -/
def enterSteps (f : Faults) (delay : Nat) (steps : List Step) (cx : List Frame) (env : Env) :
    List Ev × Option Tag × List Frame × Env :=
  enterUnits f delay (units steps) cx env

/-- the order in which `__enter__` visits the classes: three filters over `type(self).mro()` with
    the connector, the shell and the hook (resolved through the MRO: the first definition) in
    between.  `ConsoleConnector._connect` (connector/common.py) is
    `with self.host.clone() as cloned, self.connect(cloned) as ch: yield ch` — two nested contexts
    inside one generator: two consecutive steps that form one unit (`units`, `enterUnit`). -/
def machSteps (mro : List Step) : List Step :=
  mro.filter (fun s => s.kind == .pre)
  ++ (mro.find? (fun s => s.kind == .host)).toList
  ++ (mro.find? (fun s => s.kind == .conn)).toList
  ++ mro.filter (fun s => s.kind == .init || s.kind == .power)
  ++ (mro.find? (fun s => s.kind == .shell)).toList
  ++ mro.filter (fun s => s.kind == .post)
  ++ (mro.find? (fun s => s.kind == .hook)).toList

/-- the machine object: `_rc`, `_cx`; plus the environment -/
structure Mach where
  rc : Nat := 0
  cx : List Frame := []
  env : Env := {}
  deriving DecidableEq, Repr, Inhabited

/-- `Machine.__exit__(exc)` as seen by whoever called it with `exc` in flight (a `with m:`
    statement, or the guard stack of `__enter__`): events, what propagates afterwards, machine.
    `self._cx.__exit__(*args)` either raises — that exception propagates — or returns its verdict,
    which is DISCARDED: `Machine.__exit__` returns `None`, so the caller re-raises the incoming
    exception whatever the steps handled.  (`_rc` is a `Nat`: the histories of the domain are
    balanced, so it never goes below zero.) -/
def machExit (f : Faults) (H : Handles) (exc : Option Tag) (m : Mach) : List Ev × Option Tag × Mach :=
  let rc := m.rc - 1
  if rc == 0 then
    let (evs, fl, env) := unwind f H m.cx { exc := exc } m.env
    (evs, fl.raised.or exc, { rc := 0, cx := [], env := env })
  else ([], exc, { m with rc := rc })

/-- `Machine.__enter__`. -/
def machEnter (f : Faults) (H : Handles) (delay : Nat) (steps : List Step) (m : Mach) : List Ev × Option Tag × Mach :=
  let rc := m.rc + 1
  if rc > 1 then ([], none, { m with rc := rc })
  else
    -- `self._cx = ExitStack()`; `with ExitStack() as cx: cx.push(self)`
    let (evs, r, cx, env) := enterSteps f delay steps [] m.env
    let m1 : Mach := { rc := rc, cx := cx, env := env }
    match r with
    | none => (evs, none, m1)          -- `cx.pop_all()`
    | some t =>
      -- the guard stack calls `self.__exit__(t)`: when that raises, the guard stack raises the new
      -- exception; when it returns (`None`), the guard stack returns false and `with` re-raises `t`
      let (evx, r2, m2) := machExit f H (some t) m1
      (evs ++ evx, r2, m2)

/-- actions of a `with m:` body -/
inductive Op where
  | opened | closed | mark (k : Nat) | raise (k : Nat)   -- `with m:` / end of it / marker / `raise`
  deriving DecidableEq, Repr, Inhabited

/-- the event a body action logs -/
def Op.ev : Op → Ev
  | .opened => .opened | .closed => .closed | .mark k => .mark k | .raise k => .raise k

/-- an exception leaves `d` enclosing inner `with m:` blocks: `__exit__(exc)` of each -/
def propagate (f : Faults) (H : Handles) : Nat → Tag → Mach → List Ev × Tag × Mach
  | 0, t, m => ([], t, m)
  | d + 1, t, m =>
    let (ev, r, m1) := machExit f H (some t) m
    let (evs, t2, m2) := propagate f H d (r.getD t) m1
    (ev ++ evs, t2, m2)

/-- the body of the outermost `with m:`; `d` = number of inner `with m:` blocks that are open -/
def runBody (f : Faults) (H : Handles) (delay : Nat) (steps : List Step) : List Op → Nat → Mach →
    List Ev × Option Tag × Mach
  | [], _, m => ([], none, m)
  | .opened :: ops, d, m =>
    match machEnter f H delay steps m with
    | (ev, some t, m1) =>
      let (evs, t2, m2) := propagate f H d t m1
      (ev ++ evs, some t2, m2)
    | (ev, none, m1) =>
      let (evs, r, m2) := runBody f H delay steps ops (d + 1) m1
      (ev ++ .opened :: evs, r, m2)
  | .closed :: ops, d, m =>
    match machExit f H none m with
    | (ev, some t, m1) =>
      let (evs, t2, m2) := propagate f H (d - 1) t m1
      (ev ++ evs, some t2, m2)
    | (ev, none, m1) =>
      let (evs, r, m2) := runBody f H delay steps ops (d - 1) m1
      (ev ++ .closed :: evs, r, m2)
  | .mark k :: ops, d, m =>
    let (evs, r, m2) := runBody f H delay steps ops d m
    (.mark k :: evs, r, m2)
  | .raise k :: _, d, m =>
    let (evs, t2, m2) := propagate f H d (.body k) m
    (.raise k :: evs, some t2, m2)

/-- one use of the machine by a caller: `with m: body`, with its own fault assignment; `gap` ticks
    pass before it starts -/
structure Session where
  gap : Nat := 0
  faults : List Tag := []
  body : List Op := []
  deriving DecidableEq, Repr, Inhabited

def Session.f (s : Session) : Faults := fun t => s.faults.contains t

/-- what the caller of one session observes: the event log, the exception that reached it, `_rc` -/
structure SObs where
  trace : List Ev
  exc : Option Tag
  rc : Int
  deriving DecidableEq, Repr, Inhabited

/-- `gap` ticks pass on the clock -/
def advance (gap : Nat) (m : Mach) : Mach := { m with env := { m.env with now := m.env.now + gap } }

/-- `with m: body` as the caller sees it (the step table is that of the steps) -/
def runSession (delay : Nat) (steps : List Step) (s : Session) (m : Mach) : SObs × Mach :=
  match machEnter s.f (handlesOf steps) delay steps (advance s.gap m) with
  | (ev1, some t, m1) => (⟨ev1, some t, m1.rc⟩, m1)
  | (ev1, none, m1) =>
    let (ev2, r2, m2) := runBody s.f (handlesOf steps) delay steps s.body 0 m1
    let (ev3, r3, m3) := machExit s.f (handlesOf steps) r2 m2
    (⟨ev1 ++ ev2 ++ ev3, r3, m3.rc⟩, m3)

def runSessions (delay : Nat) (steps : List Step) : List Session → Mach → List SObs
  | [], _ => []
  | s :: ss, m =>
    let (o, m1) := runSession delay steps s m
    o :: runSessions delay steps ss m1

/-- a case: the composition, `powercycle_delay` (ticks), the sessions on ONE machine object;
    `handlers` = the ids (positions in `bases`) of the steps whose context manager handles the
    exception passing through it -/
structure Case where
  bases : List Kind
  delay : Nat
  sessions : List Session
  handlers : List Nat := []
  deriving DecidableEq, Repr, Inhabited

/-- the classes of the composition with their ids (flat composition: MRO order = declaration
    order of the bases) -/
def mroFrom (hs : List Nat) : Nat → List Kind → List Step
  | _, [] => []
  | i, k :: ks => ⟨i, k, hs.contains i⟩ :: mroFrom hs (i + 1) ks

def Case.mro (c : Case) : List Step := mroFrom c.handlers 0 c.bases

/-- the kinds of step whose context manager may handle exceptions in the domain: the instrumented
    mixins.  (`PowerControl._init_machine` and `init()` are tbot's own / no context manager; a
    lab-host whose `clone()` context handles the exception of a failing `connect()` makes the
    generator `ConsoleConnector._connect` return without yielding — `contextmanager.__enter__`
    then raises `RuntimeError("generator didn't yield")`: a misuse, not a case.) -/
def Kind.mayHandle : Kind → Bool
  | .pre | .conn | .init | .shell | .post => true
  | .host | .power | .hook => false

/-- the fault-free fresh entry appended to every case: does the machine initialise again? -/
def probe : Session := {}

/-- whole-case observation: one record per session, the probe last -/
def run (c : Case) : List SObs :=
  runSessions c.delay (machSteps c.mro) (c.sessions ++ [probe]) {}

/-- body is well bracketed (the harness runs it with real `with` statements) -/
def balanced : List Op → Nat → Bool
  | [], d => d == 0
  | .opened :: ops, d => balanced ops (d + 1)
  | .closed :: ops, d => d > 0 && balanced ops (d - 1)
  | _ :: ops, d => balanced ops d

/-- domain of the property: exactly one connector and one shell, at most one `PowerControl`,
    one `init` override and one lab-host (Python cannot express more), well-bracketed bodies,
    handling context managers only where `Kind.mayHandle` -/
def Case.wf (c : Case) : Bool :=
  c.bases.count .conn == 1 && c.bases.count .shell == 1 && c.bases.count .power ≤ 1
  && c.bases.count .hook ≤ 1 && c.bases.count .host ≤ 1
  && c.sessions.all (fun s => balanced s.body 0)
  && c.mro.all (fun s => !s.handles || s.kind.mayHandle)

/-! ## wire format -/
namespace Wire

def listOf {α} (f : String → Option α) (s : String) : Option (List α) :=
  if s == "." then some [] else (s.splitOn ",").mapM f

def sepBy (l : List String) : String :=
  if l.isEmpty then "." else ",".intercalate l

/-- `<letter><number>` -/
def lettered (s : String) : Option (Char × Nat) :=
  match s.toList with
  | c :: rest => (String.ofList rest).toNat?.map (fun n => (c, n))
  | [] => none

/-- style of a step's context manager: `g` generator / `k` class (the difference is invisible),
    `u` generator / `t` class that HANDLES the exception passing through it → `handles` -/
def style (cs : List Char) : Option Bool :=
  if cs == ['g'] || cs == ['k'] then some false
  else if cs == ['u'] || cs == ['t'] then some true
  else none

/-- the lab-host clone: `g` / `k` only (see `Kind.mayHandle`) -/
def plainStyle (cs : List Char) : Option Bool :=
  if cs == ['g'] || cs == ['k'] then some false else none

/-- `p? c? i? s? q?` with `?` over `g k t u`; `lg lk`; `w`, `h`: the kind and whether the step handles -/
def kind (s : String) : Option (Kind × Bool) :=
  match s.toList with
  | ['w'] => some (.power, false)
  | ['h'] => some (.hook, false)
  | 'p' :: st => (style st).map fun h => (.pre, h)
  | 'l' :: st => (plainStyle st).map fun h => (.host, h)
  | 'c' :: st => (style st).map fun h => (.conn, h)
  | 'i' :: st => (style st).map fun h => (.init, h)
  | 's' :: st => (style st).map fun h => (.shell, h)
  | 'q' :: st => (style st).map fun h => (.post, h)
  | _ => none

/-- the positions (from `i`) of the bases that handle -/
def handlersFrom : Nat → List (Kind × Bool) → List Nat
  | _, [] => []
  | i, (_, h) :: ks => (if h then [i] else []) ++ handlersFrom (i + 1) ks

def tag (t : Tag) : String :=
  match t with
  | .enter i => s!"e{i}" | .exit i => s!"x{i}" | .check i => s!"c{i}" | .refused i => s!"n{i}"
  | .on i => s!"o{i}" | .off i => s!"f{i}" | .hook i => s!"h{i}" | .body k => s!"r{k}"

def tagOf (s : String) : Option Tag :=
  match lettered s with
  | some ('e', i) => some (.enter i) | some ('x', i) => some (.exit i) | some ('c', i) => some (.check i)
  | some ('n', i) => some (.refused i) | some ('o', i) => some (.on i) | some ('f', i) => some (.off i)
  | some ('h', i) => some (.hook i) | some ('r', k) => some (.body k)
  | _ => none

/-- a fault point of the wire form: every tag except `body` (bodies raise through their ops) -/
def faultOf (s : String) : Option Tag :=
  match tagOf s with
  | some (.body _) => none
  | r => r

def ev (e : Ev) : String :=
  match e with
  | .enter i => s!"e{i}" | .exit i => s!"x{i}" | .check i => s!"c{i}" | .sleep n => s!"z{n}"
  | .on i => s!"o{i}" | .off i => s!"f{i}" | .hook i => s!"h{i}"
  | .opened => "[" | .closed => "]" | .mark k => s!"m{k}" | .raise k => s!"r{k}"

def evOf (s : String) : Option Ev :=
  if s == "[" then some .opened else if s == "]" then some .closed else
  match lettered s with
  | some ('e', i) => some (.enter i) | some ('x', i) => some (.exit i) | some ('c', i) => some (.check i)
  | some ('z', n) => some (.sleep n) | some ('o', i) => some (.on i) | some ('f', i) => some (.off i)
  | some ('h', i) => some (.hook i) | some ('m', k) => some (.mark k) | some ('r', k) => some (.raise k)
  | _ => none

def opOf (s : String) : Option Op :=
  if s == "[" then some .opened else if s == "]" then some .closed else
  match lettered s with
  | some ('m', k) => some (.mark k) | some ('r', k) => some (.raise k)
  | _ => none

/-- `<gap>;<E|B|K>;<faults>;<body>` (the exception class is ignored by the model) -/
def sessionOf (s : String) : Option Session :=
  match s.splitOn ";" with
  | [g, st, fs, b] =>
    if st == "E" || st == "B" || st == "K" then do
      pure { gap := ← g.toNat?, faults := ← listOf faultOf fs, body := ← listOf opOf b }
    else none
  | _ => none

/-- `<bases> <delay> <session>*` -/
def case (toks : List String) : Option Case :=
  match toks with
  | b :: d :: ss => do
    let ks ← listOf kind b
    pure { bases := ks.map (·.1), delay := ← d.toNat?, sessions := ← ss.mapM sessionOf,
           handlers := handlersFrom 0 ks }
  | _ => none

/-- `<trace>;<exc>;<rc>` -/
def sobs (o : SObs) : String :=
  ";".intercalate [sepBy (o.trace.map ev), (match o.exc with | none => "-" | some t => tag t), toString o.rc]

def sobsOf (s : String) : Option SObs :=
  match s.splitOn ";" with
  | [t, e, r] => do
    let e ← if e == "-" then some none else (tagOf e).map some
    pure { trace := ← listOf evOf t, exc := e, rc := ← r.toInt? }
  | _ => none

def obs (o : List SObs) : String := " ".intercalate (o.map sobs)

def obsOf (toks : List String) : Option (List SObs) := toks.mapM sobsOf

end Wire
end Life
