import TbotVerif.Model.Shell
import TbotVerif.Model.Hush
/-! U-Boot shell driver (`tbot/machine/board/uboot.py`: `UBootShell.exec`, `exec0`, `test`, `env`)
    on top of the channel model, and the CONSOLE it talks to.

    The console is a model of what sits behind the serial line (U-Boot's `cli_readline` + hush +
    `serial_putc`), written from their semantics — there is no U-Boot binary here.  It is *reactive*:
    every byte tbot writes is answered at once.  `harness/ubootsim.py` is a line-by-line Python
    transcription of `Con.feed`; the real `UBootShell` is run against that transcription and the
    model below is run against `Con.feed` itself, on the same case.

      * raw mode, the console echoes every ordinary byte it is sent; Enter (CR, and LF) is echoed
        as CR LF and runs the collected line;
      * the line is tokenised by `Hush.hushWords` (hazard-rejecting: a line hush would not read as
        plain words is answered with `syntax error`, status 1);
      * an abstract command table maps the argument vector to (output, status); `echo $?` prints
        the last status; `setenv` / `printenv NAME` work on an environment map; anything else is
        `Unknown command`, status 1;
      * output passes through the serial driver (`\n` → `\r\n`), then the prompt is printed;
      * the keys of U-Boot's line editor (`Con.special`) are not modelled beyond "not inserted":
        the write black-list of `UBootShell._init_shell` keeps tbot from ever sending one
        (`C19.special_forbidden`). -/

namespace UBoot
open Chan

def CR : Byte := 13
def LF : Byte := 10

/-! ### the console -/

/-- keys U-Boot's `cread_line` acts on instead of inserting them (NUL, ^A ^B ^C ^D ^E ^F, BS, TAB,
    ^K, ^N ^O ^P, ^U, ^W, ^X, ESC, DEL) -/
def special : List Byte :=
  [0x00, 0x01, 0x02, 0x03, 0x04, 0x05, 0x06, 0x08, 0x09, 0x0B, 0x0E, 0x0F, 0x10, 0x15, 0x17, 0x18, 0x1B, 0x7F]

/-- one row of the abstract command table -/
structure Entry where
  argv : List Bytes
  out : Bytes
  status : Nat
  deriving Repr, BEq, Inhabited

/-- what the console did with a line (observable: the simulator logs it) -/
inductive Ran where
  | argv (ws : List Bytes)     -- dispatched a command with this argument vector
  | status                     -- `echo $?`
  | hazard (line : Bytes)      -- hush would not read the line as plain words
  deriving Repr, BEq, DecidableEq, Inhabited

structure Con where
  prompt : Bytes
  line : Bytes := []                       -- typed since the last Enter
  status : Nat := 0                        -- `$?`
  env : List (Bytes × Bytes) := []
  table : Option Entry := none             -- the command the current call is about
  ran : List Ran := []
  deriving Repr, Inhabited

def str (s : String) : Bytes := s.toUTF8.toList

def syntaxMsg : Bytes := str "syntax error\n"
def intrMsg : Bytes := str "<INTERRUPT>\r\n"
def usageMsg : Bytes := str "setenv - set environment variables\n"
def unknownMsg (name : Bytes) : Bytes := str "Unknown command '" ++ name ++ str "' - try 'help'\n"
def notDefinedMsg (name : Bytes) : Bytes := str "## Error: \"" ++ name ++ str "\" not defined\n"
def badNameMsg (name : Bytes) : Bytes :=
  str "## Error: illegal character '=' in variable name \"" ++ name ++ str "\"\n"

def EQ : Byte := 61

/-- `echo $?` -/
def echoStatus : Bytes := [101, 99, 104, 111, 32, 36, 63]
/-- `setenv`, `printenv` -/
def setenvB : Bytes := [115, 101, 116, 101, 110, 118]
def printenvB : Bytes := [112, 114, 105, 110, 116, 101, 110, 118]

/-- `str(status).encode()`: decimal digits -/
def statusBytes (n : Nat) : Bytes := (Nat.toDigits 10 n).map fun c => UInt8.ofNat c.toNat

def envDel (e : List (Bytes × Bytes)) (k : Bytes) : List (Bytes × Bytes) := e.filter (·.1 != k)
def envSet (e : List (Bytes × Bytes)) (k v : Bytes) : List (Bytes × Bytes) := (k, v) :: envDel e k
def envGet (e : List (Bytes × Bytes)) (k : Bytes) : Option Bytes := e.lookup k

/-- a legal variable name for `setenv` -/
def nameOk (name : Bytes) : Bool := !name.isEmpty && !name.contains EQ

/-- `printenv NAME` prints this for a defined variable -/
def printLine (name value : Bytes) : Bytes := name ++ EQ :: value ++ [LF]

/-- the built-in commands: (output, status, environment) -/
def builtin (argv : List Bytes) (env : List (Bytes × Bytes)) : Bytes × Nat × List (Bytes × Bytes) :=
  match argv with
  | [] => ([], 0, env)
  | cmd :: rest =>
    if cmd == setenvB then
      match rest with
      | [] => (usageMsg, 1, env)
      | name :: vals =>
        if !nameOk name then (badNameMsg name, 1, env)
        else if vals.isEmpty then ([], 0, envDel env name)
        else ([], 0, envSet env name (Quote.joinSp vals))
    else if cmd == printenvB then
      match rest with
      | [name] =>
        match envGet env name with
        | some v => (printLine name v, 0, env)
        | none => (notDefinedMsg name, 1, env)
      | _ => (unknownMsg cmd, 1, env)
    else (unknownMsg cmd, 1, env)

/-- run an argument vector: the table row of the current call if it is the one, else a built-in -/
def dispatch (argv : List Bytes) (con : Con) : Bytes × Con :=
  let con := { con with ran := con.ran ++ [Ran.argv argv] }
  match con.table with
  | some e =>
    if e.argv == argv then (e.out, { con with status := e.status })
    else
      let r := builtin argv con.env
      (r.1, { con with status := r.2.1, env := r.2.2 })
  | none =>
    let r := builtin argv con.env
    (r.1, { con with status := r.2.1, env := r.2.2 })

/-- Enter was pressed: what the line prints (before the serial driver), and the new state.
    `echo $?` is the one variable expansion that is modelled. -/
def runLine (line : Bytes) (con : Con) : Bytes × Con :=
  if line == echoStatus then
    (statusBytes con.status ++ [LF], { con with status := 0, ran := con.ran ++ [Ran.status] })
  else
    match Hush.hushWords line with
    | none => (syntaxMsg, { con with status := 1, ran := con.ran ++ [Ran.hazard line] })
    | some [] => ([], con)
    | some (w :: ws) => dispatch (w :: ws) con

/-- one received byte: what the console sends back, and the new state -/
def feed1 (c : Byte) (con : Con) : Bytes × Con :=
  if c == CR || c == LF then
    let r := runLine con.line { con with line := [] }
    (CR :: LF :: (Tty.cook r.1 ++ con.prompt), r.2)
  else if c == 0x03 then (intrMsg ++ con.prompt, { con with line := [] })
  else if special.contains c then ([], con)
  else ([c], { con with line := con.line ++ [c] })

/-- a run of received bytes -/
def feed : Bytes → Con → Bytes × Con
  | [], con => ([], con)
  | c :: cs, con =>
    let r1 := feed1 c con
    let r2 := feed cs r1.2
    (r1.1 ++ r2.1, r2.2)

/-! ### the transport between the two -/

/-- cut `b` at the absolute stream offsets given by the remaining piece sizes; returns the pieces
    and the sizes that are left (the head reduced by what was used of it) -/
def cutCarry : List Nat → Bytes → List Bytes × List Nat
  | cs, [] => ([], cs)
  | [], b => ([b], [])
  | n :: ns, b =>
    if n = 0 then cutCarry ns b
    else if b.length < n then ([b], (n - b.length) :: ns)
    else
      let r := cutCarry ns (b.drop n)
      (b.take n :: r.1, r.2)

/-- channel + console + what is left of the fragmentation schedule of the console's output -/
structure Sess where
  st : St
  con : Con
  cuts : List Nat
  deriving Repr, Inhabited

/-- the console receives `payload`; its answer is queued on the transport, cut by the schedule -/
def push (payload : Bytes) (ss : Sess) : Sess :=
  let r := feed payload ss.con
  let c := cutCarry ss.cuts r.1
  { st := { ss.st with script := ss.st.script ++ Shell.toScript c.1 }, con := r.2, cuts := c.2 }

/-- the loop of `Channel.send(s, read_back=True)` (no timeout) with the console behind the
    transport: every 512-byte slice is written (`Channel.write`), the console answers it, and the
    echo is read back (`Channel.read(n)`, two bytes for every CR / LF) before the next slice goes
    out.  Same steps as `Chan.sendLoop`, with the console's reaction in between. -/
def sendLoopRB : Nat → Bytes → Sess → Except Exc Unit × Sess
  | 0, _, ss => (.error .fuel, ss)
  | _ + 1, [], ss => (.ok (), ss)
  | f + 1, b :: t, ss =>
    let chunk := (b :: t).take ss.st.slice
    match write chunk false ss.st with
    | (.error e, st) => (.error e, { ss with st := st })
    | (.ok _, st) =>
      let ss := push chunk { ss with st := st }
      match read (some (chunk.length + countNl chunk)) none ss.st with
      | (.error e, st) => (.error e, { ss with st := st })
      | (.ok _, st) => sendLoopRB f ((b :: t).drop ss.st.slice) { ss with st := st }

/-- `ch.sendline(line, read_back=True)`: `send(line + b"\r", read_back=True)`.  The whole payload
    is checked against the black-list first; a refused payload reaches nobody. -/
def sendlineRB (line : Bytes) (ss : Sess) : Except Exc Unit × Sess :=
  if forbidden ss.st.blacklist (line ++ [CR]) then (.error .illegal, ss)
  else sendLoopRB (line.length + 2) (line ++ [CR]) ss

/-! ### `UBootShell` -/

inductive UExc where
  | chan (e : Exc)
  | invalidRetcode                -- `InvalidRetcodeError`
  | commandFailure                -- `CommandFailure`
  deriving Repr, BEq, Inhabited

abbrev URes (α : Type) := Except UExc α × Sess

/-- the command and the channel prompt for which `exec` installs its prompt override
    (uboot.py: `args[0] == "crc32" and self.ch.prompt in ("=> ", b"=> ")`) -/
def crcName : Bytes := [99, 114, 99, 51, 50]
def crcPrompt : Bytes := [61, 62, 32]

def isCrc (args : List Bytes) (s : St) : Bool :=
  args.head? == some crcName &&
    (match s.prompt with
     | some (.lit p) => p == crcPrompt      -- a compiled pattern never equals a string
     | _ => false)

/-- `if out.endswith("\r"): out = out[:-1]` -/
def stripCr (s : List Char) : List Char :=
  if s.getLast? == some '\r' then s.dropLast else s

/-- `self.ch.sendline("echo $?", read_back=True); int(self.ch.read_until_prompt())` -/
def fetchRetcode (ss : Sess) : URes Nat :=
  match sendlineRB echoStatus ss with
  | (.error e, ss) => (.error (.chan e), ss)
  | (.ok _, ss) =>
    let r := readUntilPrompt none none ss.st
    let ss := { ss with st := r.2 }
    match r.1 with
    | .error e => (.error (.chan e), ss)
    | .ok (b, _) =>
      match Shell.parseInt (text b) with
      | some n => (.ok n, ss)
      | none => (.error .invalidRetcode, ss)

/-- the three nested blocks of `exec` that collect the command's output:
    `with self.ch.with_prompt(override): with self.ch.with_stream(ev, show_prompt=False):
         out = self.ch.read_until_prompt(prompt=override)`
    (stream id 0 is the log event) -/
def readOutput (ovr : Option Pat) (s : St) : Res (Bytes × Bytes) :=
  let prev := s.prompt
  let st := match ovr with
    | some p => { s with prompt := some (anchor p) }
    | none => s
  let se := streamEnter 0 false st
  let r := readUntilPrompt ovr none se.2
  let st := streamExit 0 se.1 r.2
  let st := match ovr with
    | some _ => { st with prompt := prev }
    | none => st
  (r.1, st)

/-- `UBootShell.exec(*args)` for `str` arguments -/
def exec (args : List Bytes) (ss : Sess) : URes (Nat × List Char) :=
  let cmd := Hush.escape args
  let ovr : Option Pat := if isCrc args ss.st then some (.lit Params.ubootCrcOverride) else none
  match sendlineRB cmd ss with
  | (.error e, ss) => (.error (.chan e), ss)
  | (.ok _, ss) =>
    let r := readOutput ovr ss.st
    let ss := { ss with st := r.2 }
    match r.1 with
    | .error e => (.error (.chan e), ss)
    | .ok (b, _) =>
      -- the overridden prompt ate the trailing '\n' (and the '\r' in front of it is left over)
      let out := if ovr.isSome then stripCr (text b) ++ ['\n'] else text b
      match fetchRetcode ss with
      | (.error e, ss) => (.error e, ss)
      | (.ok rc, ss) => (.ok (rc, out), ss)

/-- `UBootShell.exec0` -/
def exec0 (args : List Bytes) (ss : Sess) : URes (List Char) :=
  match exec args ss with
  | (.error e, ss) => (.error e, ss)
  | (.ok (rc, out), ss) => if rc = 0 then (.ok out, ss) else (.error .commandFailure, ss)

/-- `UBootShell.test` -/
def test (args : List Bytes) (ss : Sess) : URes Bool :=
  match exec args ss with
  | (.error e, ss) => (.error e, ss)
  | (.ok (rc, _), ss) => (.ok (rc == 0), ss)

/-- `output[len(var) + 1 : -1]`; `len(var)` counts characters -/
def sliceValue (var : Bytes) (output : List Char) : List Char :=
  (output.drop ((decodeReplace var).length + 1)).dropLast

/-- `UBootShell.env(var, value)` -/
def env (var : Bytes) (value : Option Bytes) (ss : Sess) : URes (List Char) :=
  let r0 : URes Unit := match value with
    | none => (.ok (), ss)
    | some v =>
      match exec0 [setenvB, var, v] ss with
      | (.error e, ss) => (.error e, ss)
      | (.ok _, ss) => (.ok (), ss)
  match r0 with
  | (.error e, ss) => (.error e, ss)
  | (.ok _, ss) =>
    match exec0 [printenvB, var] ss with
    | (.error e, ss) => (.error e, ss)
    | (.ok output, ss) => (.ok (sliceValue var output), ss)

end UBoot
