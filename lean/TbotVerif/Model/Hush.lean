import TbotVerif.Model.Quote
/-! U-Boot quoting: `_hush_quote` / `UBootShell.escape` (tbot/machine/board/uboot.py) at byte
    level, and U-Boot's hush tokenizer written as a HAZARD-REJECTING function: it returns the
    argument vector only when nothing on the line could trigger variable expansion, command
    separation, comment handling, a syntax error or a read past the end of the word buffer.

    The tokenizer is written from the semantics of U-Boot's `common/cli_hush.c`
    (`parse_stream`, `done_word`; `__U_BOOT__` branches):
      * a single quote bypasses the main loop until its mate, every byte in between is copied
        verbatim — INCLUDING backslashes;
      * an unquoted backslash copies itself and the next byte (`b_addqchr` twice);
      * `done_word` then runs the backslash-removal pass over the collected bytes: every `\` is
        dropped and the byte after it is kept.  So `'a\\b'` is the word `a\b` and `'a\b'` is `ab`;
        a word ending in a lone `\` makes that loop step over the terminating NUL (hazard);
      * `$` (handle_dollar), `;` `&` `|` (operators), `#` (comment), `"` are special when
        unquoted; blank, tab, newline separate words;
      * 0x03 is hush's internal variable marker; control bytes are interpreted by the console
        line editor before hush sees them.  Every control byte is a hazard here.
    There is no hush binary in this environment: this model is NOT validated against U-Boot. -/

namespace Hush
open Quote (SQ DQ SP)

def BS : Byte := 92   -- \

/-- bytes `_hush_quote` leaves unquoted; regenerated into `Params.hushSafe` by calling the real
    function on every one-character string -/
def safeByte (c : Byte) : Bool := Params.hushSafe.contains c.toNat

/-- bytes hush's `parse_stream` copies unchanged when they stand unquoted: hand-written (ASCII
    letters, digits, `% + , - . / : = @ _` — none is in hush's `map` of special characters),
    deliberately INDEPENDENT of the regenerated `Params.hushSafe`, so that an edit to
    `_hush_quote`'s safe class is judged by the tokenizer and not absorbed by it -/
def plainByte (c : Byte) : Bool := Quote.posixPlain c.toNat

/-- bytes the theorem ranges over: printable ASCII (0x20–0x7E) and everything >= 0x80 -/
def printable (c : Byte) : Bool := 32 ≤ c && c != 127

/-- `s.replace("\\", "\\\\")` -/
def dblBackslash : Bytes → Bytes
  | [] => []
  | c :: cs => if c == BS then BS :: BS :: dblBackslash cs else c :: dblBackslash cs

/-- `s.replace("'", "'\\''")` -/
def spliceQuote : Bytes → Bytes
  | [] => []
  | c :: cs => if c == SQ then SQ :: BS :: SQ :: SQ :: spliceQuote cs else c :: spliceQuote cs

/-- `_hush_quote(s).encode()` for `s.encode()` -/
def hushQuote (s : Bytes) : Bytes :=
  if s.isEmpty then Params.hushEmpty
  else if s.all safeByte then s
  else SQ :: (spliceQuote (dblBackslash s) ++ [SQ])

/-- one argument of `UBootShell.escape` -/
inductive Arg where
  | str (s : Bytes)     -- `str`: `_hush_quote`
  | raw (s : Bytes)     -- a `linux.special.Special` (`Raw`, `Then`, `AndThen`, `OrElse`, …): verbatim
  | other               -- anything else (also `linux.Path`): `TypeError`
  deriving Repr, DecidableEq

def Arg.render : Arg → Option Bytes
  | .str s => some (hushQuote s)
  | .raw s => some s
  | .other => none

/-- `UBootShell.escape(*args)`; `none` = `TypeError` -/
def escapeArgs (args : List Arg) : Option Bytes := (args.mapM Arg.render).map Quote.joinSp

/-- `escape` for plain strings -/
def escape (args : List Bytes) : Bytes := Quote.joinSp (args.map hushQuote)

def Arg.payload : Arg → Bytes
  | .str s => s
  | .raw s => s
  | .other => []

def Arg.atoms : Arg → List Quote.Atom
  | .str s => [.word s]
  | .raw s => [.lit s]
  | .other => []

/-! ### the tokenizer -/

/-- `done_word`'s backslash-removal pass: `for (s = data; *s; s++, str++) { if (*s == '\\') s++; *str = *s; }`.
    `none`: the word ends in a lone backslash (the C loop steps over the terminator). -/
def unbs : Bytes → Option Bytes
  | [] => some []
  | c :: cs =>
    if c == BS then
      match cs with
      | [] => none
      | d :: ds => (unbs ds).map (d :: ·)
    else (unbs cs).map (c :: ·)

/-- finish the current word (if one was started): `done_word` -/
def done (w : Option Bytes) (acc : List Bytes) : Option (List Bytes) :=
  match w with
  | none => some acc
  | some x => (unbs x).map (· :: acc)

/-- tokenizer states: unquoted, inside '…', inside "…", directly after an unquoted backslash -/
inductive HS where | U | S | D | E deriving DecidableEq, Repr

/-- hush word splitter: state, RAW bytes of the current word (before backslash removal;
    `none` = no word started), finished words (reversed), input.  `none` = hazard. -/
def split : HS → Option Bytes → List Bytes → Bytes → Option (List Bytes)
  | .U, w, acc, [] => (done w acc).map List.reverse
  | .S, _, _, [] => none                      -- unterminated quote: hush asks for more input
  | .D, _, _, [] => none
  | .E, _, _, [] => none                      -- `\` at the end of the input: syntax error
  | .U, w, acc, c :: cs =>
    if !printable c then none                  -- control byte (tab/newline separators included)
    else if c == SP then
      match done w acc with
      | none => none
      | some acc' => split .U none acc' cs
    else if c == SQ then split .S (some (w.getD [])) acc cs
    else if c == DQ then split .D (some (w.getD [])) acc cs
    else if c == BS then split .E (some (w.getD [] ++ [BS])) acc cs   -- copied, removed by `unbs`
    else if plainByte c then split .U (some (w.getD [] ++ [c])) acc cs
    else none                                   -- `$ ; & | #` and every other unquoted byte
  | .E, w, acc, c :: cs =>
    if !printable c then none else split .U (some (w.getD [] ++ [c])) acc cs
  | .S, w, acc, c :: cs =>
    if !printable c then none
    else if c == SQ then split .U w acc cs
    else split .S (some (w.getD [] ++ [c])) acc cs
  | .D, w, acc, c :: cs =>
    if c == DQ then split .U w acc cs
    else if plainByte c then split .D (some (w.getD [] ++ [c])) acc cs
    else none                                   -- `$`, `\`, `'` (!) are live inside double quotes

/-- the argument vector hush derives from a command line, or `none` on any hazard -/
def hushWords (s : Bytes) : Option (List Bytes) := split .U none [] s

/-- reads ONE hush word (counterpart of `Quote.wordAux`), returning the word after backslash
    removal and what follows it -/
def wordAux : HS → Bytes → Bytes → Option (Bytes × Option Bytes)
  | .U, w, [] => (unbs w).map (·, none)
  | .S, _, [] => none
  | .D, _, [] => none
  | .E, _, [] => none
  | .U, w, c :: cs =>
    if !printable c then none
    else if c == SP then (unbs w).map (·, some cs)
    else if c == SQ then wordAux .S w cs
    else if c == DQ then wordAux .D w cs
    else if c == BS then wordAux .E (w ++ [BS]) cs
    else if plainByte c then wordAux .U (w ++ [c]) cs
    else none
  | .E, w, c :: cs =>
    if !printable c then none else wordAux .U (w ++ [c]) cs
  | .S, w, c :: cs =>
    if !printable c then none
    else if c == SQ then wordAux .U w cs
    else wordAux .S (w ++ [c]) cs
  | .D, w, c :: cs =>
    if c == DQ then wordAux .U w cs
    else if plainByte c then wordAux .D (w ++ [c]) cs
    else none

def firstWord : Bytes → Option (Bytes × Option Bytes)
  | [] => none
  | c :: cs => if c == SP then none else wordAux .U [] (c :: cs)

end Hush
