/-! Executable model of `tbot.Context` / `InstanceManager` (tbot/context.py) together with the
    machine re-entrancy counter of `Machine.__enter__/__exit__` (tbot/machine/machine.py).

    Classes are numbers `0 … n-1`; class `c` is built by a `from_context` that requests the
    classes `deps c` through the context (exactly like `board.Connector.from_context`,
    `LinuxUbootConnector.from_context`, `ConsoleConnector.from_context`).  A machine object is
    *up* between its `init` and its `down` event.  Exceptions carry an identity.

    The model mirrors the tree with the repairs of findings F9 and F12 applied
    (`InstanceManager.teardown` resets `_instance` in a `finally`; the teardown loops of
    `Context.__exit__` and `Context.reconfigure` continue after a failing teardown and re-raise
    the first error; the keep-alive flag of a request is read when the request is released). -/
namespace Ctx

/-- exception kinds: `ContextError`, a machine-initialisation fault, a machine-teardown fault,
    an exception raised by a request body, a `pytest.skip()`; `fuel` marks an exhausted recursion
    level: level `cfg.n` suffices for classes `< cfg.n` of an acyclic graph (the proofs of
    Props/CtxLeak*.lean and Props/CtxTrace5.lean work on exactly that level). -/
inductive Kind where
  | ctx | fi | fd | body | skip | fuel
deriving DecidableEq, Repr, Inhabited

/-- an exception object: identity and kind -/
structure Exc where
  id : Nat
  kind : Kind
deriving DecidableEq, Repr, Inhabited

/-- observable events -/
inductive Ev where
  | init (c o : Nat)                    -- machine object `o` of class `c` initialised (connector entered)
  | down (c o : Nat)                    -- … torn down (connector left)
  | yielded (dep : Bool) (c o : Nat)    -- a request on class `c` yielded object `o` (`dep`: made inside from_context)
  | released (dep : Bool) (c : Nat)     -- that request's context manager has been left
  | ctxEnter | ctxBody | ctxLeave       -- `with ctx`: before entry, body finished, after `__exit__`
  | tdRes (c : Nat) (b : Bool)          -- `teardown_if_alive` returned `b`
  | created (e : Exc)                   -- exception created by a body / fault
  | leaves (e : Exc)                    -- exception propagates out of a request/ctx/reconfigure/teardown_if_alive statement
  | caught (e : Exc)                    -- exception caught by a `try`
  | fin (e : Option Exc)                -- outcome of the whole program
deriving DecidableEq, Repr, Inhabited

/-- a machine object: its class, `Machine._rc`, and whether its connector is entered -/
structure Obj where
  cls : Nat := 0
  rc : Int := 0
  up : Bool := false
deriving DecidableEq, Repr, Inhabited

/-- an entered `Context.request()` context manager (a suspended pair of generators):
    the class, the object bound by `with self._instance as m`, the flags it captured. -/
structure Frame where
  id : Nat        -- identity of the generator object (a serial number; never observable)
  cls : Nat
  obj : Nat
  excl : Bool
  roe : Bool
  dep : Bool
deriving DecidableEq, Repr, Inhabited

/-- `InstanceManager`: `_instance`, `_current_users`, `_available`; `held` = the requests the
    suspended `from_context` generator inside `_cx` holds (non-empty only while `_instance` is set). -/
structure Mgr where
  inst : Option Nat := none
  users : Nat := 0
  avail : Bool := false
  held : List Frame := []
deriving Repr, Inhabited

/-- static part of a case: number of classes, dependency requests `(class, exclusive)` made by
    each class's `from_context`, ordinals of the machine initialisations / teardowns that raise -/
structure Cfg where
  n : Nat
  deps : List (List (Nat × Bool))
  fi : List Nat
  fd : List Nat
deriving Repr, Inhabited

def Cfg.depsOf (cfg : Cfg) (c : Nat) : List (Nat × Bool) := cfg.deps.getD c []

/-- dependency requests only go to smaller class numbers (acyclic, as `from_context`s are) -/
def Cfg.wf (cfg : Cfg) : Bool :=
  cfg.deps.length == cfg.n &&
  (List.range cfg.n).all fun c => (cfg.depsOf c).all fun d => decide (d.1 < c)

/-- `Context` fields, all managers, all machine objects ever created, the event log (newest first) -/
structure St where
  objs : Nat → Obj := fun _ => {}
  nObj : Nat := 0
  mgrs : Nat → Mgr := fun _ => {}
  nFrame : Nat := 0
  open_ : List Frame := []        -- every entered `Context.request()` context manager that has not been left yet
                                  -- (the suspended generator objects; book-keeping only, never read by the model)
  order : List Nat := []          -- `_teardown_order`
  openCtx : Nat := 0              -- `_open_contexts`
  keepAlive : Bool := false       -- `_keep_alive`
  roeDefault : Bool := false      -- `_reset_on_error_default`
  trace : List Ev := []
  nInit : Nat := 0
  nDown : Nat := 0
  nExc : Nat := 0

abbrev R := St × Option Exc

def St.mgr (s : St) (c : Nat) : Mgr := s.mgrs c
def St.setMgr (s : St) (c : Nat) (m : Mgr) : St :=
  { s with mgrs := fun k => if k = c then m else s.mgrs k }
def St.obj (s : St) (o : Nat) : Obj := s.objs o
def St.setObj (s : St) (o : Nat) (x : Obj) : St :=
  { s with objs := fun k => if k = o then x else s.objs k }
def St.log (s : St) (e : Ev) : St := { s with trace := e :: s.trace }
def St.alive (s : St) (c : Nat) : Bool := (s.mgr c).inst.isSome

/-- a new exception object -/
def St.newExc (s : St) (kind : Kind) : St × Exc :=
  ({ s with nExc := s.nExc + 1 }, ⟨s.nExc, kind⟩)

/-- raise a `ContextError` -/
def St.ctxError (s : St) : R :=
  let r := s.newExc .ctx
  (r.1, some r.2)

/-- Python: an exception raised while another one is in flight replaces it -/
def later (a b : Option Exc) : Option Exc :=
  match b with
  | some e => some e
  | none => a

/-- the first error of a teardown loop wins -/
def first (a b : Option Exc) : Option Exc :=
  match a with
  | some e => some e
  | none => b

section
variable (cfg : Cfg)

/-- `Machine.__enter__` with `_rc` 0 → 1: the connector is entered (`init` event); a fault in the
    rest of the initialisation unwinds the machine's own stack again (`down` event) and raises. -/
def machineUp (s : St) (o : Nat) : R :=
  let ob := s.obj o
  let s := { s with nInit := s.nInit + 1 }
  let s := s.log (.init ob.cls o)
  if cfg.fi.contains s.nInit then
    let r := s.newExc .fi
    let s := (r.1.log (.created r.2)).log (.down ob.cls o)
    (s.setObj o { ob with rc := 0, up := false }, some r.2)
  else (s.setObj o { ob with rc := 1, up := true }, none)

/-- `Machine.__exit__` bringing `_rc` to 0: `self._cx.__exit__()`; the connector is left (`down`
    event) and may raise afterwards. -/
def machineDown (s : St) (o : Nat) : R :=
  let ob := s.obj o
  let s := { s with nDown := s.nDown + 1 }
  let s := s.log (.down ob.cls o)
  let s := s.setObj o { ob with up := false }
  if cfg.fd.contains s.nDown then
    let r := s.newExc .fd
    (r.1.log (.created r.2), some r.2)
  else (s, none)

/-- `Machine.__exit__`: `_rc -= 1; if _rc == 0: unwind` -/
def objExit (s : St) (o : Nat) : R :=
  let ob := s.obj o
  let s := s.setObj o { ob with rc := ob.rc - 1 }
  if ob.rc - 1 == 0 then machineDown cfg s o else (s, none)

/-- `Machine.__enter__`: `_rc += 1; if _rc > 1: return self`, otherwise initialise -/
def objEnter (s : St) (o : Nat) : R :=
  let ob := s.obj o
  if ob.rc + 1 > 1 then (s.setObj o { ob with rc := ob.rc + 1 }, none)
  else machineUp cfg s o

/-- leave a list of entered request context managers (an `ExitStack` unwinding, innermost first),
    threading the in-flight exception -/
def exitFramesWith (rx : Frame → St → Option Exc → R) : List Frame → St → Option Exc → R
  | [], s, e => (s, e)
  | f :: fs, s, e =>
    let r := rx f s e
    exitFramesWith rx fs r.1 r.2

/-- `InstanceManager.teardown` (`rx` = leaving a request one dependency level down) -/
def teardownF (rx : Frame → St → Option Exc → R) (c : Nat) (s : St) : R :=
  match (s.mgr c).inst with
  | none => s.ctxError
  | some o =>
    -- `self._instance._rc = 1`
    let s := s.setObj o { s.obj o with rc := 1 }
    -- `self._cx.close()`: the ExitStack pops the from_context generator, which resumes and leaves
    -- its own ExitStack (popping as it goes): first `cls(...)` (the machine goes down), then the
    -- dependency requests, last one first
    let held := (s.mgr c).held
    let s := s.setMgr c { s.mgr c with held := [] }
    let r1 := objExit cfg s o
    let r2 := exitFramesWith rx held.reverse r1.1 r1.2
    -- `finally: self._instance = None`
    (r2.1.setMgr c { r2.1.mgr c with inst := none }, r2.2)

/-- `except BaseException as e:` in `Context.request`: reset_on_error, pytest skips excepted;
    `raise e from None` — unless the teardown itself raises -/
def roeStep (td : Nat → St → R) (f : Frame) (s : St) (e : Option Exc) : R :=
  match e with
  | some ex =>
    if f.roe && ex.kind != .skip && s.alive f.cls then
      let r := td f.cls s
      (r.1, later (some ex) r.2)
    else (s, some ex)
  | none => (s, none)

/-- the `finally:` of `InstanceManager.request` after `_current_users -= 1`: an exclusive user or
    the last user (keep-alive off, read now) tears the instance down -/
def finallyStep (td : Nat → St → R) (c : Nat) (excl : Bool) (s : St) (e : Option Exc) : R :=
  if excl || (!s.keepAlive && (s.mgr c).users == 0) then
    if s.alive c then
      let r := td c s
      (r.1, later e r.2)
    else (s, e)
  else (s, e)

/-- leave one `Context.request()` context manager with in-flight exception `e`
    (`td` = `InstanceManager.teardown` on the same level) -/
def reqExitF (td : Nat → St → R) (f : Frame) (s : St) (e : Option Exc) : R :=
  let r0 := roeStep td f s e
  -- leave `with self._instance as m` in InstanceManager.request
  let r1 := objExit cfg r0.1 f.obj
  let e1 := later r0.2 r1.2
  -- the generator objects are gone; `finally:` of InstanceManager.request
  let s := { r1.1 with open_ := r1.1.open_.filter fun g => g.id != f.id }
  let s := s.setMgr f.cls { s.mgr f.cls with users := (s.mgr f.cls).users - 1 }
  let r2 := finallyStep td f.cls f.excl s e1
  (r2.1.log (.released f.dep f.cls), r2.2)

/-- enter the dependency requests of a `from_context`, in order; stops at the first failure -/
def enterDepsWith (re : Nat → Bool → St → St × (Frame ⊕ Exc)) :
    List (Nat × Bool) → St → List Frame → St × List Frame × Option Exc
  | [], s, held => (s, held, none)
  | d :: ds, s, held =>
    match re d.1 d.2 s with
    | (s, .inl f) => enterDepsWith re ds s (held ++ [f])
    | (s, .inr e) => (s, held, some e)

/-- `InstanceManager.init(context=cls.from_context(ctx))` (`re`/`rx` = entering / leaving a
    dependency request, one level down) -/
def initClsF (re : Nat → Bool → St → St × (Frame ⊕ Exc)) (rx : Frame → St → Option Exc → R)
    (c : Nat) (s : St) : R :=
  if s.alive c then s.ctxError else
  let s := s.setMgr c { s.mgr c with avail := true }
  let r := enterDepsWith re (cfg.depsOf c) s []
  match r.2.2 with
  | some ex => exitFramesWith rx r.2.1.reverse r.1 (some ex)
  | none =>
    -- `cls(*deps)` and `__enter__`
    let s := r.1
    let o := s.nObj
    let s := { s with nObj := s.nObj + 1 }
    let s := s.setObj o { cls := c, rc := 0, up := false }
    let r1 := machineUp cfg s o
    match r1.2 with
    | some ex => exitFramesWith rx r.2.1.reverse r1.1 (some ex)
    | none => (r1.1.setMgr c { r1.1.mgr c with inst := some o, held := r.2.1 }, none)

/-- `if instance.is_alive() and reset: instance.teardown()` -/
def resetStep (td : Nat → St → R) (c : Nat) (reset : Bool) (s : St) : R :=
  if s.alive c && reset then td c s else (s, none)

/-- `if not instance.is_alive(): instance.init(context=machine_class.from_context(self))` -/
def ensureStep (ini : Nat → St → R) (c : Nat) (s : St) : R :=
  if !s.alive c then ini c s else (s, none)

/-- entering `instance.request(exclusive, keep_alive)` and the rest of `Context.request` up to
    its `yield` -/
def admitStep (td : Nat → St → R) (dep : Bool) (c : Nat) (excl roe : Bool) (s : St) :
    St × (Frame ⊕ Exc) :=
  let m := s.mgr c
  match m.inst with
  | none => let r := s.newExc .ctx; (r.1, .inr r.2)
  | some o =>
    if !m.avail then let r := s.newExc .ctx; (r.1, .inr r.2) else
    let s := s.setMgr c { m with users := m.users + 1, avail := m.avail && !excl }
    let fr : Frame := { id := s.nFrame, cls := c, obj := o, excl := excl, roe := roe, dep := dep }
    let s := { s with nFrame := s.nFrame + 1, open_ := s.open_ ++ [fr] }
    let r2 := objEnter cfg s o
    match r2.2 with
    | some ex =>
      -- `finally:` of InstanceManager.request
      let s := { r2.1 with open_ := r2.1.open_.filter fun g => g.id != fr.id }
      let s := s.setMgr c { s.mgr c with users := (s.mgr c).users - 1 }
      let r := finallyStep td c excl s (some ex)
      (r.1, .inr (r.2.getD ex))
    | none =>
      let s := r2.1
      let s := if s.order.contains c then s else { s with order := s.order ++ [c] }
      let s := s.log (.yielded dep c o)
      (s, .inl fr)

/-- enter `Context.request(cls, reset=, exclusive=, reset_on_error=)` -/
def reqEnterF (td ini : Nat → St → R) (dep : Bool) (c : Nat) (reset excl : Bool)
    (roe : Option Bool) (s : St) : St × (Frame ⊕ Exc) :=
  let roe := roe.getD s.roeDefault
  if s.keepAlive && s.openCtx == 0 then
    let r := s.newExc .ctx
    (r.1, .inr r.2)
  else
  let r0 := resetStep td c reset s
  match r0.2 with
  | some ex => (r0.1, .inr ex)
  | none =>
  let r1 := ensureStep ini c r0.1
  match r1.2 with
  | some ex => (r1.1, .inr ex)
  | none => admitStep cfg td dep c excl roe r1.1

/-- the operations on one dependency level -/
structure Ops where
  teardown : Nat → St → R
  reqExit : Frame → St → Option Exc → R
  reqEnter : Bool → Nat → Bool → Bool → Option Bool → St → St × (Frame ⊕ Exc)

def fuelR (s : St) : R := (s, some ⟨0, .fuel⟩)

/-- level `k` handles requests on classes `< k` (dependency requests go one level down) -/
def ops : Nat → Ops
  | 0 => { teardown := fun _ s => fuelR s
           reqExit := fun _ s _ => fuelR s
           reqEnter := fun _ _ _ _ _ s => (s, .inr ⟨0, .fuel⟩) }
  | k + 1 =>
    let prev := ops k
    let td := teardownF cfg prev.reqExit
    let ini := initClsF cfg (fun d x s => prev.reqEnter true d false x none s) prev.reqExit
    { teardown := td
      reqExit := reqExitF cfg td
      reqEnter := reqEnterF cfg td ini }

/-- the body of the teardown loops: `for cls in reversed(order): if cond: try teardown, keep first error` -/
def tdLoop (td : Nat → St → R) (cond : St → Nat → Bool) : List Nat → St → Option Exc → R
  | [], s, e => (s, e)
  | c :: cs, s, e =>
    if cond s c then
      let r := td c s
      tdLoop td cond cs r.1 (first e r.2)
    else tdLoop td cond cs s e

/-- `Context.__exit__` -/
def ctxExit (s : St) : R :=
  let r : R :=
    if s.openCtx == 1 then
      tdLoop (ops cfg cfg.n).teardown (fun s c => s.alive c && s.keepAlive) s.order.reverse s none
    else (s, none)
  ({ r.1 with openCtx := r.1.openCtx - 1 }, r.2)

/-- the `finally` of `Context.reconfigure` -/
def reconfExit (ka0 roe0 : Bool) (ka : Option Bool) (s : St) : R :=
  let s := { s with keepAlive := ka0, roeDefault := roe0 }
  if ka0 == false && ka == some true then
    tdLoop (ops cfg cfg.n).teardown (fun s c => s.alive c && (s.mgr c).users == 0) s.order.reverse s none
  else (s, none)

end

mutual
/-- programs: statements -/
inductive Stmt where
  | req (c : Nat) (reset excl : Bool) (roe : Option Bool) (body : Block)
  | ctx (body : Block)
  | reconf (ka roe : Option Bool) (body : Block)
  | try_ (body : Block)
  | raise
  | skip
  | td (c : Nat)
/-- programs: statement lists -/
inductive Block where
  | nil
  | cons (s : Stmt) (rest : Block)
end

/-- log that an exception leaves a statement -/
def logLeave (r : R) : R :=
  match r.2 with
  | some e => (r.1.log (.leaves e), some e)
  | none => r

section
variable (cfg : Cfg)

mutual
/-- run one statement; the result is the state and the exception that leaves it -/
def exec : Stmt → St → R
  | .req c reset excl roe body, s =>
    match (ops cfg cfg.n).reqEnter false c reset excl roe s with
    | (s, .inr e) => (s.log (.leaves e), some e)
    | (s, .inl f) =>
      let r := execBlock body s
      logLeave ((ops cfg cfg.n).reqExit f r.1 r.2)
  | .ctx body, s =>
    let s := s.log .ctxEnter
    let s := { s with openCtx := s.openCtx + 1 }
    let r := execBlock body s
    let r2 := ctxExit cfg (r.1.log .ctxBody)
    logLeave (r2.1.log .ctxLeave, later r.2 r2.2)
  | .reconf ka roe body, s =>
    let ka0 := s.keepAlive
    let roe0 := s.roeDefault
    let s := { s with keepAlive := ka.getD s.keepAlive, roeDefault := roe.getD s.roeDefault }
    let r := execBlock body s
    let r2 := reconfExit cfg ka0 roe0 ka r.1
    logLeave (r2.1, later r.2 r2.2)
  | .try_ body, s =>
    let r := execBlock body s
    match r.2 with
    | some e => (r.1.log (.caught e), none)
    | none => r
  | .raise, s =>
    let r := s.newExc .body
    (r.1.log (.created r.2), some r.2)
  | .skip, s =>
    let r := s.newExc .skip
    (r.1.log (.created r.2), some r.2)
  | .td c, s =>
    if s.alive c then
      let r := (ops cfg cfg.n).teardown c s
      match r.2 with
      | some e => (r.1.log (.leaves e), some e)
      | none => (r.1.log (.tdRes c true), none)
    else (s.log (.tdRes c false), none)

/-- run a statement list: stops at the first exception -/
def execBlock : Block → St → R
  | .nil, s => (s, none)
  | .cons p rest, s =>
    let r := exec p s
    match r.2 with
    | some e => (r.1, some e)
    | none => execBlock rest r.1
end

end

/-- a case: configuration and program -/
structure Case where
  cfg : Cfg
  ka : Bool
  roe : Bool
  prog : Block

def initSt (ka roe : Bool) : St := { keepAlive := ka, roeDefault := roe }

/-- final state of a case -/
def runSt (cs : Case) : St :=
  let r := execBlock cs.cfg cs.prog (initSt cs.ka cs.roe)
  r.1.log (.fin r.2)

/-- the observation: the event log in chronological order -/
def run (cs : Case) : List Ev := (runSt cs).trace.reverse

mutual
/-- every class mentioned by the program is registered -/
def Stmt.classesBelow (n : Nat) : Stmt → Bool
  | .req c _ _ _ body => decide (c < n) && body.classesBelow n
  | .ctx body => body.classesBelow n
  | .reconf _ _ body => body.classesBelow n
  | .try_ body => body.classesBelow n
  | .raise => true
  | .skip => true
  | .td c => decide (c < n)
def Block.classesBelow (n : Nat) : Block → Bool
  | .nil => true
  | .cons s rest => s.classesBelow n && rest.classesBelow n
end

/-- well-formed case: acyclic dependency graph, only registered classes -/
def Case.wf (cs : Case) : Bool := cs.cfg.wf && cs.prog.classesBelow cs.cfg.n

end Ctx
