import TbotVerif.Model.Shell
/-! File transfer through `tbot.machine.linux.Path` (`tbot/machine/linux/path.py`): `write_text`,
    `write_bytes`, `read_text`, `read_bytes`, together with the part of `LinuxShell.run()` /
    `RunCommandProxy` (`bash.py`, `ash.py`, `util.py`) these callers use — on top of the channel
    model.  The remote is a function of everything typed (`Remote.*`): canonical-mode tty input
    (a line is delivered at LF, `^D` on an empty line buffer is end of file, otherwise it flushes
    the buffer WITHOUT a newline), `tee FILE`, `base64 -d - | tee FILE`, `printf %s WORD >FILE`,
    `cat`, `base64`.  Its answers reach the channel model through `feed` at the moment the real
    remote would send them (after the command line / after `echo $?`), cut into arbitrary pieces. -/

namespace Files
open Chan Shell

def EOT : Byte := 4

/-- UTF-8 of a Python `str` -/
def enc (t : List Char) : Bytes := t.flatMap String.utf8EncodeChar

/-! ### base64: the abstract codec the theorems quantify over, and the concrete one the driver runs -/

structure Codec where
  enc : Bytes → Bytes
  dec : Bytes → Bytes

def b64Alphabet : Bytes := "ABCDEFGHIJKLMNOPQRSTUVWXYZabcdefghijklmnopqrstuvwxyz0123456789+/".toUTF8.toList

def PAD : Byte := 61   -- '='

/-- the 65 symbols of base64 text -/
def isB64 (c : Byte) : Bool := b64Alphabet.contains c || c == PAD

def b64Char (n : Nat) : Byte := b64Alphabet.getD n PAD

/-- index of a symbol in the alphabet -/
def b64Val (c : Byte) : Option Nat :=
  if 65 ≤ c.toNat ∧ c.toNat ≤ 90 then some (c.toNat - 65)
  else if 97 ≤ c.toNat ∧ c.toNat ≤ 122 then some (c.toNat - 71)
  else if 48 ≤ c.toNat ∧ c.toNat ≤ 57 then some (c.toNat + 4)
  else if c.toNat = 43 then some 62
  else if c.toNat = 47 then some 63
  else none

/-- `base64.b64encode` -/
def b64enc : Bytes → Bytes
  | a :: b :: c :: t =>
    let n := a.toNat * 65536 + b.toNat * 256 + c.toNat
    b64Char (n / 262144) :: b64Char (n / 4096 % 64) :: b64Char (n / 64 % 64) :: b64Char (n % 64) :: b64enc t
  | [a, b] =>
    let n := a.toNat * 65536 + b.toNat * 256
    [b64Char (n / 262144), b64Char (n / 4096 % 64), b64Char (n / 64 % 64), PAD]
  | [a] =>
    let n := a.toNat * 65536
    [b64Char (n / 262144), b64Char (n / 4096 % 64), PAD, PAD]
  | [] => []

/-- sextets → bytes (a trailing group of 2 / 3 sextets gives 1 / 2 bytes) -/
def b64Groups : List Nat → Bytes
  | a :: b :: c :: d :: t =>
    let n := a * 262144 + b * 4096 + c * 64 + d
    UInt8.ofNat (n / 65536) :: UInt8.ofNat (n / 256 % 256) :: UInt8.ofNat (n % 256) :: b64Groups t
  | [a, b, c] =>
    let n := a * 262144 + b * 4096 + c * 64
    [UInt8.ofNat (n / 65536), UInt8.ofNat (n / 256 % 256)]
  | [a, b] => [UInt8.ofNat ((a * 262144 + b * 4096) / 65536)]
  | _ => []

/-- non-strict decoding (`base64.b64decode`, `base64 -d` on well-formed input): everything outside
    the alphabet (padding, CR, LF) is skipped -/
def b64dec (x : Bytes) : Bytes := b64Groups (x.filterMap b64Val)

def b64 : Codec := ⟨b64enc, b64dec⟩

/-- `bytes(itertools.islice(it, n))` until exhausted -/
def chunksFuel (n : Nat) : Nat → Bytes → List Bytes
  | 0, _ => []
  | _ + 1, [] => []
  | f + 1, c :: t => (c :: t).take n :: chunksFuel n f ((c :: t).drop n)

def chunksOf (n : Nat) (b : Bytes) : List Bytes := if n = 0 then [] else chunksFuel n b.length b

/-! ### command lines -/

def str (s : String) : Bytes := s.toUTF8.toList

def devNull : Bytes := str "/dev/null"

def lineOf (args : List Quote.Arg) : Bytes := Quote.joinSp (args.filterMap Quote.Arg.render)

def redirOut (p : Bytes) : Quote.Arg := .redir (str Params.spRedirStdoutPre) p (str Params.spRedirStdoutPost)

/-- `printf %s <data> ><path>` -/
def printfLine (path data : Bytes) : Bytes := lineOf [.str (str "printf"), .str (str "%s"), .str data, redirOut path]
/-- `tee <path> >/dev/null` -/
def teeLine (path : Bytes) : Bytes := lineOf [.str (str "tee"), .str path, redirOut devNull]
/-- `base64 -d - | tee <path> >/dev/null` -/
def b64TeeLine (path : Bytes) : Bytes :=
  lineOf [.str (str "base64"), .str (str "-d"), .str (str "-"), .raw (str Params.spPipe), .str (str "tee"), .str path,
          redirOut devNull]
/-- `cat <path>` -/
def catLine (path : Bytes) : Bytes := lineOf [.str (str "cat"), .str path]
/-- `base64 <path>` -/
def b64Line (path : Bytes) : Bytes := lineOf [.str (str "base64"), .str path]

/-- `byte_data[-1:] in [b"\n", b"\r"]` -/
def endsInNl (b : Bytes) : Bool := b.getLast? == some Tty.LF || b.getLast? == some Tty.CR

/-! ### the remote side -/

namespace Remote

/-- a foreground process reading a canonical-mode tty until end of file.  `buf` is the line buffer.
    Result: what its `read` calls returned in total, and the typed bytes left for the next reader;
    `none`: the input ends before end of file (the process keeps waiting).  ICRNL is on. -/
def ttyRead : Bytes → Bytes → Option (Bytes × Bytes)
  | _, [] => none
  | buf, c :: cs =>
    if c == Tty.CR || c == Tty.LF then (ttyRead [] cs).map fun (d, r) => (buf ++ Tty.LF :: d, r)
    else if c == EOT then
      if buf.isEmpty then some ([], cs) else (ttyRead [] cs).map fun (d, r) => (buf ++ d, r)
    else ttyRead (buf ++ [c]) cs

/-- the `^D`s tbot types after the data `e` of a `tee` transfer: two unless `e` is empty or ends
    with a line ending -/
def fin (e : Bytes) : Bytes := (if !(e.isEmpty || endsInNl e) then [EOT] else []) ++ [EOT]

/-- echo of typed bytes (ECHO on, ECHOCTL off): the EOF character is not echoed -/
def echoTyped (typed : Bytes) : Bytes := Tty.echo false (typed.filter (· != EOT))

/-- first line typed (without the Enter key) and what follows it -/
def firstLine (typed : Bytes) : Option (Bytes × Bytes) :=
  if typed.contains Tty.CR then some (typed.takeWhile (· != Tty.CR), (typed.dropWhile (· != Tty.CR)).drop 1) else none

structure Outcome where
  path : Bytes      -- the file the command wrote
  file : Bytes      -- its content afterwards
  ans1 : Bytes      -- what the remote sent up to and including the prompt after the command
  ans2 : Bytes      -- its answer to `echo $?`
  deriving Repr, BEq

/-- `printf %s WORD >TARGET`, read with the hazard-rejecting word reader of `Model/Quote.lean` -/
def printfCmd (line : Bytes) : Option (Bytes × Bytes) :=
  match Quote.firstWord line with
  | some (w1, some r1) =>
    match Quote.firstWord r1 with
    | some (w2, some r2) =>
      match Quote.firstWord r2 with
      | some (data, some r3) =>
        if w1 == str "printf" && w2 == str "%s" && (str Params.spRedirStdoutPre).isPrefixOf r3 then
          match Quote.firstWord (r3.drop (str Params.spRedirStdoutPre).length) with
          | some (path, none) => some (path, data)
          | _ => none
        else none
      | _ => none
    | _ => none
  | _ => none

/-- `tee TARGET >/dev/null` (`pre = []`) or `base64 -d - | tee TARGET >/dev/null` -/
def teeCmd (line : Bytes) : Option (Bool × Bytes) :=
  let tail (r : Bytes) : Option Bytes :=
    match Quote.firstWord r with
    | some (path, some r') => if r' == str Params.spRedirStdoutPre ++ devNull then some path else none
    | _ => none
  let pre := str "base64 -d - " ++ str Params.spPipe ++ str " tee "
  if (str "tee ").isPrefixOf line then (tail (line.drop 4)).map fun p => (false, p)
  else if pre.isPrefixOf line then (tail (line.drop pre.length)).map fun p => (true, p)
  else none

/-- everything typed during one write, seen from the remote: the shell takes the command line,
    the command runs (a `tee` pipeline reads the tty until end of file), the shell prints its
    prompt, takes `echo $?` and answers `0`.  `none`: what was typed is not such a session. -/
def session (cd : Codec) (ps1 typed : Bytes) : Option Outcome :=
  match firstLine typed with
  | none => none
  | some (line, rest) =>
    let status := echoStatusLine ++ [Tty.CR]
    match printfCmd line with
    | some (path, data) =>
      if rest == status then
        some ⟨path, data, Tty.echo false (line ++ [Tty.CR]) ++ ps1, respStatus false ps1 0⟩
      else none
    | none =>
      match teeCmd line with
      | none => none
      | some (viaB64, path) =>
        match ttyRead [] rest with
        | none => none
        | some (got, rest') =>
          if rest' == status then
            let body := rest.take (rest.length - rest'.length)
            some ⟨path, if viaB64 then cd.dec got else got,
                  Tty.echo false (line ++ [Tty.CR]) ++ echoTyped body ++ ps1, respStatus false ps1 0⟩
          else none

/-- what `base64 FILE` prints: 76 symbols per line, every line ended by LF -/
def toolWrap : Nat := 76
def b64Out (cd : Codec) (file : Bytes) : Bytes := (chunksOf toolWrap (cd.enc file)).flatMap (· ++ [Tty.LF])

end Remote

/-! ### the tbot side -/

/-- the remote's next answer arrives, cut into the given pieces -/
def feed (ps : List Bytes) (s : St) : St := { s with script := s.script ++ toScript ps }

/-- what reached the transport -/
def written (s : St) : Bytes := (s.writes.map fun w => w.1.take w.2).flatten

/-- exception tags of the two death strings -/
def excEnded : Nat := 1    -- `CommandEndedException` (the prompt appeared while the command ran)
def excTee : Nat := 2      -- `PathWriteDeathStringException`

def teeMsg : Bytes := str "tee: "

/-- `exec0(line)` against a remote that answers `a1` to the command line and `a2` to `echo $?` -/
def exec0Fed (line : Bytes) (a1 a2 : List Bytes) (s : St) : ShRes (List Char) :=
  match sendline line true none (feed a1 s) with
  | (.error e, s) => (.error (.chan e), s)
  | (.ok _, s) =>
    let (prev, s) := streamEnter 0 false s
    let (r, s) := readUntilPrompt none none s
    let s := streamExit 0 prev s
    match r with
    | .error e => (.error (.chan e), s)
    | .ok (b, _) =>
      match fetchRetcode (feed a2 s) with
      | (.error e, s) => (.error e, s)
      | (.ok rc, s) => if rc = 0 then (.ok (text b), s) else (.error (.commandFailure rc), s)

/-- what the suspended `cmd_context` generator of `run()` holds -/
structure Proxy where
  prev : Bool     -- suppression mode saved by `with_stream`
  did : Nat       -- registration of the prompt death string
  deriving Repr

/-- `LinuxShell.run(...)` up to the `yield` of `cmd_context`: the command line is sent and read
    back, the log stream attached, the prompt registered as death string -/
def runEnter (ps1 line : Bytes) (s : St) : ShRes Proxy :=
  -- `RunCommandProxy.__new__` re-classes the borrowed (deep-copied) channel: `READ_CHUNK_SIZE` is
  -- the class default again, whatever the lender's class said
  let s := { s with chunk := Params.readChunkSize }
  match sendline line true none s with
  | (.error e, s) => (.error (.chan e), s)
  | (.ok _, s) =>
    let (prev, s) := streamEnter 0 false s
    let (did, s) := deathEnter (.lit ps1) excEnded s
    (.ok ⟨prev, did⟩, s)

/-- an exception of the `with` body thrown into the generator (`RunCommandProxy._ctx`): the
    generator's `with` blocks unwind, nothing else happens on the channel -/
def runAbort (px : Proxy) (s : St) : St := streamExit 0 px.prev (deathExit px.did s)

/-- `RunCommandProxy.terminate0()` (no early exit: an early exit never reaches it in `path.py`) -/
def terminate0 (px : Proxy) (a2 : List Bytes) (s : St) : ShRes (List Char) :=
  let s := deathExit px.did s
  let (r, s) := readUntilPrompt none none s
  let s := streamExit 0 px.prev s
  match r with
  | .error e => (.error (.chan e), s)
  | .ok (b, _) =>
    match fetchRetcode (feed a2 s) with
    | (.error e, s) => (.error e, s)
    | (.ok rc, s) => if rc = 0 then (.ok (text b), s) else (.error (.commandFailure rc), s)

/-- the test for the `printf` fast path: single-line text without NUL -/
def fastPath (data : Bytes) : Bool := !data.contains Tty.LF && !data.contains Tty.CR && !data.contains 0

/-- `Path.write_text(data)`; `t` is the Python string -/
def writeText (ps1 path : Bytes) (t : List Char) (a1 a2 : List Bytes) (s : St) : ShRes Nat :=
  let data := enc t
  if fastPath data then
    -- fast path: `exec0("printf", "%s", data, RedirStdout(self))`, returns `len(data)` (characters)
    match exec0Fed (printfLine path data) a1 a2 s with
    | (.error e, s) => (.error e, s)
    | (.ok _, s) => (.ok t.length, s)
  else
    match runEnter ps1 (teeLine path) (feed a1 s) with
    | (.error e, s) => (.error e, s)
    | (.ok px, s) =>
      match send data true none false s with
      | (.error e, s) => (.error (.chan e), runAbort px s)
      | (.ok _, s) =>
        -- `^D` twice if the data does not end with a line ending
        let s := if !(data.isEmpty || endsInNl data) then (sendcontrol 4 s).2 else s
        let s := (sendcontrol 4 s).2
        match terminate0 px a2 s with
        | (.error e, s) => (.error e, s)
        | (.ok _, s) => (.ok data.length, s)

/-- the `while True: chunk = islice(...); ch.sendline(chunk, read_back=True)` loop -/
def sendLines : List Bytes → St → Res Unit
  | [], s => (.ok (), s)
  | l :: ls, s =>
    match sendline l true none s with
    | (.error e, s) => (.error e, s)
    | (.ok _, s) => sendLines ls s

/-- `Path.write_bytes(data)` -/
def writeBytes (cd : Codec) (ps1 path data : Bytes) (a1 a2 : List Bytes) (s : St) : ShRes Nat :=
  match runEnter ps1 (b64TeeLine path) (feed a1 s) with
  | (.error e, s) => (.error e, s)
  | (.ok px, s) =>
    let (tid, s) := deathEnter (.lit teeMsg) excTee s
    let (r, s) := sendLines (chunksOf Params.b64LineLen (cd.enc data)) s
    let s := deathExit tid s
    let go (s : St) : ShRes Nat :=
      let s := (sendcontrol 4 s).2
      match terminate0 px a2 s with
      | (.error e, s) => (.error e, s)
      | (.ok _, s) => (.ok data.length, s)
    match r with
    | .ok _ => go s
    | .error (.death x m) => if x == excTee then go s else (.error (.chan (.death x m)), runAbort px s)
    | .error e => (.error (.chan e), runAbort px s)

/-- `Path.read_text()` -/
def readText (path : Bytes) (a1 a2 : List Bytes) (s : St) : ShRes (List Char) :=
  exec0Fed (catLine path) a1 a2 s

/-- `Path.read_bytes()`: `base64.b64decode(exec0("base64", path))` -/
def readBytes (cd : Codec) (path : Bytes) (a1 a2 : List Bytes) (s : St) : ShRes Bytes :=
  match exec0Fed (b64Line path) a1 a2 s with
  | (.error e, s) => (.error e, s)
  | (.ok out, s) => (.ok (cd.dec (enc out)), s)

end Files
