import TbotVerif.Model.Shell
import TbotVerif.Model.ChanRun
/-! C09 — environment variables and subshells.

    Two halves, composed reactively:

    * the REMOTE: a small model of a POSIX shell behind a canonical-mode tty — a stack of shell
      frames (exported variables, working directory, single-letter options, primary prompt), the
      builtins the drivers use (`export`, `echo` with the per-shell flag "interprets backslash
      escapes", `printf '%s\n'`, `cd`, `pwd`, `set ±x`, `exit`), expansion of exactly the word
      `" ${NAME}"`, a nested shell that pushes a frame, external programs (abstract: prepared
      output and status);
    * the DRIVER: `util.posix_environment`, `Bash.exec`/`exec0`, `util.posix_fetch_return_code`,
      `util.wait_for_shell`, `Bash._init_shell`/`Ash._init_shell`, `Bash.subshell`/`Ash.subshell`
      (tbot/machine/linux/{util,bash,ash}.py) on top of the channel model.

    "Reactively": the remote answers a line when — and only when — the line has been written to
    the transport (`feed`); the answer is appended to the scripted transport, cut into pieces by an
    oracle.  Core Lean only. -/

open Lean in
/-- byte-string literal: `b!"ab"` is `[97, 98] : List UInt8`, expanded at elaboration time (string
    functions do not reduce in the kernel, list literals do) -/
macro:max "b!" s:str : term => do
  let elems : Array (TSyntax `term) :=
    (s.getString.toUTF8.toList.map fun b => (Syntax.mkNumLit (toString b.toNat) : TSyntax `term)).toArray
  `(([$elems,*] : List UInt8))

namespace Env
open Chan Quote

def CR : Byte := 13
def LF : Byte := 10
def EQ : Byte := 61

/-- `str.encode("utf-8")` -/
def enc (s : List Char) : Bytes := s.flatMap String.utf8EncodeChar

/-- `l` without the prefix `p` (`none`: `p` is not a prefix) -/
def stripPrefix : Bytes → Bytes → Option Bytes
  | [], l => some l
  | _ :: _, [] => none
  | p :: ps, c :: cs => if p == c then stripPrefix ps cs else none

/-! ### the remote side -/

/-- one shell process of the nesting -/
structure Frame where
  env : List (Bytes × Bytes)     -- exported variables
  cwd : Bytes
  opts : List Byte               -- single-letter options switched on with `set -x`
  ps1 : Bytes                    -- primary prompt
  deriving Repr, BEq, DecidableEq, Inhabited

structure Remote where
  ash : Bool                     -- dash: `echo` interprets backslash escapes; bash: it does not
  frames : List Frame            -- innermost first; `[]`: the login shell has exited
  last : Nat := 0                -- `$?`
  seen : Option (List Bytes) := none   -- argument vector of the last external program
  deriving Repr, BEq, DecidableEq, Inhabited

def lookup (env : List (Bytes × Bytes)) (name : Bytes) : Option Bytes :=
  (env.find? (·.1 == name)).map (·.2)

def setVar (env : List (Bytes × Bytes)) (name value : Bytes) : List (Bytes × Bytes) :=
  (name, value) :: env.filter (·.1 != name)

def setOpt (opts : List Byte) (c : Byte) (on : Bool) : List Byte :=
  if on then (if opts.contains c then opts else opts ++ [c]) else opts.filter (· != c)

/-- `[A-Za-z0-9_]` -/
def identByte (c : Byte) : Bool :=
  (48 ≤ c && c ≤ 57) || (65 ≤ c && c ≤ 90) || (97 ≤ c && c ≤ 122) || c == 95

/-- a shell variable name: `[A-Za-z_][A-Za-z0-9_]*` -/
def isName (n : Bytes) : Bool :=
  match n with
  | [] => false
  | c :: _ => n.all identByte && !(48 ≤ c && c ≤ 57)

def isOct (c : Byte) : Bool := 48 ≤ c && c ≤ 55

/-- up to `k` octal digits: value so far, rest of the input -/
def octal : Nat → Nat → Bytes → Nat × Bytes
  | 0, v, l => (v, l)
  | _, v, [] => (v, [])
  | k + 1, v, c :: cs => if isOct c then octal k (v * 8 + (c.toNat - 48)) cs else (v, c :: cs)

/-- dash's `echo` (src/bltin/printf.c `conv_escape_str`): `\c` stops all output, `\0` + up to three
    octal digits, `\1`…`\7` + up to two more, `\a \b \e \f \n \r \t \v \\`; any other backslash is
    literal.  Result: bytes printed, "stopped by `\c`". -/
def echoEsc : Nat → Bytes → Bytes × Bool
  | 0, _ => ([], false)
  | _, [] => ([], false)
  | f + 1, 92 :: c :: cs =>
    if c == 99 then ([], true)
    else
      let lit (b : Byte) (rest : Bytes) : Bytes × Bool := let r := echoEsc f rest; (b :: r.1, r.2)
      if c == 92 then lit 92 cs
      else if c == 97 then lit 7 cs
      else if c == 98 then lit 8 cs
      else if c == 101 then lit 27 cs
      else if c == 102 then lit 12 cs
      else if c == 110 then lit 10 cs
      else if c == 114 then lit 13 cs
      else if c == 116 then lit 9 cs
      else if c == 118 then lit 11 cs
      else if c == 48 then
        -- `\0` followed by a digit: the 0 is skipped, up to three digits follow
        let o := match cs with
          | d :: _ => if isOct d then octal 3 0 cs else (0, cs)
          | [] => (0, [])
        lit (UInt8.ofNat o.1) o.2
      else if isOct c then
        let o := octal 3 0 (c :: cs)
        lit (UInt8.ofNat o.1) o.2
      else lit 92 (c :: cs)
  | f + 1, c :: cs => let r := echoEsc f cs; (c :: r.1, r.2)

/-- what `echo args…` prints (no option processing: the first argument of the callers modelled
    here never starts with `-`) -/
def echoOut (ash : Bool) (args : List Bytes) : Bytes :=
  let s := joinSp args
  if ash then
    let r := echoEsc (s.length + 1) s
    if r.2 then r.1 else r.1 ++ [LF]
  else s ++ [LF]

/-- decimal digits (fuel = number of digits at most) -/
def decN : Nat → Nat → Bytes
  | 0, _ => []
  | f + 1, n => if n < 10 then [UInt8.ofNat (48 + n)] else decN f (n / 10) ++ [UInt8.ofNat (48 + n % 10)]

/-- `str(n).encode()` -/
def dec (n : Nat) : Bytes := decN (n + 1) n

/-- the word `" ${NAME}"`: a blank followed by the value of NAME (nothing if unset) -/
def expWord (env : List (Bytes × Bytes)) (l : Bytes) : Option Bytes :=
  match stripPrefix b!"\" ${" l with
  | none => none
  | some t =>
    let name := t.takeWhile identByte
    if isName name && t.drop name.length == b!"}\"" then some (SP :: (lookup env name).getD []) else none

/-- the words of a simple command: quoting as in `Quote.firstWord` (every hazard fails), plus the
    one expansion `" ${NAME}"` as the last word -/
def wordsX (env : List (Bytes × Bytes)) : Nat → Bytes → Option (List Bytes)
  | 0, _ => none
  | f + 1, l =>
    match expWord env l with
    | some w => some [w]
    | none =>
      match firstWord l with
      | none => none
      | some (w, none) => some [w]
      | some (w, some r) => (wordsX env f r).map (w :: ·)

def waitLine : Bytes := b!"echo TBOT\\LOGIN"
def statusLine : Bytes := b!"echo $?"
def optsLine : Bytes := b!"echo $-"
def exitLine : Bytes := b!"exit"
def sanityLine : Bytes := b!"echo TBOT-SANITY-CHECK"
def ps1Prefix : Bytes := b!"PROMPT_COMMAND=''; PS1="
def editLine : Bytes := b!"set +o emacs; set +o vi"
def defaultPs1 : Bytes := b!"$ "

/-- the command `subshell()` spawns -/
def spawnWords (ash : Bool) : List Bytes := if ash then [b!"ash"] else [b!"bash", b!"--norc", b!"--noprofile"]
def spawnLine (ash : Bool) : Bytes := joinSp (spawnWords ash)

def Remote.setLast (r : Remote) (n : Nat) : Remote := { r with last := n }

/-- a simple command (already split into words) on the current frame `f` (outer frames `fs`):
    builtins, variable assignments, a nested shell, external programs (absolute path) -/
def builtin (r : Remote) (f : Frame) (fs : List Frame) (ext : Bytes × Nat) (ws : List Bytes) : Bytes × Remote :=
  let upd (f' : Frame) (st : Nat) : Remote := { r with frames := f' :: fs, last := st }
  match ws with
  | [] => ([], r)
  | cmd :: args =>
    if cmd == b!"export" then
      match args with
      | [a] =>
        let name := a.takeWhile (· != EQ)
        if isName name && a.length > name.length then
          ([], upd { f with env := setVar f.env name (a.drop (name.length + 1)) } 0)
        else (b!"export: bad variable name\n", r.setLast 2)
      | _ => (b!"export: usage\n", r.setLast 2)
    else if cmd == b!"echo" then (echoOut r.ash args, r.setLast 0)
    else if cmd == b!"printf" then
      match args with
      | fmt :: rest =>
        if fmt == b!"%s\\n" then ((if rest.isEmpty then [LF] else rest.flatMap (· ++ [LF])), r.setLast 0)
        else (b!"printf: format not modelled\n", r.setLast 2)
      | [] => (b!"printf: usage\n", r.setLast 2)
    else if cmd == b!"cd" then
      match args with
      | [d] => ([], upd { f with cwd := d } 0)
      | _ => (b!"cd: usage\n", r.setLast 2)
    else if cmd == b!"pwd" then (f.cwd ++ [LF], r.setLast 0)
    else if cmd == b!"set" then
      match args with
      | [[s, c]] =>
        if s == 45 then ([], upd { f with opts := setOpt f.opts c true } 0)
        else if s == 43 then ([], upd { f with opts := setOpt f.opts c false } 0)
        else (b!"set: not modelled\n", r.setLast 2)
      | _ => (b!"set: not modelled\n", r.setLast 2)
    else if cmd == b!"exit" then
      ((if r.ash then [] else b!"exit\n"), { r with frames := fs, last := 0 })
    else if cmd == b!"unset" || cmd == b!"stty" then ([], r.setLast 0)
    else if cmd.head? == some 47 then
      -- an external program (absolute path): abstract, prints `ext.1` and exits with `ext.2`
      (ext.1, { r with last := ext.2 % 256, seen := some (cmd :: args) })
    else if cmd.contains EQ && args.isEmpty then ([], r.setLast 0)   -- `PS2=''`, `histchars=''`
    else if cmd :: args == spawnWords r.ash then
      -- a nested shell: exported variables and working directory are inherited, options and the
      -- prompt are not
      ([], { r with frames := { f with opts := [], ps1 := defaultPs1 } :: f :: fs, last := 0 })
    else (b!"not found\n", r.setLast 127)

/-- the shell reads one complete command (`line` as the foreground process sees it, without the
    final newline) and runs it: what it prints, and the new state.  Lines that are not simple
    commands of quoted words are the fixed ones the drivers send. -/
def step (r : Remote) (ext : Bytes × Nat) (line : Bytes) : Bytes × Remote :=
  match r.frames with
  | [] => ([], r)
  | f :: fs =>
    if line.isEmpty then ([], r)
    else match wordsX f.env (line.length + 1) line with
    | some ws => builtin r f fs ext ws
    | none =>
      if line == waitLine then (b!"TBOTLOGIN\n", r.setLast 0)
      else if line == statusLine then (dec r.last ++ [LF], r.setLast 0)
      else if line == optsLine then (f.opts ++ [LF], r.setLast 0)
      else if line == editLine then ([], r.setLast 0)
      else match stripPrefix ps1Prefix line with
      | some rest =>
        match firstWord rest with
        | some (p, none) => ([], { r with frames := { f with ps1 := p } :: fs, last := 0 })
        | _ => (b!"syntax error\n", r.setLast 2)
      | none => (b!"syntax error\n", r.setLast 2)

/-- everything that comes back for one line typed at the prompt: the tty's echo (incl. the Enter
    key), the command's output through ONLCR, the prompt of the shell that is then in front -/
def respond (r : Remote) (ext : Bytes × Nat) (line : Bytes) : Bytes × Remote :=
  if r.frames.isEmpty then ([], r) else
  let o := step r ext (Tty.input line)
  (Tty.echo false (line ++ [CR]) ++ Tty.cook o.1 ++ (match o.2.frames with | [] => [] | f :: _ => f.ps1), o.2)

/-! ### reactive composition -/

/-- cut a byte stream into pieces of the given sizes (what is left becomes one last piece);
    also returns the unused sizes -/
def cutBy2 : List Nat → Bytes → List Bytes × List Nat
  | ns, [] => ([], ns)
  | [], c :: cs => ([c :: cs], [])
  | n :: ns, c :: cs =>
    if n = 0 then cutBy2 ns (c :: cs)
    else let r := cutBy2 ns ((c :: cs).drop n); ((c :: cs).take n :: r.1, r.2)

/-- channel + remote + fragmentation oracle (`cuts`: piece sizes for the current call, `oracle`:
    one such list per call still to come) -/
structure World where
  ch : St
  rem : Remote
  cuts : List Nat := []
  oracle : List (List Nat) := []
  deriving Repr, Inhabited

/-- the remote sees a line iff `send` lets it through (black-list pre-scan); its answer is
    appended to the scripted transport -/
def feed (line : Bytes) (ext : Bytes × Nat) (w : World) : World :=
  if Chan.forbidden w.ch.blacklist (line ++ [CR]) then w else
  let a := respond w.rem ext line
  let c := cutBy2 w.cuts a.1
  { w with ch := { w.ch with script := w.ch.script ++ Shell.toScript c.1 }, rem := a.2, cuts := c.2 }

/-- `ch.sendline(line, read_back)` against the reactive remote -/
def sendlineR (line : Bytes) (rb : Bool) (ext : Bytes × Nat) (w : World) : Except Exc Unit × World :=
  let w := feed line ext w
  let r := sendline line rb none w.ch
  (r.1, { w with ch := r.2 })

/-- exceptions of the shell layer -/
inductive XExc where
  | chan (e : Exc)                -- channel level (timeout, death string, illegal data …)
  | invalidRetcode                -- `InvalidRetcodeError`
  | commandFailure (status : Nat) -- `CommandFailure`
  | unclean                       -- `UncleanShellError`
  | user                          -- an exception raised by the test itself
  deriving Repr, BEq, Inhabited

abbrev WRes (α : Type) := Except XExc α × World

/-- `util.posix_fetch_return_code` -/
def fetchRetcode (w : World) : WRes Nat :=
  match sendlineR statusLine true ([], 0) w with
  | (.error e, w) => (.error (.chan e), w)
  | (.ok _, w) =>
    match readUntilPrompt none none w.ch with
    | (.error e, ch) => (.error (.chan e), { w with ch := ch })
    | (.ok (b, _), ch) =>
      match Shell.parseInt (text b) with
      | some n => (.ok n, { w with ch := ch })
      | none => (.error .invalidRetcode, { w with ch := ch })

/-- `Bash.exec` / `Ash.exec` for an already escaped command line; stream id 0 is the log event -/
def exec (line : Bytes) (ext : Bytes × Nat) (w : World) : WRes (Nat × List Char) :=
  match sendlineR line true ext w with
  | (.error e, w) => (.error (.chan e), w)
  | (.ok _, w) =>
    let (prev, ch) := streamEnter 0 false w.ch
    let (r, ch) := readUntilPrompt none none ch
    let ch := streamExit 0 prev ch
    let w := { w with ch := ch }
    match r with
    | .error e => (.error (.chan e), w)
    | .ok (b, _) =>
      match fetchRetcode w with
      | (.error e, w) => (.error e, w)
      | (.ok rc, w) => (.ok (rc, text b), w)

/-- `exec0` -/
def exec0 (line : Bytes) (ext : Bytes × Nat) (w : World) : WRes (List Char) :=
  match exec line ext w with
  | (.error e, w) => (.error e, w)
  | (.ok (rc, out), w) => if rc = 0 then (.ok out, w) else (.error (.commandFailure rc), w)

/-- `export NAME=value` as `posix_environment` builds it:
    `exec0("export", Raw(f"{escape(var)}={escape(value)}"))` -/
def exportLine (name value : Bytes) : Bytes :=
  joinSp [shlexQuote b!"export", shlexQuote name ++ EQ :: shlexQuote value]

/-- the name as `posix_environment` puts it between the braces -/
def readName (name : Bytes) : Bytes := if name == b!"!" || name == b!"$" then name else shlexQuote name

/-- the read-back command of `posix_environment`.  `viaPrintf = true` is the tree after the repair
    of F7 (`exec0("printf", "%s\\n", Raw('" ${VAR}"'))`), `false` the original
    `exec0("echo", Raw('" ${VAR}"'))` -/
def readLine (viaPrintf : Bool) (name : Bytes) : Bytes :=
  let word := b!"\" ${" ++ readName name ++ b!"}\""
  if viaPrintf then joinSp [shlexQuote b!"printf", shlexQuote b!"%s\\n", word]
  else joinSp [shlexQuote b!"echo", word]

/-- `posix_environment(mach, var, value)` with a value: returns the value -/
def envSet (name : Bytes) (value : List Char) (w : World) : WRes (List Char) :=
  match exec0 (exportLine name (enc value)) ([], 0) w with
  | (.error e, w) => (.error e, w)
  | (.ok _, w) => (.ok value, w)

/-- `posix_environment(mach, var)`: `exec0(…)[1:-1]` -/
def envGetWith (viaPrintf : Bool) (name : Bytes) (w : World) : WRes (List Char) :=
  match exec0 (readLine viaPrintf name) ([], 0) w with
  | (.error e, w) => (.error e, w)
  | (.ok out, w) => (.ok (out.drop 1).dropLast, w)

/-- the tree as it is (F7 repaired) -/
def envGet (name : Bytes) (w : World) : WRes (List Char) := envGetWith true name w

/-! ### `_init_shell` and `subshell` -/

def chanRes {α} (r : Except Exc α × World) : WRes α :=
  match r with
  | (.error e, w) => (.error (.chan e), w)
  | (.ok a, w) => (.ok a, w)

/-- `util.wait_for_shell`: `echo TBOT\LOGIN` until `TBOTLOGIN` comes back (0.2 s, then 3 s) -/
def waitForShell : Nat → Nat → World → WRes Unit
  | 0, _, w => (.error (.chan .fuel), w)
  | f + 1, t, w =>
    match sendlineR waitLine false ([], 0) w with
    | (.error e, w) => (.error (.chan e), w)
    | (.ok _, w) =>
      match expect [.lit b!"TBOTLOGIN"] (some t) w.ch with
      | (.ok _, ch) => (.ok (), { w with ch := ch })
      | (.error .timeout, ch) => waitForShell f 3072 { w with ch := ch }
      | (.error e, ch) => (.error (.chan e), { w with ch := ch })

/-- `ch.sendline(line); ch.read_until_prompt()` -/
def plainCmd (line : Bytes) (w : World) : WRes Unit :=
  match sendlineR line false ([], 0) w with
  | (.error e, w) => (.error (.chan e), w)
  | (.ok _, w) =>
    match readUntilPrompt none none w.ch with
    | (.error e, ch) => (.error (.chan e), { w with ch := ch })
    | (.ok _, ch) => (.ok (), { w with ch := ch })

def plainCmds : List Bytes → World → WRes Unit
  | [], w => (.ok (), w)
  | l :: ls, w =>
    match plainCmd l w with
    | (.error e, w) => (.error e, w)
    | (.ok _, w) => plainCmds ls w

def prompt (ash : Bool) : Bytes := if ash then Params.ashPrompt else Params.bashPrompt
def blacklist (ash : Bool) : Bytes := if ash then Params.ashBlacklist else Params.bashBlacklist

/-- the PS1 line: the prompt is mangled (`''` after six bytes) so that its echo is not the prompt -/
def ps1Line (p : Bytes) : Bytes := ps1Prefix ++ SQ :: p.take 6 ++ SQ :: SQ :: p.drop 6 ++ [SQ]

/-- the lines `_init_shell` sends after the prompt is set (terminal size as found by
    `shutil.get_terminal_size()`) -/
def initLines (ash : Bool) (cols rows : Nat) : List Bytes :=
  if ash then [b!"unset HISTFILE", b!"stty cols 1024", b!"PS2=''", b!"stty -echoctl"]
  else [b!"unset HISTFILE", editLine, b!"PS2=''", b!"histchars=''",
        b!"stty cols " ++ dec (max 80 (cols - 48)), b!"stty rows " ++ dec rows, b!"stty -echoctl"]

def sanityText : List Char :=
  ['T', 'B', 'O', 'T', '-', 'S', 'A', 'N', 'I', 'T', 'Y', '-', 'C', 'H', 'E', 'C', 'K', '\n']

/-- `util.shell_sanity_check` -/
def sanityCheck (w : World) : WRes Unit :=
  match sendlineR sanityLine true ([], 0) w with
  | (.error e, w) => (.error (.chan e), w)
  | (.ok _, w) =>
    match readUntilPrompt none none w.ch with
    | (.error e, ch) => (.error (.chan e), { w with ch := ch })
    | (.ok (b, _), ch) =>
      if text b == sanityText then (.ok (), { w with ch := ch })
      else (.error .unclean, { w with ch := ch })

/-- `self.ch._write_blacklist = [...]` -/
def setBlacklist (bl : Bytes) (w : World) : World := { w with ch := { w.ch with blacklist := bl } }

/-- `self.ch.prompt = TBOT_PROMPT` -/
def setPrompt (p : Bytes) (w : World) : World := { w with ch := { w.ch with prompt := some (.lit p) } }

/-- `self.ch.read_until_prompt()` -/
def rupW (w : World) : WRes (Bytes × Bytes) :=
  match readUntilPrompt none none w.ch with
  | (.error e, ch) => (.error (.chan e), { w with ch := ch })
  | (.ok b, ch) => (.ok b, { w with ch := ch })

/-- `Bash._init_shell` / `Ash._init_shell` (the part before `yield`) -/
def initShell (ash : Bool) (cols rows : Nat) (w : World) : WRes Unit :=
  match waitForShell 8 204 w with
  | (.error e, w) => (.error e, w)
  | (.ok _, w) =>
    match sendlineR (ps1Line (prompt ash)) false ([], 0) (setBlacklist (blacklist ash) w) with
    | (.error e, w) => (.error (.chan e), w)
    | (.ok _, w) =>
      match rupW (setPrompt (prompt ash) w) with
      | (.error e, w) => (.error e, w)
      | (.ok _, w) =>
        match plainCmds (initLines ash cols rows) w with
        | (.error e, w) => (.error e, w)
        | (.ok _, w) => sanityCheck w

/-- `Bash.subshell()` / `Ash.subshell()` up to the `yield`.  Second component: has the `try` block
    been entered (so that the `finally` will run)? -/
def subEnter (ash : Bool) (cols rows : Nat) (w : World) : WRes Unit × Bool :=
  match sendlineR (spawnLine ash) false ([], 0) w with
  | (.error e, w) => ((.error (.chan e), w), false)
  | (.ok _, w) => (initShell ash cols rows w, true)

/-- the `finally` block of `subshell()`: `sendline("exit"); read_until_prompt()` -/
def subExit (w : World) : WRes Unit := plainCmd exitLine w

/-! ### test programs -/

inductive Op where
  | set (name : Bytes) (value : List Char)    -- `m.env(name, value)`
  | get (name : Bytes)                        -- `m.env(name)`
  | probe (pre : List Bytes) (name : Bytes)   -- helper program records `getenv(name)`
  | cd (dir : Bytes)                          -- `m.exec0("cd", dir)`
  | pwd                                       -- `m.exec0("pwd")`
  | setopt (c : Byte) (on : Bool)             -- `m.exec0("set", "-c")` / `"+c"`
  | getopt                                    -- `m.exec0("echo", Raw("$-"))`
  | echo (arg : List Char)                    -- `m.exec("echo", " " + arg)`
  | run (pre args : List Bytes) (out : Bytes) (status : Nat)   -- `m.exec(helper, *args)`
  deriving Repr, BEq, DecidableEq, Inhabited

/-- a test body: operations in sequence, `raise` (ends the sequence), nested `with m.subshell():`
    blocks; `guarded = true` wraps the block in `try … except Marker: pass` (only the test's own
    exception is caught) -/
inductive Prog where
  | done
  | op (o : Op) (k : Prog)
  | raise
  | sub (guarded : Bool) (body k : Prog)
  deriving Repr, BEq, DecidableEq, Inhabited

inductive Kind where
  | set | get | probe | cd | pwd | setopt | getopt | echo | run | enter | exit | raise
  deriving Repr, BEq, DecidableEq, Inhabited

inductive Val where
  | ok
  | str (s : List Char)
  | opts (letters : List Byte)
  | env (v : Option Bytes)
  | rc (status : Nat) (out : List Char) (argv : Option (List Bytes))
  | err (tag : String)
  deriving Repr, BEq, DecidableEq, Inhabited

structure Obs where
  kind : Kind
  val : Val
  written : Bytes := []          -- what reached the transport during the call
  pieces : List Nat := []        -- sizes of the transport deliveries of the call
  deriving Repr, BEq, Inhabited

structure Case where
  ash : Bool            -- false: Bash driver on bash; true: Ash driver on dash
  chunk : Nat
  cwd : Bytes           -- working directory of the login shell
  prog : Prog
  deriving Repr, Inhabited

def excTag : XExc → String
  | .chan e => Wire.exc e
  | .invalidRetcode => "invalid-retcode"
  | .commandFailure _ => "command-failure"
  | .unclean => "unclean"
  | .user => "user"

/-- the options the checks track (`f` noglob, `C` noclobber) -/
def tracked : List Byte := [102, 67]

def curEnv (r : Remote) : List (Bytes × Bytes) :=
  match r.frames with | [] => [] | f :: _ => f.env

/-- start of a call: next piece-size list of the oracle, fresh transport logs -/
def beginOp (w : World) : World :=
  { w with ch := { w.ch with reads := [], writes := [], fwd := [] },
           cuts := w.oracle.headD [], oracle := w.oracle.drop 1 }

def mkObs (k : Kind) (v : Val) (w : World) : Obs :=
  { kind := k, val := v, written := (w.ch.writes.map fun x => x.1.take x.2).flatten,
    pieces := w.ch.reads.filterMap fun r => r.data.map List.length }

def valOf {α} (f : α → Val) : Except XExc α → Val
  | .ok a => f a
  | .error e => .err (excTag e)

/-- one operation of a test body (the harness records the result or the exception and goes on) -/
def runOp (o : Op) (w : World) : Obs × World :=
  let w := beginOp w
  match o with
  | .set n v => let r := envSet n v w; (mkObs .set (valOf (fun _ => .ok) r.1) r.2, r.2)
  | .get n => let r := envGet n w; (mkObs .get (valOf .str r.1) r.2, r.2)
  | .probe pre n =>
    let r := exec0 (escape pre) ([], 0) w
    (mkObs .probe (valOf (fun _ => .env (lookup (curEnv r.2.rem) n)) r.1) r.2, r.2)
  | .cd d => let r := exec0 (escape [b!"cd", d]) ([], 0) w; (mkObs .cd (valOf (fun _ => .ok) r.1) r.2, r.2)
  | .pwd => let r := exec0 (escape [b!"pwd"]) ([], 0) w; (mkObs .pwd (valOf .str r.1) r.2, r.2)
  | .setopt c on =>
    let r := exec0 (escape [b!"set", [if on then 45 else 43, c]]) ([], 0) w
    (mkObs .setopt (valOf (fun _ => .ok) r.1) r.2, r.2)
  | .getopt =>
    let r := exec0 optsLine ([], 0) w
    (mkObs .getopt (valOf (fun s => .opts (tracked.filter (enc s).contains)) r.1) r.2, r.2)
  | .echo a =>
    let r := exec (escape [b!"echo", SP :: enc a]) ([], 0) w
    (mkObs .echo (valOf (fun x => .rc x.1 x.2 none) r.1) r.2, r.2)
  | .run pre args out st =>
    let r := exec (escape (pre ++ args)) (out, st) w
    (mkObs .run (valOf (fun x => .rc x.1 x.2 ((r.2.rem.seen).map (·.drop pre.length))) r.1) r.2, r.2)

inductive Outcome where
  | normal
  | raised (tag : String)
  deriving Repr, BEq, DecidableEq, Inhabited

/-- run a test body.  `with m.subshell():` — enter, body, and the `finally` (exit) whatever the
    body did; an exception of the body travels on unless the block is a catching one. -/
def runProg (ash : Bool) (cols rows : Nat) : Prog → World → (List Obs × Outcome) × World
  | .done, w => (([], .normal), w)
  | .op o k, w =>
    let (ob, w) := runOp o w
    let ((obs, out), w) := runProg ash cols rows k w
    ((ob :: obs, out), w)
  | .raise, w => (([{ kind := .raise, val := .ok }], .raised "user"), w)
  | .sub c body k, w =>
    let w := beginOp w
    match subEnter ash cols rows w with
    | ((.error e, w), entered) =>
      -- `__enter__` failed: the `finally` runs iff the `try` had been entered
      let w := if entered then (subExit w).2 else w
      (([mkObs .enter (.err (excTag e)) w], .raised (excTag e)), w)
    | ((.ok _, w), _) =>
      let en := mkObs .enter .ok w
      let ((obsB, outB), w) := runProg ash cols rows body w
      let w := beginOp w
      match subExit w with
      | (.error e, w) => ((en :: obsB ++ [mkObs .exit (.err (excTag e)) w], .raised (excTag e)), w)
      | (.ok _, w) =>
        let ex := mkObs .exit .ok w
        match outB with
        | .raised t =>
          if c && t == "user" then
            let ((obsK, outK), w) := runProg ash cols rows k w
            ((en :: obsB ++ ex :: obsK, outK), w)
          else ((en :: obsB ++ [ex], .raised t), w)
        | .normal =>
          let ((obsK, outK), w) := runProg ash cols rows k w
          ((en :: obsB ++ ex :: obsK, outK), w)

/-- the login shell, initialised by `_init_shell` (F2: `stty -echoctl` done), nothing pending -/
def initWorld (c : Case) (oracle : List (List Nat)) : World :=
  { ch := { chunk := c.chunk, prompt := some (.lit (prompt c.ash)), blacklist := blacklist c.ash },
    rem := { ash := c.ash, frames := [{ env := [], cwd := c.cwd, opts := [], ps1 := prompt c.ash }] },
    oracle := oracle }

def run (c : Case) (oracle : List (List Nat)) : List Obs × Outcome :=
  (runProg c.ash 80 24 c.prog (initWorld c oracle)).1

end Env
