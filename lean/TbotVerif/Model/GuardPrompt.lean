import TbotVerif.Base.Re
import TbotVerif.Base.Text
/-! `Channel.read_until_prompt` with a regex prompt that begins with a look-behind assertion
    (`\b`, `^` under MULTILINE, `(?<=[..])`, `(?<![..])`).  The prompt test is
    `pattern.search(buf)` on EVERYTHING received so far with the end-anchored expression; the
    byte before the match takes part in the decision.  The loop is the piece-level loop of
    `Model/Channel.lean` (`rupLoop`) without time and chunking, which `C02.rupLoop_spec` covers
    for every prompt test. -/

namespace GuardPrompt

/-- does `buf` end with the guarded prompt now?  Returns the length of the data before it. -/
def gPromptEnd (g : Re.Guard) (r : Re) (buf : Bytes) : Option Nat :=
  (Re.gsearch g (.seq r .eos) buf).map (·.1)

/-- result of the loop: bytes before the prompt and the number of pieces consumed;
    `none` = the pieces ran out (TimeoutError) -/
def rupG (pe : Bytes → Option Nat) : Bytes → List Bytes → Option (Bytes × Nat)
  | _, [] => none
  | buf, d :: ds =>
    match pe (buf ++ d) with
    | some n => some ((buf ++ d).take n, 1)
    | none => (rupG pe (buf ++ d) ds).map fun p => (p.1, p.2 + 1)

structure Case where
  g : Re.Guard
  r : Re
  pieces : List Bytes
  deriving Repr, Inhabited

inductive Obs where
  | text (out : List Char) (k : Nat)
  | timeout (k : Nat)
  deriving Repr, DecidableEq, Inhabited

def run (c : Case) : Obs :=
  match rupG (gPromptEnd c.g c.r) [] c.pieces with
  | some (b, k) => .text (text b) k
  | none => .timeout c.pieces.length

end GuardPrompt
