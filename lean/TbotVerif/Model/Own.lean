import TbotVerif.Base.Bytes
/-! Channel ownership (`borrow` / `take`): model of the `_c` slot swapping in
    `tbot/machine/channel/channel.py` (`ChannelBorrowed`, `ChannelTaken`, `Channel.borrow`,
    `Channel.take`, `close`, `closed`, `__exit__`) for any number of handles on one transport. -/

namespace Own

/-- what a handle's `_c` refers to -/
inductive Slot where
  | io            -- the real ChannelIO
  | borrowed      -- `ChannelBorrowed()` sentinel
  | taken         -- `ChannelTaken()` sentinel
  deriving Repr, BEq, DecidableEq, Inhabited

/-- the per-handle configuration that `copy.deepcopy` duplicates -/
structure HCfg where
  prompt : Option Bytes := none
  blacklist : Bytes := []
  deaths : List (Bytes × Nat) := []
  slowDelay : Option Nat := none
  slowChunk : Nat := 32
  deriving Repr, DecidableEq, Inhabited

structure Handle where
  slot : Slot
  cfg : HCfg
  deriving Repr, BEq, Inhabited

inductive Op where
  | io (h : Nat)                 -- any I/O call (read/write/send…/fileno)
  | closed (h : Nat)             -- `h.closed`
  | close (h : Nat)              -- `h.close()`
  | exit (h : Nat)               -- `h.__exit__()`
  | borrowEnter (h : Nat)        -- `with h.borrow() as new:`
  | borrowExit                   -- leave the innermost open borrow (normally or by exception)
  | take (h : Nat)
  | setPrompt (h : Nat) (p : Option Bytes)
  | setBlacklist (h : Nat) (b : Bytes)
  | addDeath (h : Nat) (s : Bytes) (e : Nat)
  | setSlow (h : Nat) (d : Option Nat) (c : Nat)
  | getCfg (h : Nat)
  deriving Repr, BEq, Inhabited

inductive Res where
  | ok
  | errBorrowed
  | errTaken
  | bool (b : Bool)
  | new (h : Nat)               -- id of the handle created
  | cfg (c : HCfg)
  | badop
  deriving Repr, DecidableEq, Inhabited

structure St where
  handles : List Handle := [{ slot := .io, cfg := {} }]
  frames : List (Nat × Slot) := []       -- open borrows: (lender, saved `chan_io`)
  ioClosed : Bool := false
  closeCalls : Nat := 0
  deriving Repr, Inhabited

def setSlot (hs : List Handle) (h : Nat) (s : Slot) : List Handle :=
  match hs[h]? with
  | some x => hs.set h { x with slot := s }
  | none => hs

def setCfg (hs : List Handle) (h : Nat) (f : HCfg → HCfg) : List Handle :=
  match hs[h]? with
  | some x => hs.set h { x with cfg := f x.cfg }
  | none => hs

/-- one call; returns what the caller sees -/
def step (s : St) (op : Op) : Res × St :=
  let get (h : Nat) : Option Handle := s.handles[h]?
  match op with
  | .io h =>
    match get h with
    | none => (.badop, s)
    | some x => (match x.slot with | .io => .ok | .borrowed => .errBorrowed | .taken => .errTaken, s)
  | .closed h =>
    match get h with
    | none => (.badop, s)
    | some x => (match x.slot with | .io => .bool s.ioClosed | .borrowed => .errBorrowed | .taken => .bool true, s)
  | .close h =>
    match get h with
    | none => (.badop, s)
    | some x =>
      match x.slot with
      | .io => (.ok, { s with ioClosed := true, closeCalls := s.closeCalls + 1 })
      | .borrowed => (.errBorrowed, s)
      | .taken => (.ok, s)
  | .exit h =>
    -- `if not self.closed: self.close()`
    match get h with
    | none => (.badop, s)
    | some x =>
      match x.slot with
      | .io => if s.ioClosed then (.ok, s) else (.ok, { s with ioClosed := true, closeCalls := s.closeCalls + 1 })
      | .borrowed => (.errBorrowed, s)
      | .taken => (.ok, s)
  | .borrowEnter h =>
    match get h with
    | none => (.badop, s)
    | some x =>
      match x.slot with
      | .borrowed => (.errBorrowed, s)
      | .taken => (.errTaken, s)
      | .io =>
        let hs := setSlot s.handles h .borrowed
        (.new hs.length, { s with handles := hs ++ [{ slot := .io, cfg := x.cfg }], frames := (h, .io) :: s.frames })
  | .borrowExit =>
    match s.frames with
    | [] => (.badop, s)
    | (h, saved) :: fs => (.ok, { s with handles := setSlot s.handles h saved, frames := fs })
  | .take h =>
    match get h with
    | none => (.badop, s)
    | some x =>
      match x.slot with
      | .borrowed => (.errBorrowed, s)
      | .taken => (.errTaken, s)
      | .io =>
        let hs := setSlot s.handles h .taken
        (.new hs.length, { s with handles := hs ++ [{ slot := .io, cfg := x.cfg }] })
  | .setPrompt h p => if h < s.handles.length then (.ok, { s with handles := setCfg s.handles h fun c => { c with prompt := p } }) else (.badop, s)
  | .setBlacklist h b => if h < s.handles.length then (.ok, { s with handles := setCfg s.handles h fun c => { c with blacklist := b } }) else (.badop, s)
  | .addDeath h d e => if h < s.handles.length then (.ok, { s with handles := setCfg s.handles h fun c => { c with deaths := (d, e) :: c.deaths } }) else (.badop, s)
  | .setSlow h d k => if h < s.handles.length then (.ok, { s with handles := setCfg s.handles h fun c => { c with slowDelay := d, slowChunk := k } }) else (.badop, s)
  | .getCfg h =>
    match get h with
    | none => (.badop, s)
    | some x => (.cfg x.cfg, s)

/-- observation of one call: result, and the transport's `closed` flag / close count after it -/
structure Obs where
  res : Res
  ioClosed : Bool
  closeCalls : Nat
  deriving Repr, BEq, Inhabited

def run : St → List Op → List Obs
  | _, [] => []
  | s, op :: ops =>
    let (r, s') := step s op
    { res := r, ioClosed := s'.ioClosed, closeCalls := s'.closeCalls } :: run s' ops

end Own
