import TbotVerif.Model.Channel
/-! Operation sequences on a channel, their wire format and the observation record
    (`OpObs`) that both the model and the harness produce for every operation. -/

inductive Op where
  | setPrompt (p : Option Bytes)                 -- `ch.prompt = b"…"` / `None`
  | promptEnter (p : Pat) | promptExit           -- `with ch.with_prompt(p):`
  | setBlacklist (b : Bytes)
  | setSlow (d : Option Nat) (c : Nat)
  | read (n : Option Nat) (t : Option Nat)
  | readIter (max : Option Nat) (t : Option Nat) (k : Option Nat)  -- take ≤ k chunks, then drop the iterator
  | readline (e : Bytes) (t : Option Nat)
  | expect (ps : List Pat) (t : Option Nat)
  | rup (p : Option Pat) (t : Option Nat)
  | rut (t : Option Nat)
  | write (b : Bytes) (ign : Bool)
  | send (b : Bytes) (rb : Bool) (t : Option Nat) (ign : Bool)
  | sendline (b : Bytes) (rb : Bool) (t : Option Nat)
  | sendcontrol (n : Nat)
  | streamEnter (id : Nat) (showPrompt : Bool) | streamExit
  | streamExitAt (k : Nat)                       -- leave the `with_stream` block of stream `k`, wherever it is
  | deathEnter (p : Pat) (exc : Nat) | deathExit | deathAdd (p : Pat) (exc : Nat)
  | sleep (n : Nat)
  deriving Repr, BEq, Inhabited

/-- result of one operation as the caller sees it -/
inductive OpRes where
  | unit
  | bytes (b : Bytes)
  | chunks (cs : List Bytes) (e : Option Exc)
  | text (t : List Char)
  | expect (idx : Nat) (before : List Char) (m : Bytes) (after : List Char)
  | err (e : Exc)
  | badop                                         -- exit without matching enter
  deriving Repr, BEq, Inhabited

/-- everything observable about one operation -/
structure OpObs where
  res : OpRes
  t0 : Nat
  t1 : Nat
  reads : List ReadRec
  writes : List (Bytes × Nat)
  fwd : List (Nat × List Char)     -- (stream id, decoded fragment), empty fragments dropped
  deriving Repr, BEq, Inhabited

structure Case where
  chunk : Nat
  slice : Nat
  script : List Piece
  accept : List Nat
  ops : List Op
  deriving Repr, Inhabited

/-- runner state: channel state plus the frames of the open `with` blocks -/
structure RunSt where
  st : St
  prompts : List (Option Pat) := []
  streams : List (Nat × Bool) := []
  deaths : List Nat := []          -- registration ids of the open `with_death_string` frames
  deriving Repr, Inhabited

namespace Chan

def ofUnit : Res Unit → OpRes × St
  | (.ok _, s) => (.unit, s)
  | (.error e, s) => (.err e, s)

/-- run one operation -/
def runOp (op : Op) (r : RunSt) : OpRes × RunSt :=
  let s := r.st
  match op with
  | .setPrompt p => (.unit, { r with st := { s with prompt := p.map .lit } })
  | .promptEnter p =>
    (.unit, { r with st := { s with prompt := some (anchor p) }, prompts := s.prompt :: r.prompts })
  | .promptExit =>
    match r.prompts with
    | [] => (.badop, r)
    | p :: ps => (.unit, { r with st := { s with prompt := p }, prompts := ps })
  | .setBlacklist b => (.unit, { r with st := { s with blacklist := b } })
  | .setSlow d c => (.unit, { r with st := { s with slowDelay := d, slowChunk := c } })
  | .read n t =>
    match read n t s with
    | (.ok b, s) => (.bytes b, { r with st := s })
    | (.error e, s) => (.err e, { r with st := s })
  | .readIter m t k =>
    let ((cs, e), s) := riTake (fuelFor s) k (riStart m t s) s []
    (.chunks cs e, { r with st := s })
  | .readline e t =>
    match readline e t s with
    | (.ok b, s) => (.text (text b), { r with st := s })
    | (.error e, s) => (.err e, { r with st := s })
  | .expect ps t =>
    match expect ps t s with
    | (.ok x, s) =>
      (.expect x.idx (text (x.buf.take x.s)) ((x.buf.drop x.s).take (x.e - x.s)) (text (x.buf.drop x.e)),
       { r with st := s })
    | (.error e, s) => (.err e, { r with st := s })
  | .rup p t =>
    match readUntilPrompt p t s with
    | (.ok (b, _), s) => (.text (text b), { r with st := s })
    | (.error e, s) => (.err e, { r with st := s })
  | .rut t =>
    match readUntilTimeout t s with
    | (.ok b, s) => (.text (text b), { r with st := s })
    | (.error e, s) => (.err e, { r with st := s })
  | .write b ign => let (x, s) := ofUnit (write b ign s); (x, { r with st := s })
  | .send b rb t ign => let (x, s) := ofUnit (send b rb t ign s); (x, { r with st := s })
  | .sendline b rb t => let (x, s) := ofUnit (sendline b rb t s); (x, { r with st := s })
  | .sendcontrol n => let (x, s) := ofUnit (sendcontrol n s); (x, { r with st := s })
  | .streamEnter id sp =>
    let (prev, s) := streamEnter id sp s
    (.unit, { r with st := s, streams := (id, prev) :: r.streams })
  | .streamExit =>
    match r.streams with
    | [] => (.badop, r)
    | (id, prev) :: rest => (.unit, { r with st := streamExit id prev s, streams := rest })
  | .streamExitAt k =>
    -- the `finally` block of the context manager that attached stream `k` runs, although it is not the
    -- innermost one: `self._streams.remove(stream)` takes out THAT stream, and `previous_log_prompt` — captured
    -- when `k` was attached — is written back, whatever has been attached or detached in between
    match r.streams.find? (·.1 == k) with
    | none => (.badop, r)
    | some fr => (.unit, { r with st := streamExit k fr.2 s, streams := r.streams.eraseP (·.1 == k) })
  | .deathEnter p e =>
    let (id, s) := deathEnter p e s
    (.unit, { r with st := s, deaths := id :: r.deaths })
  | .deathExit =>
    match r.deaths with
    | [] => (.badop, r)
    | id :: rest => (.unit, { r with st := deathExit id s, deaths := rest })
  | .deathAdd p e => (.unit, { r with st := (deathEnter p e s).2 })
  | .sleep n => (.unit, { r with st := { s with now := s.now + n } })

def fwdText (l : List (Nat × Bytes)) : List (Nat × List Char) :=
  (l.map fun (i, b) => (i, decodeReplace b)).filter fun x => !x.2.isEmpty

/-- run one operation and cut the logs at its boundaries -/
def obsOp (op : Op) (r : RunSt) : OpObs × RunSt :=
  let s0 := r.st
  let (res, r') := runOp op { r with st := { s0 with reads := [], writes := [], fwd := [] } }
  let s1 := r'.st
  ({ res := res, t0 := s0.now, t1 := s1.now, reads := s1.reads, writes := s1.writes,
     fwd := fwdText s1.fwd }, r')

def runOps : List Op → RunSt → List OpObs × RunSt
  | [], r => ([], r)
  | op :: ops, r =>
    let (o, r) := obsOp op r
    let (os, r) := runOps ops r
    (o :: os, r)

def initSt (c : Case) : RunSt :=
  { st := { chunk := c.chunk, slice := c.slice, script := c.script, accept := c.accept } }

/-- whole-case observation: per-operation records and the unread remainder -/
def run (c : Case) : List OpObs × Bytes :=
  let (os, r) := runOps c.ops (initSt c)
  (os, (r.st.script.map (·.data)).flatten)

end Chan

/-! ## wire format -/
namespace Wire

def optNat (s : String) : Option (Option Nat) :=
  if s == "-" then some none else s.toNat?.map some

def natOpt : Option Nat → String
  | none => "-" | some n => toString n

def bool (s : String) : Option Bool :=
  if s == "1" then some true else if s == "0" then some false else none

def listOf {α} (f : String → Option α) (s : String) : Option (List α) :=
  if s == "." then some [] else (s.splitOn ",").mapM f

def piece (s : String) : Option Piece :=
  match s.splitOn "@" with
  | [t, h] => do
    let t ← t.toNat?
    let h ← Bytes.ofHex h
    if h.isEmpty then none else pure ⟨t, h⟩
  | _ => none

def op (s : String) : Option Op :=
  match s.splitOn ":" with
  | ["prompt", p] => if p == "none" then some (.setPrompt none) else (Bytes.ofHex p).map (Op.setPrompt ∘ some)
  | ["wp+", p] => (Pat.ofWire p).map .promptEnter
  | ["wp-"] => some .promptExit
  | ["wp-!"] => some .promptExit            -- the `with` block is left by an exception
  | ["bl", b] => (Bytes.ofHex b).map .setBlacklist
  | ["slow", d, c] => do pure (.setSlow (← optNat d) (← c.toNat?))
  | ["read", n, t] => do pure (.read (← optNat n) (← optNat t))
  | ["ri", m, t, k] => do pure (.readIter (← optNat m) (← optNat t) (← optNat k))
  | ["rl", e, t] => do pure (.readline (← Bytes.ofHex e) (← optNat t))
  | ["ex", t, ps] => do pure (.expect (← listOf Pat.ofWire ps) (← optNat t))
  | ["rup", p, t] => do
    let p ← if p == "-" then some none else (Pat.ofWire p).map some
    pure (.rup p (← optNat t))
  | ["rut", t] => do pure (.rut (← optNat t))
  | ["wr", b, i] => do pure (.write (← Bytes.ofHex b) (← bool i))
  | ["send", b, rb, t, i] => do pure (.send (← Bytes.ofHex b) (← bool rb) (← optNat t) (← bool i))
  | ["sl", b, rb, t] => do pure (.sendline (← Bytes.ofHex b) (← bool rb) (← optNat t))
  | ["sc", n] => n.toNat?.map .sendcontrol
  | ["st+", id, sp] => do pure (.streamEnter (← id.toNat?) (← bool sp))
  | ["st-"] => some .streamExit
  | ["st-!"] => some .streamExit
  | ["ds+", p, e] => do pure (.deathEnter (← Pat.ofWire p) (← e.toNat?))
  | ["ds-"] => some .deathExit
  | ["ds-!"] => some .deathExit
  | ["ads", p, e] => do pure (.deathAdd (← Pat.ofWire p) (← e.toNat?))
  | ["sleep", n] => n.toNat?.map .sleep
  | [tok] =>
    -- `st-@<k>`: leave the attachment of stream `k` (not necessarily the innermost one)
    if tok.startsWith "st-@" then ((tok.drop 4).toString.toNat?).map .streamExitAt else none
  | _ => none

/-- `<chunk> <slice> <script> <accept> <op>*` -/
def case (toks : List String) : Option Case :=
  match toks with
  | c :: sl :: sc :: ac :: ops => do
    pure { chunk := ← c.toNat?, slice := ← sl.toNat?, script := ← listOf piece sc,
           accept := ← listOf String.toNat? ac, ops := ← ops.mapM op }
  | _ => none

def exc : Exc → String
  | .timeout => "timeout" | .hang => "hang" | .illegal => "illegal"
  | .assertion => "assert" | .fuel => "fuel"
  | .death e m => s!"death/{e}/{Bytes.toHex m}"

def excOf (s : String) : Option Exc :=
  match s.splitOn "/" with
  | ["timeout"] => some .timeout | ["hang"] => some .hang | ["illegal"] => some .illegal
  | ["assert"] => some .assertion | ["fuel"] => some .fuel
  | ["death", e, m] => do pure (.death (← e.toNat?) (← Bytes.ofHex m))
  | _ => none

def sepBy (sep : String) (l : List String) : String :=
  if l.isEmpty then "." else sep.intercalate l

def chars (t : List Char) : String := Bytes.toHex (String.ofList t).toUTF8.toList
def charsOf (s : String) : Option (List Char) := do
  let b ← Bytes.ofHex s
  let str ← String.fromUTF8? (ByteArray.mk b.toArray)
  pure str.toList

def opRes : OpRes → String
  | .unit => "ok"
  | .bytes b => "b:" ++ Bytes.toHex b
  | .chunks cs e => "c:" ++ sepBy "," (cs.map Bytes.toHex) ++ ":" ++ (match e with | none => "-" | some e => exc e)
  | .text t => "t:" ++ chars t
  | .expect i b m a => s!"x:{i}:{chars b}:{Bytes.toHex m}:{chars a}"
  | .err e => "e:" ++ exc e
  | .badop => "badop"

def opResOf (s : String) : Option OpRes :=
  match s.splitOn ":" with
  | ["ok"] => some .unit
  | ["b", b] => (Bytes.ofHex b).map .bytes
  | ["c", cs, e] => do
    let cs ← listOf Bytes.ofHex cs
    let e ← if e == "-" then some none else (excOf e).map some
    pure (.chunks cs e)
  | ["t", t] => (charsOf t).map .text
  | ["x", i, b, m, a] => do pure (.expect (← i.toNat?) (← charsOf b) (← Bytes.ofHex m) (← charsOf a))
  | ["e", e] => (excOf e).map .err
  | ["badop"] => some .badop
  | _ => none

def readRec (r : ReadRec) : String :=
  s!"{r.n}/{natOpt r.timeout}/{r.t0}/{r.t1}/" ++ (match r.data with | none => "!" | some d => Bytes.toHex d)

def readRecOf (s : String) : Option ReadRec :=
  match s.splitOn "/" with
  | [n, t, a, b, d] => do
    let d ← if d == "!" then some none else (Bytes.ofHex d).map some
    pure ⟨← n.toNat?, ← optNat t, ← a.toNat?, ← b.toNat?, d⟩
  | _ => none

def writeRec (w : Bytes × Nat) : String := s!"{Bytes.toHex w.1}/{w.2}"
def writeRecOf (s : String) : Option (Bytes × Nat) :=
  match s.splitOn "/" with
  | [b, n] => do pure (← Bytes.ofHex b, ← n.toNat?)
  | _ => none

def fwdRec (w : Nat × List Char) : String := s!"{w.1}/{chars w.2}"
def fwdRecOf (s : String) : Option (Nat × List Char) :=
  match s.splitOn "/" with
  | [i, b] => do pure (← i.toNat?, ← charsOf b)
  | _ => none

/-- `<res>;<t0>;<t1>;<reads>;<writes>;<fwd>` -/
def opObs (o : OpObs) : String :=
  ";".intercalate [opRes o.res, toString o.t0, toString o.t1, sepBy "," (o.reads.map readRec),
    sepBy "," (o.writes.map writeRec), sepBy "," (o.fwd.map fwdRec)]

def opObsOf (s : String) : Option OpObs :=
  match s.splitOn ";" with
  | [r, a, b, rd, wr, fw] => do
    pure { res := ← opResOf r, t0 := ← a.toNat?, t1 := ← b.toNat?, reads := ← listOf readRecOf rd,
           writes := ← listOf writeRecOf wr, fwd := ← listOf fwdRecOf fw }
  | _ => none

def obs (o : List OpObs × Bytes) : String :=
  " ".intercalate (Bytes.toHex o.2 :: o.1.map opObs)

def obsOf (toks : List String) : Option (List OpObs × Bytes) :=
  match toks with
  | r :: os => do pure (← os.mapM opObsOf, ← Bytes.ofHex r)
  | [] => none

end Wire
