import TbotVerif.Model.Channel
import TbotVerif.Model.Quote
import TbotVerif.Model.Tty
/-! Linux shell drivers (`tbot/machine/linux/bash.py`, `ash.py`, `util.py`) on top of the channel
    model, and the byte stream a POSIX shell behind a canonical-mode tty answers with.  The remote
    side is *not* simulated step by step: `respExec` is the complete answer to one command line,
    and the scripted transport of the channel model delivers it in the pieces a run hands out. -/

namespace Shell
open Chan

inductive ShExc where
  | chan (e : Exc)                -- channel level (timeout, death string, illegal data …)
  | invalidRetcode                -- `InvalidRetcodeError`
  | commandFailure (status : Nat) -- `CommandFailure`
  deriving Repr, BEq, Inhabited

abbrev ShRes (α : Type) := Except ShExc α × St

def statusBytes (n : Nat) : Bytes := (toString n).toUTF8.toList

def echoStatusLine : Bytes := "echo $?".toUTF8.toList

/-- what the remote sends after a command line: echo of the line (incl. the Enter key), the
    program's output through ONLCR, the prompt -/
def respCmd (echoctl : Bool) (ps1 line out : Bytes) : Bytes :=
  Tty.echo echoctl (line ++ [Tty.CR]) ++ Tty.cook out ++ ps1

/-- the answer to `echo $?` -/
def respStatus (echoctl : Bool) (ps1 : Bytes) (status : Nat) : Bytes :=
  respCmd echoctl ps1 echoStatusLine (statusBytes status ++ [Tty.LF])

/-- `int(s)` for the strings a shell prints for `$?`: optional surrounding white space, digits -/
def parseInt (s : List Char) : Option Nat :=
  let isWs (c : Char) : Bool := c == ' ' || c == '\n' || c == '\t' || c == '\r'
  let t := (s.dropWhile isWs).reverse.dropWhile isWs |>.reverse
  if t.isEmpty || !t.all Char.isDigit then none
  else some (t.foldl (fun acc c => acc * 10 + (c.toNat - 48)) 0)

/-- `util.posix_fetch_return_code` -/
def fetchRetcode (s : St) : ShRes Nat :=
  match sendline echoStatusLine true none s with
  | (.error e, s) => (.error (.chan e), s)
  | (.ok _, s) =>
    match readUntilPrompt none none s with
    | (.error e, s) => (.error (.chan e), s)
    | (.ok (b, _), s) =>
      match parseInt (text b) with
      | some n => (.ok n, s)
      | none => (.error .invalidRetcode, s)

/-- `Bash.exec` / `Ash.exec` for an already escaped command line; stream id 0 is the log event -/
def exec (line : Bytes) (s : St) : ShRes (Nat × List Char) :=
  match sendline line true none s with
  | (.error e, s) => (.error (.chan e), s)
  | (.ok _, s) =>
    let (prev, s) := streamEnter 0 false s
    let (r, s) := readUntilPrompt none none s
    let s := streamExit 0 prev s
    match r with
    | .error e => (.error (.chan e), s)
    | .ok (b, _) =>
      match fetchRetcode s with
      | (.error e, s) => (.error e, s)
      | (.ok rc, s) => (.ok (rc, text b), s)

/-- `exec0` -/
def exec0 (line : Bytes) (s : St) : ShRes (List Char) :=
  match exec line s with
  | (.error e, s) => (.error e, s)
  | (.ok (rc, out), s) => if rc = 0 then (.ok out, s) else (.error (.commandFailure rc), s)

/-- `test` -/
def test (line : Bytes) (s : St) : ShRes Bool :=
  match exec line s with
  | (.error e, s) => (.error e, s)
  | (.ok (rc, _), s) => (.ok (rc == 0), s)

/-- cut a byte stream into pieces of the given sizes (what is left becomes one last piece) -/
def cutBy : List Nat → Bytes → List Bytes
  | _, [] => []
  | [], b => [b]
  | n :: ns, b => if n = 0 then cutBy ns b else b.take n :: cutBy ns (b.drop n)

def toScript (ps : List Bytes) : List Piece := ps.map fun d => ⟨0, d⟩

end Shell
