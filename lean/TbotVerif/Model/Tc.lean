import TbotVerif.Generated.Params
/-! # Testcase blocks, decorators and the CLI main loops (C16)

Executable model of `tbot/__init__.py` (`testcase`, `_testcase_block`, `SkipException`, `skip`),
`tbot/decorators.py` (`testcase`, `named_testcase`), `tbot/log_event.py`
(`testcase_begin`, `testcase_end`, `tbot_start`, `tbot_end`, `exception`) and the
`try … except` around the testcase loop of `tbot/newbot.py::main` and `tbot/main.py::main`.

The *program* that is run is a tree of nested testcases (what the harness generates as Python
source): a node runs its children in order, its caller may catch what a child lets escape, then
the node passes / raises `Exception` / raises `SkipException` / raises `KeyboardInterrupt`.
`SystemExit` is outside the domain (DESIGN.md C16 **R**).

Everything a run shows is one sequence of `Item`s: the JSON log events tbot writes, interleaved
with the marks the generated program itself leaves in the same log (what `NESTING` was when a
body started, how a body ended, what the caller of a testcase got back). -/
namespace Tc

/-- The three surface forms: `@tbot.testcase`, `@tbot.named_testcase(name)`,
    `with tbot.testcase(name):`. -/
inductive Form where
  | dec | named | ctx
  deriving DecidableEq, Repr, Inhabited

/-- Exceptions of the domain: an `Exception` subclass (the harness raises `RuntimeError`, `AssertionError`, `ValueError`, a user class),
    `tbot.SkipException` (raised by `tbot.skip`), `KeyboardInterrupt`. -/
inductive Exc where
  | err | skip | kbd
  deriving DecidableEq, Repr, Inhabited

/-- How a block of Python code ended: `none` = ran to its end, `some e` = `e` propagated. -/
abbrev How := Option Exc

/-- What the code around a call of a child testcase does with an exception:
    nothing, `except Exception:`, `except BaseException:`. -/
inductive Catch where
  | no | exc | all
  deriving DecidableEq, Repr, Inhabited

/-- Python's `except` clause matching: `SkipException` and the error classes derive from
    `Exception`, `KeyboardInterrupt` only from `BaseException`. -/
def Catch.catches : Catch → Exc → Bool
  | .no, _ => false
  | .exc, .kbd => false
  | .exc, _ => true
  | .all, _ => true

/-- The name a testcase reports in its events: the function's `__name__` for the decorator, the
    given string for the other two forms.  The harness derives it from form and number. -/
structure Name where
  form : Form
  id : Nat
  deriving DecidableEq, Repr, Inhabited

/-- One testcase of the program: surface form, number, how its *caller* guards the call,
    the testcases its body calls in order, and how the body ends after them
    (`none` = `return <id>` / falls off the `with` block). -/
inductive Node where
  | mk (form : Form) (id : Nat) (guard : Catch) (kids : List Node) (fin : How)
  deriving Repr, Inhabited

def Node.name : Node → Name
  | .mk form id _ _ _ => ⟨form, id⟩

def Node.guard : Node → Catch
  | .mk _ _ g _ _ => g

def Node.form : Node → Form
  | .mk f _ _ _ _ => f

/-- What the caller of a testcase gets: a value (`id` of the callee, the generated functions
    `return <id>`), `None`, nothing (`with` block left normally), or an exception. -/
inductive Ret where
  | val (v : Nat) | none | unit | exc (e : Exc)
  deriving DecidableEq, Repr, Inhabited

/-- One entry of the run's log, in the order written. -/
inductive Item where
  /-- `["tc","begin"]` event, `data.name` -/
  | begin (n : Name)
  /-- `["tc","end"]` event, `data.name`, `data.success`, `data.skipped` -/
  | end_ (n : Name) (success skipped : Bool)
  /-- program mark: the body of `n` started and read `tbot.log.NESTING` -/
  | enter (n : Name) (nest : Int)
  /-- program mark: the body of `n` is over, this is how it ended -/
  | body (n : Name) (how : How)
  /-- program mark: the caller of `n` got this -/
  | ret (n : Name) (r : Ret)
  /-- `["exception"]` event, `data.name` mapped to the domain -/
  | excev (e : Exc)
  /-- `["tbot","end"]` event, `data.success` -/
  | tbotEnd (success : Bool)
  deriving DecidableEq, Repr, Inhabited

/-- Result of running a piece of the program: what was logged, `tbot.log.NESTING` afterwards,
    and the piece's own result. -/
structure Run (α : Type) where
  items : List Item
  nest : Int
  val : α
  deriving Repr

/-! ## tbot -/

/-- `log_event.testcase_begin(name)`: one event, then `log.NESTING += 1`. -/
def testcaseBegin (n : Name) (nest : Int) : Run Unit :=
  ⟨[.begin n], nest + 1, ()⟩

/-- `log_event.testcase_end(name, duration, success=True, skipped=None)`: one event with
    `success=success, skipped=(skipped is not None)`, then `log.NESTING -= 1`. -/
def testcaseEnd (n : Name) (nest : Int) (success : Bool := true) (skipped : Bool := false) : Run Unit :=
  ⟨[.end_ n success skipped], nest - 1, ()⟩

/-- The part of `_testcase_block` after the `yield`, given how the body ended:
    `except SkipException` → end(skipped=…) and `return None` (the generator finishes, so
    `contextlib` swallows the exception); bare `except:` → end(False) and re-raise;
    `else:` → end(True).  The result is what propagates out of the `with` statement. -/
def blockExit (n : Name) (nest : Int) : How → Run How
  | some .skip => let r := testcaseEnd n nest (skipped := true); ⟨r.items, r.nest, none⟩
  | some e => let r := testcaseEnd n nest false; ⟨r.items, r.nest, some e⟩
  | none => let r := testcaseEnd n nest true; ⟨r.items, r.nest, none⟩

/-- What the caller sees.  Decorator forms (`wrapped` in decorators.py):
    `with tbot.testcase(name): return tc(*args, **kwargs)` followed by `return None`, the line
    "only reached when a testcase was skipped".  Context-manager form: control simply continues
    after the `with` statement.  `v` is what the body returned when it ended normally. -/
def callerSees (form : Form) (v : Nat) (bodyHow propagated : How) : Ret :=
  match propagated with
  | some e => .exc e
  | none =>
    match form with
    | .ctx => .unit
    | _ => match bodyHow with
      | none => .val v
      | some _ => .none

/-! ## the program -/

/-- How a body ends: by the exception of a child that got through to it, otherwise its own way. -/
def bodyEnds (fromKids : Option Exc) (fin : How) : How :=
  match fromKids with
  | some e => some e
  | none => fin

/-- What gets past the `try` the generated code puts around a call: an exception the guard's
    `except` clause does not match. -/
def Catch.passes (g : Catch) : Ret → Option Exc
  | .exc e => if g.catches e then none else some e
  | _ => none

mutual
/-- One call of a testcase in any of the three forms: `_testcase_block` around the body.
    The body reads `NESTING`, calls the children, then ends as `fin` says unless a child's
    exception got through. -/
def runNode (nest : Int) : Node → Run Ret
  | .mk form id _ kids fin =>
    let n : Name := ⟨form, id⟩
    let b := testcaseBegin n nest
    let k := runKids b.nest kids
    let how : How := bodyEnds k.val fin
    let x := blockExit n k.nest how
    ⟨b.items ++ [.enter n b.nest] ++ k.items ++ [.body n how] ++ x.items, x.nest,
     callerSees form id how x.val⟩
/-- The calls a body (or the in-process driver function) makes, in order.  Each call is wrapped
    by the generated code in the `try` its guard asks for; what the caller got is marked in the
    log; an exception the guard does not catch ends the sequence. -/
def runKids (nest : Int) : List Node → Run How
  | [] => ⟨[], nest, none⟩
  | k :: ks =>
    let r := runNode nest k
    match k.guard.passes r.val with
    | some e => ⟨r.items ++ [.ret k.name r.val], r.nest, some e⟩
    | none =>
      let r2 := runKids r.nest ks
      ⟨r.items ++ [.ret k.name r.val] ++ r2.items, r2.nest, r2.val⟩
end

/-! ## the command line tools -/

/-- `tbot.log.NESTING` when the command line tools start their testcase loop: the module level
    value (`NESTING = -1` in tbot/log.py) plus the one `log_event.tbot_start()` adds.  Observed on
    every run by harness/tcextract.py (call `tbot_start()` in a fresh interpreter, read `NESTING`). -/
def topNesting : Int := (Params.tcTopNesting : Int)

/-- `for testcase in args.testcase: run_testcase(testcase)` (newbot) /
    `for tc in args.testcase: … func(**params)` (legacy): no guard, no mark; the first exception
    ends the loop. -/
def cliLoop (nest : Int) : List Node → Run How
  | [] => ⟨[], nest, none⟩
  | k :: ks =>
    let r := runNode nest k
    match r.val with
    | .exc e => ⟨r.items, r.nest, some e⟩
    | _ =>
      let r2 := cliLoop r.nest ks
      ⟨r.items ++ r2.items, r2.nest, r2.val⟩

/-- How a process ends. -/
inductive Final where
  /-- in-process level: what left the driver function (`none` = it returned) -/
  | escaped (h : How)
  /-- CLI level: the exit status -/
  | exit (code : Nat)
  deriving DecidableEq, Repr, Inhabited

/-- Everything observed of one run. -/
structure Obs where
  items : List Item
  fin : Final
  /-- `tbot.log.NESTING` when everything is over -/
  nest : Int
  deriving DecidableEq, Repr, Inhabited

/-- `main()` of both tools after `tbot_start()`:
    `try: with tbot.ctx: <loop>` / `except Exception` → `exception` event, `tbot_end(False)`,
    `sys.exit(1)` / `except KeyboardInterrupt` → `exception` event, `tbot_end(False)`,
    `sys.exit(130)` / `else` → `tbot_end(True)` (and the process ends with status 0).
    (`except SystemExit` of newbot is outside the domain.) -/
def cliMain (roots : List Node) : Obs :=
  let r := cliLoop topNesting roots
  match r.val with
  | none => ⟨r.items ++ [.tbotEnd true], .exit 0, r.nest⟩
  | some .kbd => ⟨r.items ++ [.excev .kbd, .tbotEnd false], .exit 130, r.nest⟩
  | some e => ⟨r.items ++ [.excev e, .tbotEnd false], .exit 1, r.nest⟩

/-- Which level a case is run at. -/
inductive Mode where
  /-- in-process: a driver function calls the roots like a body calls its children -/
  | ip
  /-- `/venv/bin/newbot mod.f …` -/
  | newbot
  /-- `/venv/bin/tbot -T dir name …` -/
  | legacy
  deriving DecidableEq, Repr, Inhabited

structure Case where
  mode : Mode
  /-- in-process: `tbot.log.NESTING` is set to this before the run (0 for the CLIs) -/
  nest0 : Nat
  roots : List Node
  deriving Repr, Inhabited

/-- The CLIs can only call function-form testcases, call them unguarded, and start from their
    own `NESTING`. -/
def Case.wellformed (c : Case) : Bool :=
  match c.mode with
  | .ip => true
  | _ => c.nest0 == 0 && c.roots.all (fun k => k.form != .ctx && k.guard == .no)

/-- The nesting level the top-level calls run at. -/
def Case.base (c : Case) : Int :=
  match c.mode with
  | .ip => c.nest0
  | _ => topNesting

/-- The model's observation of a case. -/
def run (c : Case) : Obs :=
  match c.mode with
  | .ip =>
    let r := runKids c.nest0 c.roots
    ⟨r.items, .escaped r.val, r.nest⟩
  | _ => cliMain c.roots

end Tc
