import TbotVerif.Generated.Params
/-! # Model of the ssh / scp command-line construction (cluster `Ssh`, property C20)

Mirrors, function by function,

* `tbot/machine/connector/ssh.py`  — `SSHConnector._connect` and the property defaults,
* `tbot/machine/linux/copy.py`     — `_scp_copy` and the five host-pair branches of `copy`,
* `tbot/machine/linux/auth.py`     — `PrivateKeyAuthenticator.get_key_for_host`,

plus the few pieces of surrounding semantics that decide what they do: `Machine.__eq__`
(two machines are equal iff they are clones of the same original), `isinstance` on the machine
classes of the case, `linux.Path(host, other_path)` / `Path.at_host` (raise `WrongHostError`
for a foreign machine) and attribute look-up with class defaults.

Strings are `List Char` (Python `str`); an argv element is a `str` or a `linux.Path` (which
carries its host).  What a host *executes* is observed as a list of `Event`s.

Core Lean only. -/

namespace Ssh

/-- Python `str` -/
abbrev Str := List Char

/-- `tbot.machine.linux.auth`: the authenticator variants (`keyStr` / `keyPure` / `keyPath`:
`PrivateKeyAuthenticator` holding a `str`, a `pathlib.PurePath`, a `linux.Path` of machine `host`). -/
inductive Auth where
  | none
  | keyStr (s : Str)
  | keyPure (s : Str)
  | keyPath (host : Nat) (s : Str)
  | password (s : Str)
  | undefined
  deriving DecidableEq, Repr

/-- which connector a machine class is built on:
`generic` = some other connector (a lab-host that is neither local nor ssh),
`loc` = `SubprocessConnector`, `ssh` = `SSHConnector`, `paramiko` = `ParamikoConnector`. -/
inductive Kind where
  | generic | loc | ssh | paramiko
  deriving DecidableEq, Repr

/-- The class attributes a user may set on an ssh / paramiko machine class; `none` = not set
anywhere in the class hierarchy, the connector's default applies. -/
structure Cfg where
  user : Option Str := none
  host : Option Str := none
  port : Option Nat := none
  hk : Option Bool := none
  opts : Option (List Str) := none
  auth : Option Auth := none
  mux : Option Bool := none
  deriving DecidableEq, Repr

/-- One machine instance of a case.  `cls` identifies its class, `mro` the classes of the case it
is an instance of (own class first), `orig` the instance it is a clone of (itself if it is an
original), `via` the instance an ssh machine was created from (`SSHConnector.host`),
`user` the `username` of a non-ssh lab-host, `wd` its `workdir`. -/
structure Host where
  kind : Kind
  cls : Nat
  mro : List Nat
  orig : Nat
  via : Option Nat
  user : Str
  wd : Str
  cfg : Cfg
  deriving DecidableEq, Repr

/-- exceptions that can leave `_connect` / `copy` -/
inductive Err where
  | wrongHost | notImplemented | attribute | typeError | value
  deriving DecidableEq, Repr

/-- a machine instance as seen by the recorder: the `idx`-th host of the case, or an instance
obtained from it by `clones` calls of `.clone()` while the operation ran -/
structure HostRef where
  idx : Nat
  clones : Nat := 0
  deriving DecidableEq, Repr

/-- one argv element -/
inductive Arg where
  | s (v : Str)
  | p (host : HostRef) (v : Str)
  deriving DecidableEq, Repr

/-- one recorded command: `chan` = `open_channel(...)`, otherwise `exec0(...)` -/
structure Event where
  host : HostRef
  chan : Bool
  argv : List Arg
  deriving DecidableEq, Repr

/-- raw observation: the exception that left the call (if any) and what was executed -/
structure RawObs where
  err : Option Err
  events : List Event
  deriving DecidableEq, Repr

inductive Op where
  | connect (i : Nat)
  | copy (a : Nat) (pa : Str) (b : Nat) (pb : Str)
  deriving DecidableEq, Repr

structure Case where
  /-- is `paramiko` importable (does `connector.ParamikoConnector` exist)? -/
  pm : Bool
  hosts : List Host
  op : Op
  deriving DecidableEq, Repr

/-! ## literals of the code -/

def lit (s : String) : Str := s.toList
def sO : Arg := .s (lit "-o")
def batchMode : Str := lit "BatchMode=yes"
def noHostKey : Str := lit "StrictHostKeyChecking=no"
def ctlMaster : Str := lit "ControlMaster=auto"
def ctlPersist : Str := lit "ControlPersist=10m"

/-- Python `str(int)` -/
def natStr (n : Nat) : Str := (toString n).toList

/-! ## attribute look-up -/

/-- `Machine.__eq__`: clones of the same original -/
def sameMachine (hs : List Host) (a b : Nat) : Bool :=
  match hs[a]?, hs[b]? with
  | some x, some y => x.orig == y.orig
  | _, _ => false

/-- `isinstance(p1.host, p2.host.__class__) or isinstance(p2.host, p1.host.__class__)` -/
def classRelated (hs : List Host) (a b : Nat) : Bool :=
  match hs[a]?, hs[b]? with
  | some x, some y => x.mro.contains y.cls || y.mro.contains x.cls
  | _, _ => false

def kindOf (hs : List Host) (i : Nat) : Option Kind := (hs[i]?).map (·.kind)

/-- `.username`: `LinuxShell.username` of a lab-host; `SSHConnector.username` defaults to
`self.host.username` (recursively); a paramiko machine of a case always sets it. -/
def userOf (hs : List Host) : Nat → Nat → Str
  | 0, _ => []
  | fuel + 1, i =>
    match hs[i]? with
    | none => []
    | some h =>
      match h.kind with
      | .generic | .loc => h.user
      | .paramiko => h.cfg.user.getD []
      | .ssh =>
        match h.cfg.user with
        | some u => u
        | none =>
          match h.via with
          | some v => userOf hs fuel v
          | none => []

def hostnameOf (h : Host) : Str := h.cfg.host.getD []

/-- `.port` with the defaults of `SSHConnector.port` / `ParamikoConnector.port` -/
def portOf (h : Host) : Nat :=
  match h.kind with
  | .paramiko => h.cfg.port.getD Params.pmDefaultPort
  | _ => h.cfg.port.getD Params.sshDefaultPort

/-- `.ignore_hostkey` -/
def hkOf (h : Host) : Bool :=
  match h.kind with
  | .paramiko => h.cfg.hk.getD Params.pmDefaultIgnoreHostkey
  | _ => h.cfg.hk.getD Params.sshDefaultIgnoreHostkey

/-- `.ssh_config` (`SSHConnector.ssh_config` defaults to `[]`; `copy` uses
`getattr(host, "ssh_config", [])` for the machines that may lack the attribute) -/
def optsOf (h : Host) : List Str := h.cfg.opts.getD []

/-- `.authenticator` (both connectors default to `NoneAuthenticator()`) -/
def authOf (h : Host) : Auth := h.cfg.auth.getD .none

/-- `.use_multiplexing` (`SSHConnector.use_multiplexing` default; `copy` uses
`getattr(host, "use_multiplexing", False)` for machines that lack the attribute) -/
def muxOf (h : Host) : Bool :=
  match h.kind with
  | .paramiko => h.cfg.mux.getD false
  | _ => h.cfg.mux.getD Params.sshDefaultMux

/-! ## pieces of the command lines -/

/-- `[arg for opt in ssh_config for arg in ["-o", opt]]` -/
def optArgs (opts : List Str) : List Arg := opts.flatMap fun o => [sO, .s o]

/-- `["-o", "StrictHostKeyChecking=no"] if ignore_hostkey else []` -/
def hkArgs (hk : Bool) : List Arg := if hk then [sO, .s noHostKey] else []

/-- `PurePosixPath(d) / seg` for `d` in normal form and a plain segment -/
def pjoin (d seg : Str) : Str :=
  if d.getLast? = some '/' then d ++ seg else d ++ '/' :: seg

/-- `host.workdir / ".ssh-multi"` -/
def muxDir (wd : Str) : Str := pjoin wd (lit ".ssh-multi")

/-- `f"ControlPath={multiplexing_dir.at_host(host)}/%C"` -/
def controlPath (wd : Str) : Str := lit "ControlPath=" ++ muxDir wd ++ lit "/%C"

/-- the three multiplexing options, in the order both functions emit them -/
def muxArgs (wd : Str) : List Arg :=
  [sO, .s ctlMaster, sO, .s ctlPersist, sO, .s (controlPath wd)]

/-- the `if use_multiplexing:` block; `some wd`: enabled, sockets below work directory `wd` -/
def muxPart : Option Str → List Arg
  | some wd => muxArgs wd
  | none => []

/-- `PrivateKeyAuthenticator.get_key_for_host(host)` for the machine `exec`
(`Path.at_host` raises `WrongHostError` unless the key's machine equals `exec`).
`none`: the authenticator carries no key. -/
def keyForHost (hs : List Host) (exec : Nat) : Auth → Option (Except Err Str)
  | .keyStr s => some (.ok s)
  | .keyPure s => some (.ok s)
  | .keyPath k s => some (if sameMachine hs k exec then .ok s else .error .wrongHost)
  | _ => none

/-- the `if isinstance(authenticator, ...)` chain at the top of `SSHConnector._connect` -/
def sshHead (hs : List Host) (exec : Nat) (a : Auth) : Except Err (List Arg) :=
  match a with
  | .none => .ok [.s (lit "ssh"), sO, .s batchMode]
  | .password pw => .ok [.s (lit "sshpass"), .s (lit "-p"), .s pw, .s (lit "ssh")]
  | .undefined => .error .value
  | .keyStr _ | .keyPure _ | .keyPath _ _ =>
    match keyForHost hs exec a with
    | some (.ok k) => .ok [.s (lit "ssh"), sO, .s batchMode, .s (lit "-i"), .s k]
    | some (.error e) => .error e
    | none => .error .value

/-- The argv `SSHConnector._connect` passes to `open_channel`, from the values it read. -/
def sshArgv (head : List Arg) (hk : Bool) (mux : Option Str) (port : Nat) (opts : List Str)
    (user host : Str) : List Arg :=
  head ++ hkArgs hk ++ muxPart mux
    ++ [.s (lit "-p"), .s (natStr port)] ++ optArgs opts ++ [.s (user ++ '@' :: host)]

/-- `SSHConnector._connect` of machine `i`: optional `mkdir -p` of the multiplexing directory
on `self.host`, then `open_channel` on a clone of `self.host`. -/
def connect (hs : List Host) (i : Nat) : RawObs :=
  match hs[i]? with
  | none => ⟨some .value, []⟩
  | some m =>
    match m.via with
    | none => ⟨some .attribute, []⟩
    | some v =>
      match hs[v]? with
      | none => ⟨some .attribute, []⟩
      | some jh =>
        match sshHead hs v (authOf m) with
        | .error e => ⟨some e, []⟩
        | .ok head =>
          let mux := muxOf m
          let pre : List Event :=
            if mux then [⟨⟨v, 0⟩, false, [.s (lit "mkdir"), .s (lit "-p"), .p ⟨v, 0⟩ (muxDir jh.wd)]⟩]
            else []
          let argv := sshArgv head (hkOf m) (if mux then some jh.wd else none) (portOf m)
            (optsOf m) (userOf hs hs.length i) (hostnameOf m)
          ⟨none, pre ++ [⟨⟨v, 1⟩, true, argv⟩]⟩

/-- the authenticator chain of `_scp_copy` applied to the command built so far -/
def scpAuth (hs : List Host) (lh : Nat) (cmd : List Arg) (a : Auth) : Except Err (List Arg) :=
  match a with
  | .none => .ok (cmd ++ [sO, .s batchMode])
  | .password pw => .ok ([.s (lit "sshpass"), .s (lit "-p"), .s pw] ++ cmd)
  | .undefined => .error .value
  | .keyStr _ | .keyPure _ | .keyPath _ _ =>
    match keyForHost hs lh a with
    | some (.ok k) => .ok (cmd ++ [sO, .s batchMode, .s (lit "-i"), .s k])
    | some (.error e) => .error e
    | none => .error .value

/-- the part of the scp command line `_scp_copy` builds before looking at the authenticator -/
def scpBase (port : Nat) (hk : Bool) (opts : List Str) (mux : Option Str) : List Arg :=
  [.s (lit "scp"), .s (lit "-P"), .s (natStr port)] ++ hkArgs hk ++ optArgs opts
    ++ muxPart mux

/-- the two operands: `local_path` (a `linux.Path` of the executing host) and
`f"{username}@{hostname}:{remote_path}"` -/
def scpOperands (lh : Nat) (lp : Str) (user host rp : Str) (toRemote : Bool) : List Arg :=
  let l : Arg := .p ⟨lh, 0⟩ lp
  let r : Arg := .s (user ++ '@' :: host ++ ':' :: rp)
  if toRemote then [l, r] else [r, l]

/-- `_scp_copy(local_path=…, remote_path=…, copy_to_remote=…, username=…, …)`:
one `exec0` on `local_path.host`. -/
def scpCopy (hs : List Host) (lh : Nat) (lp : Str) (rp : Str) (toRemote : Bool)
    (user host : Str) (hk : Bool) (port : Nat) (opts : List Str) (auth : Auth) (mux : Bool) : RawObs :=
  match hs[lh]? with
  | none => ⟨some .value, []⟩
  | some l =>
    match scpAuth hs lh (scpBase port hk opts (if mux then some l.wd else none)) auth with
    | .error e => ⟨some e, []⟩
    | .ok cmd => ⟨none, [⟨⟨lh, 0⟩, false, cmd ++ scpOperands lh lp user host rp toRemote⟩]⟩

def isKind (hs : List Host) (i : Nat) (k : Kind) : Bool := kindOf hs i == some k

/-- `isinstance(h, (SSHConnector, ParamikoConnector))` (the tuple holds `ParamikoConnector`
only when it exists; a paramiko machine cannot exist otherwise) -/
def isRemote (hs : List Host) (i : Nat) : Bool := isKind hs i .ssh || isKind hs i .paramiko

def viaOf (hs : List Host) (i : Nat) : Option Nat := (hs[i]?).bind (·.via)

/-- `_scp_copy` called with every connection parameter read from machine `r` -/
def scpFrom (hs : List Host) (r : Nat) (lh : Nat) (lp rp : Str) (toRemote : Bool) : RawObs :=
  match hs[r]? with
  | none => ⟨some .value, []⟩
  | some m =>
    scpCopy hs lh lp rp toRemote (userOf hs hs.length r) (hostnameOf m) (hkOf m) (portOf m)
      (optsOf m) (authOf m) (muxOf m)

/-- `linux.copy(p1, p2)` with `p1 = Path(hosts[a], pa)`, `p2 = Path(hosts[b], pb)`. -/
def copy (hs : List Host) (a : Nat) (pa : Str) (b : Nat) (pb : Str) : RawObs :=
  if (hs[a]?).isNone || (hs[b]?).isNone then ⟨some .value, []⟩
  else if classRelated hs a b then
    -- `p2_w1 = linux.Path(p1.host, p2)` raises unless the two machines are equal
    if sameMachine hs b a then
      ⟨none, [⟨⟨a, 0⟩, false, [.s (lit "cp"), .p ⟨a, 0⟩ pa, .p ⟨a, 0⟩ pb]⟩]⟩
    else ⟨some .wrongHost, []⟩
  else if isKind hs a .ssh && viaOf hs a == some b then
    scpFrom hs a b pb pa false          -- copy from an SSH machine
  else if isKind hs b .ssh && viaOf hs b == some a then
    scpFrom hs b a pa pb true           -- copy to an SSH machine
  else if isKind hs a .loc && isRemote hs b then
    scpFrom hs b a pa pb true           -- copy from local to ssh labhost
  else if isKind hs b .loc && isRemote hs a then
    scpFrom hs a b pb pa false          -- copy to local from ssh labhost
  else ⟨some .notImplemented, []⟩

/-- run the operation of a case -/
def run (c : Case) : RawObs :=
  match c.op with
  | .connect i => connect c.hosts i
  | .copy a pa b pb => copy c.hosts a pa b pb

/-! ## parsing a recorded argv back into a record (`parseSsh` / `parseScp`) -/

/-- What an `ssh` / `scp` command line says, independent of option order: the password handed to
`sshpass`, the program, every `-o` value, every `-i` value, every port value, the operands. -/
structure Parsed where
  pw : Option Str
  prog : Str
  oOpts : List Str
  idents : List Str
  ports : List Str
  operands : List Arg
  deriving DecidableEq, Repr

/-- option/value pairs; `pf` is the port flag of the program (`-p` for ssh, `-P` for scp).
Anything that is not `-o v`, `-i v` or `<pf> v` is not understood. -/
def parsePairs (pf : Str) : List Arg → Option (List Str × List Str × List Str)
  | [] => some ([], [], [])
  | .s f :: .s v :: t =>
    match parsePairs pf t with
    | none => none
    | some (o, i, p) =>
      if f = lit "-o" then some (v :: o, i, p)
      else if f = lit "-i" then some (o, v :: i, p)
      else if f = pf then some (o, i, v :: p)
      else none
  | _ => none

/-- options then exactly `n` operands -/
def parseTail (pw : Option Str) (prog pf : Str) (n : Nat) (rest : List Arg) : Option Parsed :=
  if rest.length < n then none
  else
    match parsePairs pf (rest.take (rest.length - n)) with
    | none => none
    | some (o, i, p) => some ⟨pw, prog, o, i, p, rest.drop (rest.length - n)⟩

/-- a leading `sshpass -p <pw>` -/
def stripPass : List Arg → Option Str × List Arg
  | .s a :: .s b :: .s pw :: rest =>
    if a = lit "sshpass" ∧ b = lit "-p" then (some pw, rest) else (none, .s a :: .s b :: .s pw :: rest)
  | l => (none, l)

/-- `[sshpass -p <pw>] <prog> <pairs> <n operands>` -/
def parseProg (prog pf : Str) (n : Nat) (argv : List Arg) : Option Parsed :=
  match (stripPass argv).2 with
  | .s p :: rest => if p = prog then parseTail (stripPass argv).1 prog pf n rest else none
  | _ => none

/-- `[sshpass -p <pw>] ssh <pairs> <target>` -/
def parseSsh (argv : List Arg) : Option Parsed := parseProg (lit "ssh") (lit "-p") 1 argv

/-- `[sshpass -p <pw>] scp <pairs> <source> <target>` -/
def parseScp (argv : List Arg) : Option Parsed := parseProg (lit "scp") (lit "-P") 2 argv

/-- a recorded command in canonical form -/
inductive Cmd where
  | parsed (p : Parsed)
  | raw (argv : List Arg)
  deriving DecidableEq, Repr

def parseCmd (argv : List Arg) : Cmd :=
  match parseSsh argv with
  | some p => .parsed p
  | none =>
    match parseScp argv with
    | some p => .parsed p
    | none => .raw argv

structure PEvent where
  host : HostRef
  chan : Bool
  cmd : Cmd
  deriving DecidableEq, Repr

/-- the observation the Spec is stated over -/
structure Obs where
  err : Option Err
  events : List PEvent
  deriving DecidableEq, Repr

/-- canonicalise a raw observation (the same function is applied to the model's and to the
implementation's recording) -/
def observe (r : RawObs) : Obs :=
  ⟨r.err, r.events.map fun e => ⟨e.host, e.chan, parseCmd e.argv⟩⟩

end Ssh
