import TbotVerif.Model.ChanRun
import TbotVerif.Model.Ssh
/-! Wire format of the `Ssh` cluster (C20), shared with `harness/sshimpl.py` / `harness/c20.py`.

```
case   := pm/<0|1> <op> <host>*
op     := connect/<i> | copy/<i>/<path>/<j>/<path>
host   := H/<kind>/<sup>/<via>/<user>/<wd>/<hostname>/<port>/<hk>/<opts>/<auth>/<mux>
        | C/<j>        -- hosts[j].clone()
        | A/<j>        -- another instance of the class of hosts[j] (not a clone)
kind   := g | l | s | p                  (generic lab-host, local, ssh, paramiko)
auth   := n | k:<str> | l:<str> | t:<host>:<str> | w:<str> | u
raw obs    := <res> <ref>;<x|c>;<arg>,<arg>…            res := ok | err/<Tag>
canon obs  := <res> <ref>;<x|c>;P:<pw>:<prog>:<-o values, sorted>:<-i values>:<ports>:<operands>
                  | <ref>;<x|c>;R:<args>
arg    := s/<str> | p/<ref>/<str>        ref := <idx>+*     (one `+` per `.clone()`)
```
`<str>` is lower-case hex of the UTF-8 bytes (`-` = empty string); an empty host field = not set
(so that dropping an attribute makes the case line shorter); `_` = None in observations;
`.` = empty list.  A subclass host (`sup` = j) lists its *resolved* attributes: a field may be
unset only if it is unset in host j as well.  Parsing rejects anything else (`bad-op`). -/

namespace Ssh.Wire

def str (s : String) : Option Str := _root_.Wire.charsOf s
def strOut (s : Str) : String := _root_.Wire.chars s

def optOf {α} (f : String → Option α) (s : String) : Option (Option α) :=
  if s == "_" then some none else (f s).map some

/-- an attribute field of a host token: empty = not set -/
def fieldOf {α} (f : String → Option α) (s : String) : Option (Option α) :=
  if s == "" then some none else (f s).map some

def optOut {α} (f : α → String) : Option α → String
  | none => "_"
  | some a => f a

def listOf {α} (f : String → Option α) (s : String) : Option (List α) :=
  if s == "." then some [] else (s.splitOn ",").mapM f

def listOut (l : List String) : String := if l.isEmpty then "." else ",".intercalate l

def kind (s : String) : Option Kind :=
  match s with
  | "g" => some .generic | "l" => some .loc | "s" => some .ssh | "p" => some .paramiko
  | _ => none

def auth (n : Nat) (s : String) : Option Auth :=
  match s.splitOn ":" with
  | ["n"] => some .none
  | ["u"] => some .undefined
  | ["k", x] => (str x).map .keyStr
  | ["l", x] => (str x).map .keyPure
  | ["w", x] => (str x).map .password
  | ["t", k, x] => do
    let k ← k.toNat?
    if k < n then (str x).map (.keyPath k) else none
  | _ => none

/-- a field of a subclass may be unset only if the parent leaves it unset -/
def inheritOk {α} (sub par : Option α) : Bool := sub.isSome || par.isNone

/-- the `i`-th host token, given the hosts before it -/
def host (pm : Bool) (acc : List Host) (tok : String) : Option Host :=
  let i := acc.length
  match tok.splitOn "/" with
  | ["C", j] => do
    let j ← j.toNat?
    acc[j]?
  | ["A", j] => do
    let j ← j.toNat?
    let h ← acc[j]?
    pure { h with orig := i }
  | ["H", k, sup, via, user, wd, chost, port, hk, opts, au, mux] => do
    let k ← kind k
    let sup ← fieldOf String.toNat? sup
    let via ← fieldOf String.toNat? via
    let user ← fieldOf str user
    let wd ← str wd
    let cfg : Cfg := { user := if k == .ssh || k == .paramiko then user else none,
                       host := ← fieldOf str chost, port := ← fieldOf String.toNat? port,
                       hk := ← fieldOf _root_.Wire.bool hk, opts := ← fieldOf (listOf str) opts,
                       auth := ← fieldOf (auth i) au, mux := ← fieldOf _root_.Wire.bool mux }
    let remote := k == .ssh || k == .paramiko
    -- lab-hosts carry a user name and no connection attributes
    if !remote && (user.isNone || cfg != {}) then none
    -- ssh / paramiko machines have a host name; a paramiko machine of a case sets its user name
    else if remote && cfg.host.isNone then none
    else if k == .paramiko && (cfg.user.isNone || !pm) then none
    else if (k == .ssh) != via.isSome then none
    else if via.any (fun v => i ≤ v) then none
    else
      let mro ← match sup with
        | none => some []
        | some j => do
          let p ← acc[j]?
          if p.kind == k && inheritOk cfg.user p.cfg.user && inheritOk cfg.port p.cfg.port
              && inheritOk cfg.hk p.cfg.hk && inheritOk cfg.opts p.cfg.opts
              && inheritOk cfg.auth p.cfg.auth && inheritOk cfg.mux p.cfg.mux
          then some p.mro else none
      pure { kind := k, cls := i, mro := i :: mro, orig := i, via := via,
             user := user.getD [], wd := wd, cfg := cfg }
  | _ => none

def hosts (pm : Bool) : List Host → List String → Option (List Host)
  | acc, [] => some acc
  | acc, t :: ts => do
    let h ← host pm acc t
    hosts pm (acc ++ [h]) ts

def op (n : Nat) (s : String) : Option Op :=
  match s.splitOn "/" with
  | ["connect", i] => do
    let i ← i.toNat?
    if i < n then pure (.connect i) else none
  | ["copy", a, pa, b, pb] => do
    let a ← a.toNat?
    let b ← b.toNat?
    if a < n && b < n then pure (.copy a (← str pa) b (← str pb)) else none
  | _ => none

def case (toks : List String) : Option Case :=
  match toks with
  | p :: o :: hs => do
    let pm ← match p with | "pm/1" => some true | "pm/0" => some false | _ => none
    let hs ← hosts pm [] hs
    let o ← op hs.length o
    -- `connect` is an operation of ssh machines
    match o with
    | .connect i => if isKind hs i .ssh then pure ⟨pm, hs, o⟩ else none
    | _ => pure ⟨pm, hs, o⟩
  | _ => none

/-! observations -/

def errOut : Err → String
  | .wrongHost => "WrongHostError" | .notImplemented => "NotImplementedError"
  | .attribute => "AttributeError" | .typeError => "TypeError" | .value => "ValueError"

def errOf (s : String) : Option Err :=
  match s with
  | "WrongHostError" => some .wrongHost | "NotImplementedError" => some .notImplemented
  | "AttributeError" => some .attribute | "TypeError" => some .typeError | "ValueError" => some .value
  | _ => none

def resOut : Option Err → String
  | none => "ok"
  | some e => "err/" ++ errOut e

def resOf (s : String) : Option (Option Err) :=
  if s == "ok" then some none
  else match s.splitOn "/" with
    | ["err", t] => (errOf t).map some
    | _ => none

def refOut (r : HostRef) : String := toString r.idx ++ String.ofList (List.replicate r.clones '+')

def refOf (s : String) : Option HostRef :=
  let cs := s.toList
  let d := cs.takeWhile (· != '+')
  let p := cs.dropWhile (· != '+')
  if p.all (· == '+') then (String.ofList d).toNat?.map (⟨·, p.length⟩) else none

def argOut : Arg → String
  | .s v => "s/" ++ strOut v
  | .p h v => "p/" ++ refOut h ++ "/" ++ strOut v

def argOf (s : String) : Option Arg :=
  match s.splitOn "/" with
  | ["s", v] => (str v).map .s
  | ["p", h, v] => do pure (.p (← refOf h) (← str v))
  | _ => none

def chanOut (b : Bool) : String := if b then "c" else "x"
def chanOf (s : String) : Option Bool :=
  match s with | "c" => some true | "x" => some false | _ => none

def eventOut (e : Event) : String :=
  refOut e.host ++ ";" ++ chanOut e.chan ++ ";" ++ listOut (e.argv.map argOut)

def eventOf (s : String) : Option Event :=
  match s.splitOn ";" with
  | [h, c, a] => do pure ⟨← refOf h, ← chanOf c, ← listOf argOf a⟩
  | _ => none

def rawOut (o : RawObs) : String := " ".intercalate (resOut o.err :: o.events.map eventOut)

def rawOf (toks : List String) : Option RawObs :=
  match toks with
  | r :: es => do pure ⟨← resOf r, ← es.mapM eventOf⟩
  | _ => none

def sortStrs (l : List String) : List String := l.mergeSort (fun a b => decide (a ≤ b))

def cmdOut : Cmd → String
  | .parsed p =>
    ":".intercalate ["P", optOut strOut p.pw, strOut p.prog, listOut (sortStrs (p.oOpts.map strOut)),
      listOut (p.idents.map strOut), listOut (p.ports.map strOut), listOut (p.operands.map argOut)]
  | .raw a => "R:" ++ listOut (a.map argOut)

def cmdOf (s : String) : Option Cmd :=
  match s.splitOn ":" with
  | ["P", pw, prog, o, i, p, ops] => do
    pure (.parsed ⟨← optOf str pw, ← str prog, ← listOf str o, ← listOf str i, ← listOf str p,
                   ← listOf argOf ops⟩)
  | ["R", a] => (listOf argOf a).map .raw
  | _ => none

def peventOut (e : PEvent) : String :=
  refOut e.host ++ ";" ++ chanOut e.chan ++ ";" ++ cmdOut e.cmd

def peventOf (s : String) : Option PEvent :=
  match s.splitOn ";" with
  | [h, c, a] => do pure ⟨← refOf h, ← chanOf c, ← cmdOf a⟩
  | _ => none

def obsOut (o : Obs) : String := " ".intercalate (resOut o.err :: o.events.map peventOut)

def obsOf (toks : List String) : Option Obs :=
  match toks with
  | r :: es => do pure ⟨← resOf r, ← es.mapM peventOf⟩
  | _ => none

end Ssh.Wire
