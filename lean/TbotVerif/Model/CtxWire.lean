import TbotVerif.Spec.Ctx
/-! Wire format of the `ctx` cluster (shared with harness/ctximpl.py):
    case  `<ka> <roe> <deps> <initFaults> <downFaults> <program tokens…>`,
    observation = blank separated events.  See harness/ctximpl.py for the grammar. -/
namespace Ctx.Wire

def bool (s : String) : Option Bool :=
  if s == "1" then some true else if s == "0" then some false else none

def obool (s : String) : Option (Option Bool) :=
  if s == "-" then some none else (bool s).map some

def listOf {α} (f : String → Option α) (s : String) : Option (List α) :=
  if s == "." then some [] else (s.splitOn ",").mapM f

def dep (s : String) : Option (Nat × Bool) :=
  match s.splitOn ":" with
  | [d, x] => do pure (← d.toNat?, ← bool x)
  | _ => none

/-- parse a block up to the matching `)` (or the end of input at top level);
    `fuel` bounds the recursion by the number of tokens -/
def block : Nat → Bool → List String → Option (Block × List String)
  | 0, _, _ => none
  | _ + 1, top, [] => if top then some (.nil, []) else none
  | n + 1, top, t :: rest =>
    if t == ")" then (if top then none else some (.nil, rest)) else
    let leaf (s : Stmt) : Option (Block × List String) := do
      let (b, r) ← block n top rest
      pure (.cons s b, r)
    let blk (mk : Block → Stmt) : Option (Block × List String) := do
      let (body, r) ← block n false rest
      let (b, r) ← block n top r
      pure (.cons (mk body) b, r)
    match t.splitOn ":" with
    | ["R", c, r, x, o] => do
      let c ← c.toNat?; let r ← bool r; let x ← bool x; let o ← obool o
      blk (.req c r x o)
    | ["C"] => blk .ctx
    | ["K", ka, roe] => do
      let ka ← obool ka; let roe ← obool roe
      blk (.reconf ka roe)
    | ["T"] => blk .try_
    | ["raise"] => leaf .raise
    | ["skip"] => leaf .skip
    | ["td", c] => do leaf (.td (← c.toNat?))
    | _ => none

def case (toks : List String) : Option Case :=
  match toks with
  | ka :: roe :: deps :: fi :: fd :: prog => do
    let deps ← (deps.splitOn "/").mapM (listOf dep)
    let (b, rest) ← block (prog.length + 1) true prog
    if !rest.isEmpty then none else
    let cs : Case := { cfg := { n := deps.length, deps := deps, fi := ← listOf String.toNat? fi,
                                fd := ← listOf String.toNat? fd },
                       ka := ← bool ka, roe := ← bool roe, prog := b }
    if cs.wf then some cs else none
  | _ => none

def kind : Kind → String
  | .ctx => "ctx" | .fi => "fi" | .fd => "fd" | .body => "b" | .skip => "s" | .fuel => "fuel"

def kindOf (s : String) : Option Kind :=
  match s with
  | "ctx" => some .ctx | "fi" => some .fi | "fd" => some .fd | "b" => some .body
  | "s" => some .skip | "fuel" => some .fuel | _ => none

def b01 (b : Bool) : String := if b then "1" else "0"

def ev : Ev → String
  | .init c o => s!"i:{c}:{o}"
  | .down c o => s!"d:{c}:{o}"
  | .yielded false c o => s!"y:{c}:{o}"
  | .yielded true c o => s!"q:{c}:{o}"
  | .released false c => s!"r:{c}"
  | .released true c => s!"u:{c}"
  | .ctxEnter => "C+" | .ctxBody => "Cx" | .ctxLeave => "C-"
  | .tdRes c b => s!"t:{c}:{b01 b}"
  | .created e => s!"x:{kind e.kind}:{e.id}"
  | .leaves e => s!"l:{kind e.kind}:{e.id}"
  | .caught e => s!"c:{kind e.kind}:{e.id}"
  | .fin none => "end:-"
  | .fin (some e) => s!"end:{kind e.kind}:{e.id}"

def obs (o : List Ev) : String := " ".intercalate ((canon o).map ev)

def excOf (k n : String) : Option Exc := do pure ⟨← n.toNat?, ← kindOf k⟩

def evOf (s : String) : Option Ev :=
  match s.splitOn ":" with
  | ["i", c, o] => do pure (.init (← c.toNat?) (← o.toNat?))
  | ["d", c, o] => do pure (.down (← c.toNat?) (← o.toNat?))
  | ["y", c, o] => do pure (.yielded false (← c.toNat?) (← o.toNat?))
  | ["q", c, o] => do pure (.yielded true (← c.toNat?) (← o.toNat?))
  | ["r", c] => do pure (.released false (← c.toNat?))
  | ["u", c] => do pure (.released true (← c.toNat?))
  | ["C+"] => some .ctxEnter | ["Cx"] => some .ctxBody | ["C-"] => some .ctxLeave
  | ["t", c, b] => do pure (.tdRes (← c.toNat?) (← bool b))
  | ["x", k, n] => (excOf k n).map .created
  | ["l", k, n] => (excOf k n).map .leaves
  | ["c", k, n] => (excOf k n).map .caught
  | ["end", "-"] => some (.fin none)
  | ["end", k, n] => (excOf k n).map (.fin ∘ some)
  | _ => none

def obsOf (toks : List String) : Option (List Ev) := toks.mapM evOf

end Ctx.Wire
