/-! C12 — model of CPython 3.12 `pathlib.PurePosixPath` (`PurePath` below) and of tbot's wrapper
    `tbot.machine.linux.path.Path` (`TPath`), plus the machine identity used for the host check
    (`tbot.machine.machine.Machine.__eq__` / `clone`).  Core Lean only.

    Strings are `List Char` (code points), exceptions are `Except Exc`. -/

namespace PathM

abbrev Str := List Char

/-- exception tags (most specific class; `WrongHostError` is a subclass of `ValueError`) -/
inductive Exc where
  | valueError | typeError | indexError | wrongHost
  deriving DecidableEq, Repr, Inhabited

/-- `isinstance(e, ValueError)` -/
def Exc.isValueError : Exc → Bool
  | .valueError => true
  | .wrongHost => true
  | _ => false

/-! ### str helpers (Python `str` methods used by pathlib) -/

/-- `s.startswith('/')` -/
def startsSlash (s : Str) : Bool := s.head? == some '/'

/-- `s.endswith(c)` -/
def endsWithChar (c : Char) (s : Str) : Bool := s.getLast? == some c

/-- `s.split(c)` for a one-character separator: always at least one piece -/
def splitOn (c : Char) : Str → List Str
  | [] => [[]]
  | x :: t =>
    if x = c then [] :: splitOn c t
    else match splitOn c t with
      | h :: r => (x :: h) :: r
      | [] => [[x]]

/-- `c.join(l)` for a one-character separator -/
def joinWith (c : Char) : List Str → Str
  | [] => []
  | [a] => a
  | a :: b :: t => a ++ c :: joinWith c (b :: t)

/-- split at the last `'.'`: `name = pre ++ '.' :: post`, `post` without dot (`str.rfind('.')`) -/
def splitLastDot : Str → Option (Str × Str)
  | [] => none
  | c :: t =>
    match splitLastDot t with
    | some (pre, post) => some (c :: pre, post)
    | none => if c = '.' then some ([], t) else none

/-- `s.lstrip('.')` -/
def lstripDots : Str → Str
  | '.' :: t => lstripDots t
  | s => s

/-! ### posixpath -/

/-- one iteration of the loop in `posixpath.join` -/
def joinStep (path b : Str) : Str :=
  if startsSlash b then b
  else if path.isEmpty || endsWithChar '/' path then path ++ b
  else path ++ '/' :: b

/-- `PurePath._load_parts`: `''` for no raw path, the path itself for one, `posixpath.join(*paths)`
    otherwise — all three are this fold. -/
def joinRaw (paths : List Str) : Str := paths.foldl joinStep []

/-- `posixpath.splitroot` (drive is always empty): `(root, rel)` -/
def splitroot (p : Str) : Str × Str :=
  if p.head? != some '/' then ([], p)                                   -- `p[:1] != sep`
  else if (p.drop 1).head? != some '/' || (p.drop 2).head? == some '/'  -- `p[1:2] != sep or p[2:3] == sep`
  then (['/'], p.drop 1)
  else (['/', '/'], p.drop 2)

/-- `PurePath._parse_path` on the posix flavour: `(root, tail)` -/
def parsePath (path : Str) : Str × List Str :=
  let (root, rel) := splitroot path
  (root, (splitOn '/' rel).filter (fun x => !x.isEmpty && x != ['.']))

/-- `PurePath._format_parsed_parts` (no drive on posix) -/
def formatParts (root : Str) (tail : List Str) : Str := root ++ joinWith '/' tail

/-! ### PurePosixPath objects -/

/-- A `pathlib.PurePosixPath` object: the unnormalised `_raw_paths` plus the cached parse
    (`_root`, `_tail_cached`).  `_from_parsed_parts` sets the cache directly, so it is a field of
    its own and not a function of `raw`. -/
structure PP where
  raw : List Str
  root : Str
  tail : List Str
  deriving DecidableEq, Repr, Inhabited

/-- constructor arguments after type dispatch in `PurePath.__init__` -/
inductive PArg where
  | s (x : Str)        -- a `str`
  | p (x : PP)         -- a `PurePath`: its `_raw_paths` are spliced in
  | bad                -- anything else (an `int`): `TypeError`
  deriving Repr, Inhabited

namespace PP

/-- a path built from raw segments, parsed lazily by `_load_parts` -/
def ofRaw (raw : List Str) : PP :=
  let pr := parsePath (joinRaw raw)
  { raw := raw, root := pr.1, tail := pr.2 }

/-- `PurePath.__init__` argument loop -/
def collectRaw : List PArg → Except Exc (List Str)
  | [] => .ok []
  | .s x :: t => do let r ← collectRaw t; pure (x :: r)
  | .p x :: t => do let r ← collectRaw t; pure (x.raw ++ r)
  | .bad :: _ => .error .typeError

/-- `PurePosixPath(*args)` -/
def new (args : List PArg) : Except Exc PP := do
  let raw ← collectRaw args
  pure (ofRaw raw)

/-- `PurePath._from_parsed_parts` -/
def fromParsed (root : Str) (tail : List Str) : PP :=
  { raw := [formatParts root tail], root := root, tail := tail }

/-- `str(p)` -/
def str (p : PP) : Str :=
  let s := formatParts p.root p.tail
  if s.isEmpty then ['.'] else s

/-- `p.parts` -/
def parts (p : PP) : List Str :=
  if p.root.isEmpty then p.tail else p.root :: p.tail

/-- `p.name` -/
def name (p : PP) : Str := p.tail.getLast?.getD []

/-- suffix of a file name: `i = name.rfind('.')`, `0 < i < len(name) - 1` -/
def suffixOf (name : Str) : Str :=
  match splitLastDot name with
  | some (pre, post) => if !pre.isEmpty && !post.isEmpty then '.' :: post else []
  | none => []

/-- stem of a file name -/
def stemOf (name : Str) : Str :=
  match splitLastDot name with
  | some (pre, post) => if !pre.isEmpty && !post.isEmpty then pre else name
  | none => name

def suffix (p : PP) : Str := suffixOf p.name
def stem (p : PP) : Str := stemOf p.name

/-- `p.suffixes` -/
def suffixes (p : PP) : List Str :=
  let name := p.name
  if endsWithChar '.' name then []
  else ((splitOn '.' (lstripDots name)).drop 1).map (fun s => '.' :: s)

/-- `p.with_name(name)` -/
def withName (p : PP) (name : Str) : Except Exc PP :=
  if p.name.isEmpty then .error .valueError
  else if name.isEmpty || name.contains '/' || name == ['.'] then .error .valueError
  else .ok (fromParsed p.root (p.tail.dropLast ++ [name]))

/-- `p.with_stem(stem)` -/
def withStem (p : PP) (stem : Str) : Except Exc PP := p.withName (stem ++ p.suffix)

/-- `p.with_suffix(suffix)` -/
def withSuffix (p : PP) (suffix : Str) : Except Exc PP :=
  if suffix.contains '/' then .error .valueError
  else if (!suffix.isEmpty && !(suffix.head? == some '.')) || suffix == ['.'] then .error .valueError
  else
    let name := p.name
    if name.isEmpty then .error .valueError
    else
      let old := p.suffix
      let name' := if old.isEmpty then name ++ suffix
                   else name.take (name.length - old.length) ++ suffix
      .ok (fromParsed p.root (p.tail.dropLast ++ [name']))

/-- `p.parent` -/
def parent (p : PP) : PP :=
  if p.tail.isEmpty then p else fromParsed p.root p.tail.dropLast

/-- `len(p.parents)` -/
def parentsLen (p : PP) : Nat := p.tail.length

/-- `p.parents[idx]` (3.12: negative indices are accepted) -/
def parentsGet (p : PP) (idx : Int) : Except Exc PP :=
  let n : Int := p.tail.length
  if idx ≥ n || idx < -n then .error .indexError
  else
    let i := if idx < 0 then idx + n else idx
    .ok (fromParsed p.root (p.tail.take (p.tail.length - i.toNat - 1)))

/-- `collections.abc.Sequence.__iter__`: `self[0]`, `self[1]`, … until `IndexError`
    (`fuel` bounds the loop; `parentsList` passes enough). -/
def seqIter {α : Type} (get : Int → Except Exc α) : Nat → Nat → Except Exc (List α)
  | 0, _ => .ok []
  | fuel + 1, i =>
    match get i with
    | .ok v => do let r ← seqIter get fuel (i + 1); pure (v :: r)
    | .error .indexError => .ok []
    | .error e => .error e

/-- `list(p.parents)` -/
def parentsList (p : PP) : Except Exc (List PP) := seqIter p.parentsGet (p.tail.length + 1) 0

/-- `slice(start, stop).indices(n)` for step `None`: `(lo, hi)` -/
def sliceBounds (n : Nat) (start stop : Option Int) : Nat × Nat :=
  let clamp (v : Int) : Nat :=
    if v < 0 then (if v + n < 0 then 0 else (v + n).toNat) else (if v > n then n else v.toNat)
  ((start.map clamp).getD 0, (stop.map clamp).getD n)

/-- `tuple(self[i] for i in range(lo, hi))` -/
def getRange {α : Type} (get : Int → Except Exc α) (lo : Nat) : Nat → Except Exc (List α)
  | 0 => .ok []
  | k + 1 => do
    let v ← get lo
    let r ← getRange get (lo + 1) k
    pure (v :: r)

/-- `p.parents[start:stop]` -/
def parentsSlice (p : PP) (start stop : Option Int) : Except Exc (List PP) :=
  let (lo, hi) := sliceBounds p.tail.length start stop
  getRange p.parentsGet lo (hi - lo)

/-- `p.is_absolute()` on the posix flavour: some raw path starts with `/` -/
def isAbsolute (p : PP) : Bool := p.raw.any startsSlash

/-- `p == q` (`_str_normcase`; the posix flavour is case sensitive) -/
def eq (p q : PP) : Bool := p.str == q.str

/-- `p.joinpath(*args)` = `with_segments(self, *args)` -/
def joinpath (p : PP) (args : List PArg) : Except Exc PP := new (.p p :: args)

/-- `key / p` = `with_segments(key, self)` (a `TypeError` becomes `NotImplemented` and then a
    `TypeError` again, because `str` and `int` do not implement the operator) -/
def rtruediv (p : PP) (key : PArg) : Except Exc PP := new [key, .p p]

/-- `p.is_relative_to(other)` for an already constructed `other`:
    `other = self.with_segments(other); other == self or other in self.parents` -/
def isRelativeTo1 (p other : PP) : Except Exc Bool := do
  let o := ofRaw other.raw
  if o.eq p then pure true
  else do
    let ps ← p.parentsList
    pure (ps.any (fun v => v.eq o))

/-- `p.is_relative_to(*args)` (no argument: `TypeError`) -/
def isRelativeTo (p : PP) (args : List PArg) : Except Exc Bool :=
  match args with
  | [] => .error .typeError
  | _ => do
    let o ← new args
    p.isRelativeTo1 o

/-- `p.relative_to(*args)` without `walk_up` -/
def relativeTo (p : PP) (args : List PArg) : Except Exc PP :=
  match args with
  | [] => .error .typeError
  | _ => do
    let other ← new args
    let ok ← p.isRelativeTo1 other
    if ok then pure (ofRaw (p.tail.drop other.tail.length))
    else .error .valueError

/-! #### comparison: `_parts_normcase = str(p).split('/')`, compared as lists of `str` -/

def cmpStr : Str → Str → Ordering
  | [], [] => .eq
  | [], _ :: _ => .lt
  | _ :: _, [] => .gt
  | a :: s, b :: t => if a.toNat < b.toNat then .lt else if b.toNat < a.toNat then .gt else cmpStr s t

def cmpParts : List Str → List Str → Ordering
  | [], [] => .eq
  | [], _ :: _ => .lt
  | _ :: _, [] => .gt
  | a :: s, b :: t =>
    match cmpStr a b with
    | .eq => cmpParts s t
    | o => o

def cmp (p q : PP) : Ordering := cmpParts (splitOn '/' p.str) (splitOn '/' q.str)

/-! #### `match`: component-wise glob (`*`, `?`, literals; character classes are outside the model) -/

/-- `fnmatch` of one path component; the fuel is `pat.length + s.length + 1` -/
def globAux : Nat → Str → Str → Bool
  | 0, _, _ => false
  | _ + 1, [], s => s.isEmpty
  | f + 1, '*' :: p, s =>
    globAux f p s || (match s with | [] => false | _ :: t => globAux f ('*' :: p) t)
  | f + 1, '?' :: p, s => (match s with | [] => false | _ :: t => globAux f p t)
  | f + 1, c :: p, s => (match s with | [] => false | d :: t => c == d && globAux f p t)

/-- a pattern component that is exactly `*` is compiled to `.+` (non-empty) -/
def globComp (pat s : Str) : Bool :=
  if pat == ['*'] then !s.isEmpty else globAux (pat.length + s.length + 1) pat s

/-- the `_lines` of a path, as components: `'.'` has the single empty line -/
def lines (p : PP) : List Str := if p.str == ['.'] then [[]] else splitOn '/' p.str

def allMatch : List Str → List Str → Bool
  | [], [] => true
  | a :: s, b :: t => globComp a b && allMatch s t
  | _, _ => false

/-- `p.match(pattern)` for a `str` pattern -/
def «match» (p : PP) (pattern : Str) : Except Exc Bool :=
  let pat := ofRaw [pattern]
  let pl := pat.lines
  let sl := p.lines
  if !pat.root.isEmpty then .ok (allMatch pl sl)
  else if !pat.tail.isEmpty then
    .ok (pl.length ≤ sl.length && allMatch pl (sl.drop (sl.length - pl.length)))
  else .error .valueError

end PP

/-! ### machines: `Machine.__eq__`, `__hash__`, `clone()` -/

/-- A machine object.  `orig` is the `_orig` attribute: the identity of the machine it points to,
    `none` while unset. -/
structure Mach where
  id : Nat
  cls : Nat
  orig : Option Nat
  deriving DecidableEq, Repr, Inhabited

namespace Mach

/-- `self._orig or self` (also what the lazy `if self._orig is None: self._orig = self` in
    `__eq__`/`__hash__` establishes) -/
def origId (m : Mach) : Nat := m.orig.getD m.id

/-- `Connector.clone()`: `new = type(self)(); new._orig = self._orig or self` -/
def clone (m : Mach) (newId : Nat) : Mach := { id := newId, cls := m.cls, orig := some m.origId }

/-- `Machine.__eq__`: `self._orig is other._orig` -/
def eq (a b : Mach) : Bool := a.origId == b.origId

end Mach

/-- how the machines of a case are created: a fresh instance of class `cls`, or `clone()` of an
    earlier one -/
inductive MSpec where
  | fresh (cls : Nat)
  | clone (of : Nat)
  deriving DecidableEq, Repr, Inhabited

/-- create the machines in order; object identity = index -/
def buildMachines : List MSpec → List Mach → List Mach
  | [], acc => acc
  | .fresh c :: t, acc => buildMachines t (acc ++ [{ id := acc.length, cls := c, orig := none }])
  | .clone k :: t, acc => buildMachines t (acc ++ [(acc.getD k default).clone acc.length])

/-! ### tbot Path -/

/-- a `tbot.machine.linux.Path` object -/
structure TP where
  host : Mach
  path : PP
  deriving Repr, Inhabited

/-- constructor / method arguments of the wrapper -/
inductive TArg where
  | s (x : Str)      -- `str`
  | t (x : TP)       -- a tbot `Path`
  | q (x : PP)       -- a `pathlib.PurePosixPath`
  | bad              -- an `int`
  deriving Repr, Inhabited

namespace TP

/-- `Path._prepare_args_list`: unwrap tbot paths, `WrongHostError` for the first one whose host
    is not `self.host` -/
def prepareArgs (host : Mach) : List TArg → Except Exc (List PArg)
  | [] => .ok []
  | .s x :: t => do let r ← prepareArgs host t; pure (.s x :: r)
  | .q x :: t => do let r ← prepareArgs host t; pure (.p x :: r)
  | .bad :: t => do let r ← prepareArgs host t; pure (.bad :: r)
  | .t x :: t =>
    if !(x.host.eq host) then .error .wrongHost
    else do let r ← prepareArgs host t; pure (.p x.path :: r)

/-- `Path(host, *args)` -/
def new (host : Mach) (args : List TArg) : Except Exc TP := do
  let a ← prepareArgs host args
  let p ← PP.new a
  pure { host := host, path := p }

/-- `Path(self._host, <PurePosixPath>)` — how every delegating method wraps its result -/
def wrap (host : Mach) (r : PP) : Except Exc TP := new host [.q r]

/-- `p.at_host(host)` -/
def atHost (p : TP) (host : Mach) : Except Exc Str :=
  if !(p.host.eq host) then .error .wrongHost else .ok p.path.str

def name (p : TP) : Str := p.path.name
def suffix (p : TP) : Str := p.path.suffix
def suffixes (p : TP) : List Str := p.path.suffixes
def stem (p : TP) : Str := p.path.stem
def parts (p : TP) : List Str := p.path.parts
def isAbsolute (p : TP) : Bool := p.path.isAbsolute
def «match» (p : TP) (pat : Str) : Except Exc Bool := p.path.match pat

def withName (p : TP) (n : Str) : Except Exc TP := do
  let r ← p.path.withName n
  wrap p.host r

/-- `with_stem`: `self._path.with_name(stem + self._path.suffix)` -/
def withStem (p : TP) (st : Str) : Except Exc TP := do
  let r ← p.path.withName (st ++ p.path.suffix)
  wrap p.host r

def withSuffix (p : TP) (sfx : Str) : Except Exc TP := do
  let r ← p.path.withSuffix sfx
  wrap p.host r

def relativeTo (p : TP) (args : List TArg) : Except Exc TP := do
  let a ← prepareArgs p.host args
  let r ← p.path.relativeTo a
  wrap p.host r

/-- `is_relative_to` (as repaired by r-path `fix: Path.is_relative_to raises WrongHostError …`;
    before, the `WrongHostError` — a `ValueError` — was swallowed and the answer was `False`):
    host check first, then `self._path.relative_to` with `ValueError` meaning `False` -/
def isRelativeTo (p : TP) (args : List TArg) : Except Exc Bool := do
  let a ← prepareArgs p.host args
  match p.path.relativeTo a with
  | .ok _ => pure true
  | .error e => if e.isValueError then pure false else .error e

def joinpath (p : TP) (args : List TArg) : Except Exc TP := do
  let a ← prepareArgs p.host args
  let r ← p.path.joinpath a
  wrap p.host r

/-- `p / key` -/
def truediv (p : TP) (key : TArg) : Except Exc TP := p.joinpath [key]

/-- `key / p` (as repaired by r-path `fix: Path.__rtruediv__ …`; before: always `TypeError`):
    `Path(self._host, key, self._path)` -/
def rtruediv (p : TP) (key : TArg) : Except Exc TP := new p.host [key, .q p.path]

def parent (p : TP) : Except Exc TP := wrap p.host p.path.parent

/-- `_PathParents` (as repaired by r-path `fix: Path.parents delegates to PurePosixPath.parents`;
    before, length and items were computed from `parts`, anchor included) wraps
    `self._path.parents`.  `__len__`: `len(self._parents)` -/
def parentsLen (p : TP) : Nat := p.path.parentsLen

/-- `_PathParents.__getitem__(int)` -/
def parentsGet (p : TP) (idx : Int) : Except Exc TP := do
  let r ← p.path.parentsGet idx
  wrap p.host r

/-- `list(p.parents)` through `Sequence.__iter__` -/
def parentsList (p : TP) : Except Exc (List TP) :=
  PP.seqIter p.parentsGet (p.path.tail.length + 1) 0

/-- wrap every element of a tuple of pure paths -/
def wrapAll (host : Mach) : List PP → Except Exc (List TP)
  | [] => .ok []
  | r :: t => do let v ← wrap host r; let vs ← wrapAll host t; pure (v :: vs)

/-- `_PathParents.__getitem__(slice)` -/
def parentsSlice (p : TP) (start stop : Option Int) : Except Exc (List TP) := do
  let rs ← p.path.parentsSlice start stop
  wrapAll p.host rs

/-- `p == q` for two tbot paths -/
def eq (p q : TP) : Bool := p.host.eq q.host && p.path.eq q.path

/-- ordering ignores the host -/
def cmp (p q : TP) : Ordering := p.path.cmp q.path

end TP

/-! ### `shlex.quote` and the host-taking entry points outside `path.py` -/

/-- the characters `shlex.quote` leaves alone: ASCII letters, digits and `_ @ % + = : , . / -`
    (`re.ASCII` word characters plus the listed punctuation) -/
def shSafe (c : Char) : Bool :=
  c.isAlphanum || "_@%+=:,./-".toList.contains c

/-- `shlex.quote` -/
def shQuote (s : Str) : Str :=
  if s.isEmpty then ['\'', '\'']
  else if s.all shSafe then s
  else '\'' :: (s.flatMap fun c => if c == '\'' then "'\"'\"'".toList else [c]) ++ ['\'']

/-- the seven redirection tokens of `special.py`: `(token, both)` -/
def redirToken : Nat → Option (Str × Bool)
  | 0 => some (">".toList, false)      -- RedirStdout
  | 1 => some ("2>".toList, false)     -- RedirStderr
  | 2 => some (">".toList, true)       -- RedirBoth
  | 3 => some ("<".toList, false)      -- RedirStdin
  | 4 => some (">>".toList, false)     -- AppendStdout
  | 5 => some ("2>>".toList, false)    -- AppendStderr
  | 6 => some (">>".toList, true)      -- AppendBoth
  | _ => none

namespace TP

/-- `Bash.escape(path)` / `Ash.escape(path)` on machine `m` -/
def escape (p : TP) (m : Mach) : Except Exc Str := do
  let s ← p.atHost m
  pure (shQuote s)

/-- `_Stdio._to_string(h)` -/
def redir (p : TP) (tok : Str) (both : Bool) (m : Mach) : Except Exc Str := do
  let s ← p.atHost m
  pure (tok ++ shQuote s ++ (if both then " 2>&1".toList else []))

/-- `_Background._to_string(h)` -/
def background (out err : Option TP) (m : Mach) : Except Exc Str :=
  match out, err with
  | some o, some e =>
    if o.eq e then do
      let s ← o.atHost m
      pure ("1>".toList ++ shQuote s ++ " 2>&1 &".toList)
    else do
      let s ← o.atHost m
      let t ← e.atHost m
      pure ("1>".toList ++ shQuote s ++ " 2>".toList ++ shQuote t ++ " &".toList)
  | none, some e => do
    let t ← e.atHost m
    pure ("1>/dev/null 2>".toList ++ shQuote t ++ " &".toList)
  | some o, none => do
    let s ← o.atHost m
    pure ("2>/dev/null 1>".toList ++ shQuote s ++ " &".toList)
  | none, none => .ok "1>/dev/null 2>&1 &".toList

/-- `PrivateKeyAuthenticator(path).get_key_for_host(host)` (`none`: the path's own host) -/
def authKey (p : TP) (m : Option Mach) : Except Exc Str :=
  match m with
  | none => p.atHost p.host
  | some h => p.atHost h

end TP

end PathM
