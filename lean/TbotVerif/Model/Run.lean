import TbotVerif.Spec.Shell
import TbotVerif.Model.Own
/-! Interactive commands: `LinuxShell.run()` (`tbot/machine/linux/bash.py`, `ash.py`) and
    `RunCommandProxy` (`tbot/machine/linux/util.py`) on top of the channel model, the ownership
    model and a reactive remote (canonical-mode tty + a scripted foreground process + the shell
    that prints its prompt when the process is gone).

    The remote is *eager*: its complete reaction to a write is computed when the write is made
    and appended to what is pending in the scripted transport; the transport hands the pending
    bytes out in the pieces the real run produced (replayed per operation, like `Shell.runCmd`). -/

namespace Run
open Chan

/-! ### the remote side -/

/-- one step of the interactive command (what `harness/helper/tbvinter.c` executes) -/
inductive PStep where
  | print (b : Bytes)        -- write these bytes to the terminal
  | readLine                 -- read one line from the terminal
  | sleep (ms : Nat)         -- pause (invisible to the eager model)
  | exit (st : Nat)          -- leave with this status
  deriving Repr, BEq, Inhabited

/-- tty + foreground process + parent shell -/
structure Rem where
  steps : List PStep := []            -- what the process still has to do; it is blocked in the head
  status : Option Nat := none         -- exit status once the process is gone
  lb : Bytes := []                    -- canonical-mode line buffer of the tty (typed, not yet delivered)
  pb : Bytes := []                    -- bytes of an unfinished line the process already holds (after a ^D flush)
  lines : List (Option Bytes) := []   -- what the completed `readLine` steps got (`none`: end of file)
  lost : Bytes := []                  -- typed after the process was gone (outside the domain)
  deriving Repr, Inhabited

/-- let the process run until it blocks in a `readLine` or is gone: output (through ONLCR),
    remaining steps, exit status -/
def adv : List PStep → Bytes × List PStep × Option Nat
  | [] => ([], [], some 0)
  | .print b :: rest => let (o, r, st) := adv rest; (Tty.cook b ++ o, r, st)
  | .sleep _ :: rest => adv rest
  | .readLine :: rest => ([], .readLine :: rest, none)
  | .exit st :: _ => ([], [], some st)

/-- the shell prints its prompt as soon as the foreground process is gone -/
def promptIf (ps1 : Bytes) (st : Option Nat) : Bytes := if st.isSome then ps1 else []

/-- the process has been started -/
def start (ps1 : Bytes) (steps : List PStep) : Bytes × Rem :=
  let (o, r, st) := adv steps
  (o ++ promptIf ps1 st, { steps := r, status := st })

/-- the blocked `readLine` completes with `got` -/
def complete (ps1 : Bytes) (got : Option Bytes) (m : Rem) : Bytes × Rem :=
  match m.steps with
  | .readLine :: rest =>
    let (o, r, st) := adv rest
    (o ++ promptIf ps1 st, { m with steps := r, status := st, lb := [], pb := [], lines := m.lines ++ [got] })
  | _ => ([], { m with lb := [], pb := [] })

/-- one byte arrives at the tty while the command is in the foreground (ICANON, ECHO, ISIG,
    ICRNL, ECHOCTL off): what the master side receives in return -/
def key (ps1 : Bytes) (c : Byte) (m : Rem) : Bytes × Rem :=
  if m.status.isSome then (Tty.echo1 false c, { m with lost := m.lost ++ [c] })
  else if c == 3 then
    -- INTR: echoed, input flushed, the process is killed; the shell answers with a new line
    ([3, Tty.CR, Tty.LF] ++ ps1, { m with steps := [], status := some 130, lb := [], pb := [] })
  else if c == 4 then
    -- EOF: not echoed; flushes a partial line, or is "end of file" on an empty buffer
    if !m.lb.isEmpty then ([], { m with pb := m.pb ++ m.lb, lb := [] })
    else if !m.pb.isEmpty then complete ps1 (some m.pb) m
    else complete ps1 none m
  else if c == Tty.CR || c == Tty.LF then
    let (o, m') := complete ps1 (some (m.pb ++ m.lb)) m
    ([Tty.CR, Tty.LF] ++ o, m')
  else ([c], { m with lb := m.lb ++ [c] })

/-- a sequence of bytes arrives at the tty -/
def type (ps1 : Bytes) : Bytes → Rem → Bytes × Rem
  | [], m => ([], m)
  | c :: cs, m =>
    let (o1, m1) := key ps1 c m
    let (o2, m2) := type ps1 cs m1
    (o1 ++ o2, m2)

/-- bytes are written to the remote: typed into the foreground command, or — once it is gone —
    read by the shell (of which only `echo $?` is modelled) -/
def react (ps1 : Bytes) (b : Bytes) (m : Rem) : Bytes × Rem :=
  match m.status with
  | some st =>
    if b == Shell.echoStatusLine ++ [Tty.CR] then (Shell.respStatus false ps1 st, m)
    else (Tty.echo false b, { m with lost := m.lost ++ b })
  | none => type ps1 b m

/-! ### the test script -/

inductive TOp where
  | send (b : Bytes) (rb : Bool)
  | sendline (b : Bytes) (rb : Bool)
  | sendcontrol (n : Nat)
  | expect (ps : List Pat) (t : Option Nat)
  | rup (p : Option Pat) (t : Option Nat)
  | rut (t : Option Nat)
  | terminate
  | terminate0
  | raise                     -- the test body raises an exception of its own
  | wait                      -- the test body pauses until the remote is quiet (nothing is called)
  | probe (k : Nat)           -- use the machine's own channel
  deriving Repr, BEq, Inhabited

inductive Tag where
  | ended            -- CommandEndedException
  | timeout | hang | illegal | assertion
  | failure          -- CommandFailure
  | borrowed         -- ChannelBorrowedError
  | invalidRetcode
  | other
  deriving Repr, DecidableEq, Inhabited

def Tag.name : Tag → String
  | .ended => "ended" | .timeout => "timeout" | .hang => "hang" | .illegal => "illegal"
  | .assertion => "assert" | .failure => "failure" | .borrowed => "borrowed"
  | .invalidRetcode => "invalid-retcode" | .other => "other"

inductive TRes where
  | unit
  | text (t : List Char)
  | expect (i : Nat) (before : List Char) (m : List Char) (after : List Char)   -- match as text
  | term (rc : Nat) (out : List Char)
  | out (out : List Char)
  | err (t : Tag)
  deriving Repr, DecidableEq, Inhabited

/-- how the `with` block was left -/
inductive ExitTag where
  | none             -- normally
  | runtime          -- RuntimeError of `_assert_end`
  | body             -- the exception raised by the body, unchanged
  | notEntered       -- `run()` itself raised
  deriving Repr, DecidableEq, Inhabited

structure Case where
  ash : Bool
  chunk : Nat
  pre : List Bytes           -- helper program and its two bookkeeping arguments
  args : List Bytes          -- further arguments
  steps : List PStep
  next : Shell.ShCmd         -- the command run on the machine afterwards
  ops : List TOp
  deriving Repr, Inhabited

structure OpObs where
  res : TRes
  pieces : List Nat          -- sizes of the transport deliveries during the call
  deriving Repr, BEq, Inhabited

structure NextObs where
  val : Shell.ShVal
  argv : Option (List Bytes)
  pieces : List Nat
  deriving Repr, BEq, Inhabited

structure Obs where
  enter : OpObs
  ops : List OpObs
  exit : ExitTag
  next : Option NextObs                 -- `none`: not run (the machine is not in sync)
  lines : Option (List (Option Bytes))  -- what the command read (`none`: not compared)
  deriving Repr, BEq, Inhabited

def prompt (c : Case) : Bytes := if c.ash then Params.ashPrompt else Params.bashPrompt
def blacklist (c : Case) : Bytes := if c.ash then Params.ashBlacklist else Params.bashBlacklist
def lineOf (c : Case) : Bytes := Quote.escape (c.pre ++ c.args)

/-! ### the proxy -/

/-- `RunCommandProxy` + the suspended `cmd_context` generator + the remote -/
structure PSt where
  r : RunSt                  -- the borrowed channel: configuration and transport
  rem : Rem
  ps1 : Bytes
  slot : Bool := true        -- `_c` is the transport (`false`: `CommandEndedChannel`)
  alive : Bool := true       -- `_proxy_alive`
  early : Bool := false      -- `early_exit` of the generator
  gen : Bool := true         -- the generator is suspended at its `yield`
  own : Own.St := {}         -- ownership of the machine's channel
  deriving Repr, Inhabited

def pending (s : St) : Bytes := (s.script.map (·.data)).flatten

/-- hand what is pending plus the remote's new output to the transport, cut into the pieces of the
    real run -/
def load (sizes : List Nat) (extra : Bytes) (r : RunSt) : RunSt :=
  { r with st := { r.st with script := Shell.toScript (Shell.cutBy sizes (pending r.st ++ extra)) } }

def sizesOf (o : _root_.OpObs) : List Nat := o.reads.filterMap fun r => r.data.map List.length

def tagOf : Exc → Tag
  | .timeout => .timeout
  | .hang => .hang
  | .illegal => .illegal
  | .assertion => .assertion
  | .death _ _ => .ended
  | .fuel => .other

def resOf : OpRes → TRes
  | .unit => .unit
  | .text t => .text t
  | .expect i b m a => .expect i b (decodeReplace m) a
  | .err e => .err (tagOf e)
  | _ => .err .other

/-- with a zero timeout `read_iter` raises TimeoutError before it touches `_c` -/
def zeroTimeout : Op → Option TRes
  | .expect _ (some 0) => some (.err .timeout)
  | .rup _ (some 0) => some (.err .timeout)
  | .rut (some 0) => some (.text [])
  | _ => none

/-- a channel method called on the proxy: `CommandEndedChannel` refuses; the constructor of the
    death-string exception swaps `_c` (`_pre_terminate`) and sets `early_exit` -/
def proxyIO (op : Op) (sizes : List Nat) (extra : Bytes) (p : PSt) : OpObs × PSt :=
  if !p.slot then (⟨(zeroTimeout op).getD (.err .ended), []⟩, p)
  else
    let (o, r) := obsOp op (load sizes extra p.r)
    let p := { p with r := r }
    match o.res with
    | .err (.death _ _) => (⟨.err .ended, sizesOf o⟩, { p with slot := false, early := true })
    | res => (⟨resOf res, sizesOf o⟩, p)

/-- `proxy.send(payload, read_back)` (`payload` already carries the CR of `sendline`) -/
def proxySend (payload : Bytes) (rb : Bool) (sizes : List Nat) (p : PSt) : OpObs × PSt :=
  if payload.isEmpty then (⟨.unit, []⟩, p)                 -- "do nothing for empty strings"
  else if !p.slot then (⟨.err .ended, []⟩, p)
  else if forbidden p.r.st.blacklist payload then proxyIO (.send payload rb none false) sizes [] p
  else
    let (out, rem) := react p.ps1 payload p.rem
    proxyIO (.send payload rb none false) sizes out { p with rem := rem }

def proxySendcontrol (n : Nat) (sizes : List Nat) (p : PSt) : OpObs × PSt :=
  if !p.slot then (⟨.err .ended, []⟩, p)
  else if n ≤ 0x1F then
    let (out, rem) := react p.ps1 [UInt8.ofNat n] p.rem
    proxyIO (.sendcontrol n) sizes out { p with rem := rem }
  else proxyIO (.sendcontrol n) sizes [] p

def chanTag : Shell.ShExc → Tag
  | .chan e => tagOf e
  | .invalidRetcode => .invalidRetcode
  | .commandFailure _ => .failure

/-- `util.posix_fetch_return_code`; the shell's answer `resp` is handed to the transport first -/
def fetchRc (sizes : List Nat) (resp : Bytes) (r : RunSt) : Except Tag Nat × List Nat × RunSt :=
  let (o2, r) := obsOp (.sendline Shell.echoStatusLine true none) (load sizes resp r)
  match o2.res with
  | .unit =>
    let (o3, r) := obsOp (.rup none none) r
    let used := sizesOf o2 ++ sizesOf o3
    match o3.res with
    | .text rc =>
      match Shell.parseInt rc with
      | some n => (.ok n, used, r)
      | none => (.error .invalidRetcode, used, r)
    | .err e => (.error (tagOf e), used, r)
    | _ => (.error .other, used, r)
  | .err e => (.error (tagOf e), sizesOf o2, r)
  | _ => (.error .other, sizesOf o2, r)

/-- `RunCommandProxy.terminate`: resume the generator — leave `with_death_string`, read up to the
    prompt unless the command is known to have ended, leave `with_stream`, fetch the status -/
def terminate (sizes : List Nat) (p : PSt) : (Except Tag (Nat × List Char)) × List Nat × PSt :=
  if !p.alive then (.error .assertion, [], p)
  else
    let p := { p with slot := true }
    if !p.gen then (.error .other, [], p)      -- `next()` on a finished generator
    else
      let p := { p with gen := false }
      let r := (obsOp .deathExit (load sizes [] p.r)).2
      let (res1, used1, r) := if p.early then (OpRes.text [], [], r)
                              else let (o1, r) := obsOp (.rup none none) r; (o1.res, sizesOf o1, r)
      let r := (obsOp .streamExit r).2
      match res1 with
      | .text out =>
        let (resp, rem) := react p.ps1 (Shell.echoStatusLine ++ [Tty.CR]) p.rem
        let (rc, used2, r) := fetchRc (sizes.drop used1.length) resp r
        let p := { p with r := r, rem := rem }
        match rc with
        | .ok n => (.ok (n, out), used1 ++ used2, { p with alive := false, slot := false })
        | .error t => (.error t, used1 ++ used2, p)
      | .err e => (.error (tagOf e), used1, { p with r := r })
      | _ => (.error .other, used1, { p with r := r })

/-- which call on the machine's own channel a `probe` makes -/
def probeOp : Nat → Own.Op
  | 0 => .io 0
  | 1 => .closed 0
  | 2 => .close 0
  | 3 => .exit 0
  | 4 => .borrowEnter 0
  | _ => .take 0

def ownTag : Own.Res → TRes
  | .errBorrowed => .err .borrowed
  | .ok => .unit
  | _ => .err .other

/-- one operation of the test body -/
def step (op : TOp) (sizes : List Nat) (p : PSt) : OpObs × PSt :=
  match op with
  | .send b rb => proxySend b rb sizes p
  | .sendline b rb => proxySend (b ++ [Tty.CR]) rb sizes p
  | .sendcontrol n => proxySendcontrol n sizes p
  | .expect ps t => proxyIO (.expect ps t) sizes [] p
  | .rup q t => proxyIO (.rup q t) sizes [] p
  | .rut t => proxyIO (.rut t) sizes [] p
  | .terminate =>
    match terminate sizes p with
    | (.ok (rc, out), used, p) => (⟨.term rc out, used⟩, p)
    | (.error t, used, p) => (⟨.err t, used⟩, p)
  | .terminate0 =>
    match terminate sizes p with
    | (.ok (rc, out), used, p) => (⟨if rc = 0 then .out out else .err .failure, used⟩, p)
    | (.error t, used, p) => (⟨.err t, used⟩, p)
  | .raise => (⟨.unit, []⟩, p)
  | .wait => (⟨.unit, []⟩, p)
  | .probe k => (⟨ownTag (Own.step p.own (probeOp k)).1, []⟩, { p with own := (Own.step p.own (probeOp k)).2 })

/-- the body of the `with` block: operations up to and including a `raise` -/
def body : List TOp → List (List Nat) → PSt → List OpObs × Bool × List (List Nat) × PSt
  | [], pcs, p => ([], false, pcs, p)
  | .raise :: _, pcs, p => ([⟨.unit, []⟩], true, pcs.drop 1, p)
  | op :: ops, pcs, p =>
    let (o, p) := step op (pcs.headD []) p
    let (os, raised, pcs, p) := body ops (pcs.drop 1) p
    (o :: os, raised, pcs, p)

/-- the machine's channel before `run()` -/
def machineSt (c : Case) : St :=
  { chunk := c.chunk, prompt := some (.lit (prompt c)), blacklist := blacklist c }

/-- `RunCommandProxy._ctx` up to the `yield`: borrow the channel, start the generator (send the
    command line and read it back, attach the log stream without prompt, register the prompt as
    death string) -/
def enter (c : Case) (sizes : List Nat) : OpObs × Option PSt :=
  let own := (Own.step {} (.borrowEnter 0)).2
  let line := lineOf c
  let (out0, rem) := if forbidden (blacklist c) (line ++ [Tty.CR]) then ([], ({} : Rem)) else
    let (o, rem) := start (prompt c) c.steps
    (Tty.echo false (line ++ [Tty.CR]) ++ o, rem)
  let (o, r) := obsOp (.sendline line true none) (load sizes out0 { st := machineSt c })
  match o.res with
  | .unit =>
    let r := (obsOp (.streamEnter 0 false) r).2
    let r := (obsOp (.deathEnter (.lit (prompt c)) 0) r).2
    (⟨.unit, sizesOf o⟩, some { r := r, rem := rem, ps1 := prompt c, own := own })
  | res => (⟨resOf res, sizesOf o⟩, none)

/-- leaving the `with` block -/
def leave (raised : Bool) (p : PSt) : ExitTag :=
  if raised then .body else if p.alive then .runtime else .none

/-- the command run on the machine afterwards: `Bash.exec` / `Ash.exec` on the lender's
    configuration and the transport as the proxy left it -/
def nextExec (c : Case) (sizes : List Nat) (script : List Piece) (now : Nat) : NextObs :=
  let line := Shell.lineOf c.next
  let ps1 := prompt c
  let resp := if forbidden (blacklist c) (line ++ [Tty.CR]) then [] else Shell.respCmd false ps1 line c.next.out
  let (o1, r) := obsOp (.sendline line true none) (load sizes resp { st := { machineSt c with script := script, now := now } })
  let argv := if o1.writes.isEmpty then none else some c.next.args
  match o1.res with
  | .unit =>
    let r := (obsOp (.streamEnter 0 false) r).2
    let (o2, r) := obsOp (.rup none none) r
    let r := (obsOp .streamExit r).2
    let used := sizesOf o1 ++ sizesOf o2
    match o2.res with
    | .text out =>
      let (rc, used2, _) := fetchRc (sizes.drop used.length) (Shell.respStatus false ps1 c.next.status) r
      match rc with
      | .ok n => { val := .rc n out, argv := argv, pieces := used ++ used2 }
      | .error t => { val := .err t.name, argv := argv, pieces := used ++ used2 }
    | .err e => { val := .err (tagOf e).name, argv := argv, pieces := used }
    | _ => { val := .err Tag.other.name, argv := argv, pieces := used }
  | .err e => { val := .err (tagOf e).name, argv := argv, pieces := sizesOf o1 }
  | _ => { val := .err Tag.other.name, argv := argv, pieces := sizesOf o1 }

/-- the whole scenario; `pieces` = delivery sizes of the real run, per call (enter, the executed
    operations, the follow-up command) -/
def run (c : Case) (pieces : List (List Nat)) : Obs :=
  match enter c (pieces.headD []) with
  | (eo, none) =>
    { enter := eo, ops := [], exit := .notEntered,
      next := some (nextExec c ((pieces.drop 1).headD []) [] 0), lines := some [] }
  | (eo, some p) =>
    let (os, raised, pcs, p) := body c.ops (pieces.drop 1) p
    let tag := leave raised p
    if p.alive then { enter := eo, ops := os, exit := tag, next := none, lines := none }
    else
      { enter := eo, ops := os, exit := tag,
        next := some (nextExec c (pcs.headD []) p.r.st.script p.r.st.now), lines := some p.rem.lines }

end Run
