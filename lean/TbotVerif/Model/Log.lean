import TbotVerif.Generated.Params
/-! Model of `tbot/log.py` (`EventIO`: normalise, store, incremental printer, close → JSON
    document) and of the loop of `generators/logparser.py` `logfile()` over an abstract JSON
    codec.  Core Lean only. -/

namespace Log

abbrev Str := List Char

/-! ## `str.replace` and the per-write normalisation of `EventIO.write` -/

/-- Python `s.replace(pat, rep)` for a non-empty `pat`: left to right, non-overlapping.
    `skip` counts the characters of a match that are still to be dropped. -/
def replaceGo (pat rep : Str) : Nat → Str → Str
  | _, [] => []
  | skip + 1, _ :: t => replaceGo pat rep skip t
  | 0, c :: t =>
    if pat.isPrefixOf (c :: t) then rep ++ replaceGo pat rep (pat.length - 1) t
    else c :: replaceGo pat rep 0 t

def replaceAll (pat rep s : Str) : Str := replaceGo pat rep 0 s

/-- the seven terminal-control sequences `EventIO.write` deletes, in the order of the
    `.replace` chain -/
def esc : Char := Char.ofNat 27

def deletions : List Str :=
  [[esc, '[', 'H'], [esc, '[', '9', '9', '9', ';', '9', '9', '9', 'H'], [esc, '[', '6', 'n'], [esc, '[', '2', 'J'],
   [esc, '[', 'r'], [esc, '[', 'u'], [esc, '7']]

/-- the `.replace(…)` chain at the top of `EventIO.write` -/
def normalise (s : Str) : Str :=
  replaceAll ['\n', '\r'] ['\n']
    (replaceAll ['\r', '\n'] ['\n']
      (deletions.foldl (fun acc p => replaceAll p [] acc) s))

/-! ## the printer (`EventIO._print_stdout`) -/

def isSep (c : Char) : Bool := c == '\r' || c == '\n'

/-- `[f for f in _SPLIT_PATTERN.split(buf) if f != ""]` with `_SPLIT_PATTERN = (\r|\n)`:
    maximal runs without CR/LF, and every CR / LF as a fragment of its own -/
def splitFrags : Str → List Str
  | [] => []
  | c :: t =>
    if isSep c then [c] :: splitFrags t
    else
      match splitFrags t with
      | [] => [[c]]
      | [] :: fs => [c] :: fs                   -- (never produced)
      | (d :: f) :: fs => if isSep d then [c] :: (d :: f) :: fs else (c :: d :: f) :: fs

/-- `fragment in ["\r", "\n"]` -/
def isSepFrag (f : Str) : Bool := f == ['\r'] || f == ['\n']

/-- the `for fragment in …` loop of `_print_stdout`: text written to stdout and the new
    `_nextline` -/
def printFrags (pfx : Str) : Bool → List Str → Str × Bool
  | nl, [] => ([], nl)
  | nl, f :: fs =>
    let r := printFrags pfx (isSepFrag f) fs
    ((if nl then pfx else []) ++ f ++ r.1, r.2)

/-! ## `EventIO` -/

/-- module globals of `tbot.log` read by `EventIO` -/
structure Glob where
  verbosity : Nat
  /-- `none` = `NESTING == -1` -/
  nesting : Option Nat
  unicode : Bool
  color : Bool
  /-- `LOGFILE is not None` -/
  logOn : Bool
  deriving Repr, BEq, Inhabited

/-- one JSON document of the log file: `type` and `data` (the `time` field is not modelled) -/
structure Doc where
  ty : List Str
  data : List (Str × Str)
  deriving Repr, DecidableEq, Inhabited

structure Ev where
  stored : Str := []
  cursor : Nat := 0
  nextline : Bool := true
  pfx : Option Str := none
  verbosity : Nat
  ty : List Str
  data : List (Str × Str)
  closed : Bool := false
  deriving Repr, BEq, Inhabited

def cps (l : List Nat) : Str := l.map Char.ofNat

/-- `u(with_unicode, without_unicode)` -/
def u (g : Glob) (a b : List Nat) : Str := if g.unicode then cps a else cps b

/-- `str(c(s).dark)` -/
def dark (g : Glob) (s : Str) : Str :=
  if g.color then cps Params.logDarkPre ++ s ++ cps Params.logDarkPost else s

/-- `str(c(""))` -/
def emptyC (g : Glob) : Str := if g.color then cps Params.logColorEmpty else []

/-- `EventIO._prefix(nest_first)` -/
def prefixOf (g : Glob) (pfx : Option Str) (nestFirst : Option Str) : Str :=
  match g.nesting with
  | none => []
  | some n =>
    let after := nestFirst.getD (u g Params.logAfterU Params.logAfterA)
    dark g ((List.replicate n (u g Params.logIndentU Params.logIndentA)).flatten ++ after)
      ++ (match pfx with | none => [] | some p => p)      -- `self.prefix or ""`

/-- `self._prefix() + c("")`: what is written at the start of every line -/
def linePrefix (g : Glob) (ev : Ev) : Str := prefixOf g ev.pfx none ++ emptyC g

/-- `self.verbosity <= VERBOSITY` -/
def enabled (g : Glob) (ev : Ev) : Bool := ev.verbosity ≤ g.verbosity

/-- `EventIO._print_stdout(last)` on an open event: new state and the text written to stdout -/
def printStdout (g : Glob) (last : Bool) (ev : Ev) : Ev × Str :=
  let buf := ev.stored.drop ev.cursor
  if !enabled g ev then (ev, [])
  else
    let r := printFrags (linePrefix g ev) ev.nextline (splitFrags buf)
    let r := if last && !r.2 then (r.1 ++ ['\n'], true) else r
    ({ ev with cursor := ev.cursor + buf.length, nextline := r.2 }, r.1)

/-- result of one call on an event -/
inductive Res where
  | wrote (n : Nat)     -- return value of `write`
  | unit
  | closedErr           -- `ValueError: I/O operation on closed file`
  deriving Repr, DecidableEq, Inhabited

/-- `EventIO.write(s)` -/
def write (g : Glob) (s : Str) (ev : Ev) : Res × Ev × Str :=
  if ev.closed then (.closedErr, ev, [])
  else
    let s := normalise s
    let r := printStdout g false { ev with stored := ev.stored ++ s }
    (.wrote s.length, r.1, r.2)

/-- `EventIO.writeln(s)` -/
def writeln (g : Glob) (s : Str) (ev : Ev) : Res × Ev × Str := write g (s ++ ['\n']) ev

/-- `dict.__setitem__` on the insertion-ordered `data` dict -/
def setKey (k v : Str) : List (Str × Str) → List (Str × Str)
  | [] => [(k, v)]
  | (k', v') :: t => if k' == k then (k, v) :: t else (k', v') :: setKey k v t

/-- `ev.data[key] = ev.getvalue()` (what `LinuxShell.exec` does with `"stdout"`) -/
def setData (k : Str) (ev : Ev) : Res × Ev :=
  if ev.closed then (.closedErr, ev) else (.unit, { ev with data := setKey k ev.stored ev.data })

/-- `EventIO.close()`: flush the printer, emit one document when a log file is configured -/
def close (g : Glob) (ev : Ev) : Res × Ev × Str × List Doc :=
  if ev.closed then (.closedErr, ev, [], [])
  else
    let r := printStdout g true ev
    (.unit, { r.1 with closed := true }, r.2, if g.logOn then [⟨ev.ty, ev.data⟩] else [])

/-- `msg = str(message).split("\n", 1)` -/
def splitMsg : Str → Str × Option Str
  | [] => ([], none)
  | c :: t =>
    if c == '\n' then ([], some t)
    else let r := splitMsg t; (c :: r.1, r.2)

/-- `EventIO.__init__`: the event and what the constructor printed -/
def mk (g : Glob) (ty : List Str) (msg : Str) (verbosity : Nat) (nestFirst : Option Str)
    (kw : List (Str × Str)) : Ev × Str :=
  let m := splitMsg msg
  let ev : Ev := { verbosity := verbosity, ty := ty, data := kw }
  -- `nest_first or u("├─", "+-")`: an empty `nest_first` selects the default, too
  let nf := match nestFirst with
    | none => u g Params.logFirstU Params.logFirstA
    | some [] => u g Params.logFirstU Params.logFirstA
    | some s => s
  let hdr := if enabled g ev then prefixOf g none (some nf) ++ m.1 ++ ['\n'] else []
  match m.2 with
  | none => (ev, hdr)
  | some rest => let r := writeln g rest ev; (r.2.1, hdr ++ r.2.2)

inductive Op where
  | write (s : Str)
  | writeln (s : Str)
  | setData (k : Str)
  | close
  deriving Repr, DecidableEq, Inhabited

/-- one call: result, new state, stdout text, documents appended to the log file -/
def step (g : Glob) (ev : Ev) : Op → Res × Ev × Str × List Doc
  | .write s => let r := write g s ev; (r.1, r.2.1, r.2.2, [])
  | .writeln s => let r := writeln g s ev; (r.1, r.2.1, r.2.2, [])
  | .setData k => let r := setData k ev; (r.1, r.2, [], [])
  | .close => close g ev

/-- a sequence of calls -/
def steps (g : Glob) : Ev → List Op → List (Res × Str) × Ev × List Doc
  | ev, [] => ([], ev, [])
  | ev, op :: ops =>
    let r := step g ev op
    let rs := steps g r.2.1 ops
    ((r.1, r.2.2.1) :: rs.1, rs.2.1, r.2.2.2 ++ rs.2.2)

/-- an event scenario: construct (as `log_event.command` does), optionally re-assign
    `prefix` / `verbosity`, then a sequence of calls -/
structure EvCase where
  g : Glob
  ty : List Str
  kw : List (Str × Str)
  verb0 : Nat
  nestFirst : Option Str
  msg : Str
  /-- `ev.prefix = …` after construction (`none`: left alone) -/
  pfx1 : Option Str
  /-- `ev.verbosity = …` after construction -/
  verb1 : Nat
  ops : List Op
  deriving Repr, Inhabited

structure EvObs where
  /-- stdout text produced by the constructor -/
  hdr : Str
  /-- `getvalue()` before the first `close` (or at the end) -/
  stored : Str
  /-- documents found in the log file -/
  docs : List Doc
  /-- per call: result and stdout text -/
  steps : List (Res × Str)
  deriving Repr, BEq, Inhabited

def runEv (c : EvCase) : EvObs :=
  let r := mk c.g c.ty c.msg c.verb0 c.nestFirst c.kw
  let ev := { r.1 with pfx := c.pfx1, verbosity := c.verb1 }
  let rs := steps c.g ev c.ops
  { hdr := r.2, stored := rs.2.1.stored, docs := rs.2.2, steps := rs.1 }

/-! ## the parser loop (`logparser.logfile`) over an abstract codec -/

/-- what the loop does, step by step (observable through an instrumented `open` / decoder) -/
inductive PStep where
  | read (k : Nat)              -- `f.read(READ_SIZE)` returned `k` characters
  | fail (buflen : Nat)         -- `raw_decode(buf)` raised `JSONDecodeError`
  | ok (buflen idx : Nat)       -- `raw_decode(buf)` returned a document ending at `idx`
  | fuel                        -- the model ran out of fuel (never, see `Props/LogParse`)
  deriving Repr, DecidableEq, Inhabited

/-- the characters `str.lstrip()` / `str.isspace()` treat as white space -/
def pySpace (c : Char) : Bool :=
  let n := c.toNat
  (9 ≤ n && n ≤ 13) || (28 ≤ n && n ≤ 32) || n == 0x85 || n == 0xA0 || n == 0x1680
    || (0x2000 ≤ n && n ≤ 0x200A) || n == 0x2028 || n == 0x2029 || n == 0x202F || n == 0x205F
    || n == 0x3000

/-- `str.lstrip()` -/
def lstrip {χ : Type} (isSpace : χ → Bool) (s : List χ) : List χ := s.dropWhile isSpace

/-- the `while True:` loop of `logfile`; `rest` is what is still unread in the file -/
def parseLoop {χ α : Type} (isSpace : χ → Bool) (rawDecode : List χ → Option (α × Nat)) (n : Nat) :
    Nat → List χ → List χ → List α × List PStep
  | 0, _, _ => ([], [.fuel])
  | f + 1, buf, rest =>
    match rawDecode buf with
    | none =>
      let new := rest.take n
      if new.isEmpty then ([], [.fail buf.length, .read 0])
      else
        let r := parseLoop isSpace rawDecode n f (lstrip isSpace (buf ++ new)) (rest.drop n)
        (r.1, .fail buf.length :: .read new.length :: r.2)
    | some (v, idx) =>
      let r := parseLoop isSpace rawDecode n f (lstrip isSpace (buf.drop idx)) rest
      (v :: r.1, .ok buf.length idx :: r.2)

/-- `logfile(filename)` with `READ_SIZE = n` on a file with contents `file`: the events
    yielded and the trace of reads and decode attempts -/
def logfile {χ α : Type} (isSpace : χ → Bool) (rawDecode : List χ → Option (α × Nat)) (n : Nat)
    (file : List χ) : List α × List PStep :=
  let r := parseLoop isSpace rawDecode n (2 * file.length + 2) (file.take n) (file.drop n)
  (r.1, .read (file.take n).length :: r.2)

/-- the writer side: one document per closed event, each followed by `sep` (`"\n"`) -/
def fileOf {χ α : Type} (enc : α → List χ) (sep : List χ) (es : List α) : List χ :=
  es.flatMap (fun e => enc e ++ sep)

/-! ### the framing codec used by the driver

The JSON text itself is not modelled (CPython's `json` is trusted and validated by the
harness, see `DecoderSpec`); for the correspondence of the loop a file is abstracted to
*frames*: every character knows which document it belongs to, its offset and the
document's length. -/

inductive FTok where
  | doc (id pos last : Nat)    -- character `pos` of document `id` whose last offset is `last`
  | sp                         -- a whitespace character between documents
  deriving Repr, DecidableEq, Inhabited

/-- a document: identifier and length − 1 -/
abbrev FDoc := Nat × Nat

def frameEnc (d : FDoc) : List FTok := (List.range (d.2 + 1)).map (fun i => FTok.doc d.1 i d.2)

def frameSpace : FTok → Bool
  | .sp => true
  | _ => false

def frameDecode : List FTok → Option (FDoc × Nat)
  | .doc id 0 last :: t => if last ≤ t.length then some ((id, last), last + 1) else none
  | _ => none

/-- a parse scenario: read size and the documents (identifier, length ≥ 1) in closing order -/
structure PfCase where
  n : Nat
  docs : List (Nat × Nat)
  deriving Repr, Inhabited

structure PfObs where
  yielded : List Nat
  trace : List PStep
  deriving Repr, BEq, Inhabited

def runPf (c : PfCase) : PfObs :=
  let r := logfile frameSpace frameDecode c.n
    (fileOf frameEnc [FTok.sp] (c.docs.map (fun d => (d.1, d.2 - 1))))
  { yielded := r.1.map (·.1), trace := r.2 }

inductive Case where
  | ev (c : EvCase)
  | pf (c : PfCase)
  deriving Repr, Inhabited

inductive Obs where
  | ev (o : EvObs)
  | pf (o : PfObs)
  deriving Repr, Inhabited

def run : Case → Obs
  | .ev c => .ev (runEv c)
  | .pf c => .pf (runPf c)

end Log
