import TbotVerif.Base.Text
import TbotVerif.Base.Re
import TbotVerif.Generated.Params
/-! Executable model of `tbot.machine.channel.Channel` over a scripted transport and a
    virtual clock.  Every function mirrors the method of the same name in
    `tbot/machine/channel/channel.py`; loops carry an explicit fuel. -/

/-- one piece of incoming data: arrival tick and (non-empty) payload -/
structure Piece where
  tick : Nat
  data : Bytes
  deriving Repr, BEq, Inhabited

inductive Exc where
  | timeout
  | hang                        -- blocked for ever (no data, no timeout)
  | death (exc : Nat) (m : Bytes)
  | illegal                     -- IllegalDataException
  | assertion
  | fuel                        -- model ran out of fuel (never happens; see `*_fuel` lemmas)
  deriving Repr, BEq, Inhabited

/-- one call of `ChannelIO.read` as seen at the transport boundary -/
structure ReadRec where
  n : Nat
  timeout : Option Nat
  t0 : Nat                 -- virtual time of the request
  t1 : Nat                 -- virtual time of the return
  data : Option Bytes      -- `none`: TimeoutError (or blocked for ever)
  deriving Repr, BEq, Inhabited

structure Death where
  id : Nat                 -- identity of the registration (the Python ring-buffer object)
  pat : Pat
  exc : Nat
  ring : Bytes
  deriving Repr, BEq, Inhabited

/-- transport + clock + channel configuration + observation logs -/
structure St where
  -- transport / clock
  now : Nat := 0
  script : List Piece := []
  accept : List Nat := []              -- partial-write oracle
  -- channel configuration
  chunk : Nat := Params.readChunkSize
  slice : Nat := Params.sendSliceSize
  prompt : Option Pat := none
  deaths : List Death := []
  nextDeath : Nat := 0
  streams : List Nat := []
  streambuf : Bytes := []
  logPrompt : Bool := true
  blacklist : List Byte := []
  slowDelay : Option Nat := none
  slowChunk : Nat := 32
  -- observation logs (most recent last)
  reads : List ReadRec := []               -- transport read calls
  writes : List (Bytes × Nat) := []        -- transport writes (offered, accepted)
  fwd : List (Nat × Bytes) := []           -- (stream id, fragment) forwarded to streams
  deriving Repr, Inhabited

abbrev Res (α : Type) := Except Exc α × St

def Death.maxlen (d : Death) : Nat := 2 * d.pat.len

namespace Chan

/-! ### transport -/

def takeHead (n : Nat) (p : Piece) (ps : List Piece) : Bytes × List Piece :=
  if p.data.length ≤ n then (p.data, ps)
  else (p.data.take n, { p with data := p.data.drop n } :: ps)

def ioFail (n : Nat) (timeout : Option Nat) (s : St) (t1 : Nat) (e : Exc) : Res Bytes :=
  (.error e, { s with now := t1, reads := s.reads ++ [⟨n, timeout, s.now, t1, none⟩] })

def ioDeliver (n : Nat) (timeout : Option Nat) (s : St) (t1 : Nat) (p : Piece) (ps : List Piece) :
    Res Bytes :=
  (.ok (takeHead n p ps).1,
   { s with now := t1, script := (takeHead n p ps).2,
            reads := s.reads ++ [⟨n, timeout, s.now, t1, some (takeHead n p ps).1⟩] })

/-- `ChannelIO.read(n, timeout)` of the scripted transport -/
def ioRead (n : Nat) (timeout : Option Nat) (s : St) : Res Bytes :=
  match s.script with
  | [] =>
    match timeout with
    | none => ioFail n timeout s s.now .hang
    | some t => ioFail n timeout s (s.now + t) .timeout
  | p :: ps =>
    if p.tick ≤ s.now then ioDeliver n timeout s s.now p ps
    else match timeout with
      | none => ioDeliver n timeout s p.tick p ps
      | some t =>
        if p.tick ≤ s.now + t then ioDeliver n timeout s p.tick p ps
        else ioFail n timeout s (s.now + t) .timeout

def clamp (lo hi x : Nat) : Nat := max lo (min hi x)

/-- `ChannelIO.write(buf)`: accepts between 1 and `len buf` bytes, as the oracle says -/
def ioWrite (buf : Bytes) (s : St) : Nat × St :=
  let (k, acc) := match s.accept with
    | [] => (buf.length, [])
    | a :: as => (clamp 1 buf.length a, as)
  (k, { s with accept := acc, writes := s.writes ++ [(buf, k)] })

/-! ### log streams -/

/-- length of the longest suffix of `buf` that is a prefix of `prompt` (at most `m`) -/
def overlap (prompt buf : Bytes) : Nat → Nat
  | 0 => 0
  | i + 1 =>
    if (buf.drop (buf.length - (i + 1))) == prompt.take (i + 1) then i + 1
    else overlap prompt buf i

def emit (frag : Bytes) (s : St) : St :=
  { s with fwd := s.fwd ++ s.streams.map (fun id => (id, frag)) }

/-- `Channel._write_stream` -/
def writeStream (buf : Bytes) (s : St) : St :=
  if s.streams.isEmpty then s else
  match s.logPrompt, s.prompt with
  | true, _ => emit buf s
  | false, none => emit buf s
  | false, some (.lit p) =>
    let sb := s.streambuf ++ buf
    let len := overlap p sb (min p.length sb.length)
    let s := emit (sb.take (sb.length - len)) s
    { s with streambuf := sb.drop (sb.length - len) }
  | false, some (.re r) =>
    let sb := s.streambuf ++ buf
    let w := r.maxWidth
    -- Python: fragment = sb[:-w]; sb = sb[-w:]   (w = 0 gives ([], whole))
    let frag := if w = 0 then [] else sb.take (sb.length - w)
    let keep := if w = 0 then sb else sb.drop (sb.length - w)
    { (emit frag s) with streambuf := keep }

/-- `with_stream` entry: returns the previous suppression mode (kept by the frame) -/
def streamEnter (id : Nat) (showPrompt : Bool) (s : St) : Bool × St :=
  (s.logPrompt, { s with streams := s.streams ++ [id], logPrompt := showPrompt })

/-- what `with_stream` exit forwards to the still-attached streams: for a regex prompt, the part
    of the hold-back buffer that precedes the actual prompt -/
def exitFlush (s : St) : List (Nat × Bytes) :=
  match s.logPrompt, s.prompt with
  | false, some (.re r) =>
    if s.streambuf.isEmpty then [] else
    match r.search s.streambuf with
    | some (a, _) => s.streams.map fun i => (i, s.streambuf.take a)
    | none => []
  | _, _ => []

/-- the hold-back buffer after `with_stream` exit -/
def exitKeep (s : St) : Bytes :=
  match s.logPrompt, s.prompt with
  | false, some (.re _) => []
  | false, some (.lit p) => s.streambuf.drop p.length
  | _, _ => s.streambuf

/-- `with_stream` exit (the `finally` block) -/
def streamExit (id : Nat) (prev : Bool) (s : St) : St :=
  { s with fwd := s.fwd ++ exitFlush s, streams := s.streams.erase id, streambuf := exitKeep s,
           logPrompt := prev }

/-! ### death strings -/

def ringPush (maxlen : Nat) (ring chunk : Bytes) : Bytes :=
  let r := ring ++ chunk
  r.drop (r.length - maxlen)


/-- window size used by `_check` -/
def windowSize (ds : List Death) : Nat :=
  match ds.map Death.maxlen with
  | [] => 1
  | m :: ms => max 1 ((ms.foldl min m) / 2)

/-- process one window: every ring is extended; the first match (in list order) found while
    nothing is pending yet is remembered -/
def checkWindow (w : Bytes) : Option (Nat × Bytes) → List Death → Option (Nat × Bytes) × List Death
  | pend, [] => (pend, [])
  | pend, d :: ds =>
    let ring := ringPush d.maxlen d.ring w
    let d' := { d with ring := ring }
    let pend' := match pend with
      | some x => some x
      | none =>
        match d.pat.search ring with
        | some (a, b) => some (d.exc, (ring.drop a).take (b - a))
        | none => none
    let (r, ds') := checkWindow w pend' ds
    (r, d' :: ds')

def checkWindows (wsz : Nat) :
    Nat → Bytes → Option (Nat × Bytes) → List Death → Option (Nat × Bytes) × List Death
  | 0, _, pend, ds => (pend, ds)
  | _ + 1, [], pend, ds => (pend, ds)
  | f + 1, b :: t, pend, ds =>
    let (pend', ds') := checkWindow ((b :: t).take wsz) pend ds
    checkWindows wsz f ((b :: t).drop wsz) pend' ds'

/-- `Channel._check`: all of `incoming` passes through every ring buffer; the first match
    found is raised afterwards -/
def check (incoming : Bytes) (s : St) : Res Unit :=
  if s.deaths.isEmpty then (.ok (), s) else
  let (r, ds) := checkWindows (windowSize s.deaths) incoming.length incoming none s.deaths
  let s := { s with deaths := ds }
  match r with
  | some (e, m) => (.error (.death e m), s)
  | none => (.ok (), s)

/-- `with_death_string` entry / `add_death_string`; returns the registration's identity -/
def deathEnter (pat : Pat) (exc : Nat) (s : St) : Nat × St :=
  (s.nextDeath, { s with deaths := { id := s.nextDeath, pat := pat, exc := exc, ring := [] } :: s.deaths,
                         nextDeath := s.nextDeath + 1 })

/-- `with_death_string` exit: removes its own registration -/
def deathExit (id : Nat) (s : St) : St :=
  { s with deaths := s.deaths.filter (·.id != id) }

/-! ### read_iter -/

structure RI where
  t0 : Nat
  timeout : Option Nat
  max : Option Nat
  got : Nat := 0
  started : Bool := false      -- at least one chunk has been yielded
  deriving Repr, Inhabited

inductive Step where
  | chunk (b : Bytes)
  | done
  | err (e : Exc)
  deriving Repr, Inhabited

/-- time left of an overall timeout started at `t0`; `none`: expired -/
def remaining (timeout : Option Nat) (t0 now : Nat) : Option (Option Nat) :=
  match timeout with
  | none => some none
  | some t => if t ≤ now - t0 then none else some (some (t - (now - t0)))

def RI.maxRead (ri : RI) (chunk : Nat) : Nat :=
  match ri.max with
  | none => chunk
  | some m => min chunk (m - ri.got)

def riStart (max : Option Nat) (timeout : Option Nat) (s : St) : RI :=
  { t0 := s.now, timeout := timeout, max := max }

/-- one resumption of the `read_iter` generator -/
def riNext (ri : RI) (s : St) : Step × RI × St :=
  if ri.started && ri.max == some ri.got then (.done, ri, s) else
  match remaining ri.timeout ri.t0 s.now with
  | none => (.err .timeout, ri, s)
  | some rem =>
    match ioRead (ri.maxRead s.chunk) rem s with
    | (.error e, s) => (.err e, ri, s)
    | (.ok new, s) =>
      let ri := { ri with got := ri.got + new.length, started := true }
      let s := writeStream new s
      match check new s with
      | (.error e, s) => (.err e, ri, s)
      | (.ok _, s) => (.chunk new, ri, s)

/-- pull at most `k` chunks (`none`: until exhausted) out of a `read_iter`, then drop it -/
def riTake : Nat → Option Nat → RI → St → List Bytes → (List Bytes × Option Exc) × St
  | 0, _, _, s, acc => ((acc, some .fuel), s)
  | f + 1, k, ri, s, acc =>
    if k = some 0 then ((acc, none), s) else
    match riNext ri s with
    | (.done, _, s) => ((acc, none), s)
    | (.err e, _, s) => ((acc, some e), s)
    | (.chunk b, ri, s) => riTake f (k.map (· - 1)) ri s (acc ++ [b])

def bytesLeft (s : St) : Nat := (s.script.map (·.data.length)).sum

def fuelFor (s : St) : Nat := bytesLeft s + 2

/-- `Channel.read(n, timeout)`; `n = none` is `-1` -/
def read (n : Option Nat) (timeout : Option Nat) (s : St) : Res Bytes :=
  match n with
  | none =>
    match ioRead s.chunk timeout s with
    | (.error e, s) => (.error e, s)
    | (.ok buf, s) =>
      let s := writeStream buf s
      match check buf s with
      | (.error e, s) => (.error e, s)
      | (.ok _, s) =>
        -- `read_iter(timeout=0.0)` raises TimeoutError at once; it is swallowed
        (.ok buf, s)
  | some n =>
    match riTake (fuelFor s) none (riStart (some n) timeout s) s [] with
    | ((_, some e), s) => (.error e, s)
    | ((cs, none), s) =>
      if cs.flatten.length == n then (.ok cs.flatten, s) else (.error .assertion, s)

/-! ### writing -/

def writeLoop : Nat → Bytes → St → St
  | 0, _, s => s
  | _ + 1, [], s => s
  | f + 1, b :: t, s =>
    match s.slowDelay with
    | none =>
      let (k, s) := ioWrite (b :: t) s
      writeLoop f ((b :: t).drop k) s
    | some d =>
      let (k, s) := ioWrite ((b :: t).take s.slowChunk) s
      let s := { s with now := s.now + d }
      writeLoop f ((b :: t).drop k) s

def forbidden (bl : List Byte) (buf : Bytes) : Bool := bl.any fun x => buf.contains x

/-- `Channel.write(buf, _ignore_blacklist)` -/
def write (buf : Bytes) (ignoreBl : Bool) (s : St) : Res Unit :=
  if !ignoreBl && forbidden s.blacklist buf then (.error .illegal, s)
  else (.ok (), writeLoop buf.length buf s)

def countNl (b : Bytes) : Nat := b.count 13 + b.count 10

def sendLoop : Nat → Bytes → Bool → Option Nat → Bool → Nat → St → Res Unit
  | 0, _, _, _, _, _, s => (.error .fuel, s)
  | _ + 1, [], _, _, _, _, s => (.ok (), s)
  | f + 1, b :: t, readBack, timeout, ignoreBl, t0, s =>
    let chunk := (b :: t).take s.slice
    match write chunk ignoreBl s with
    | (.error e, s) => (.error e, s)
    | (.ok _, s) =>
      if readBack then
        match remaining timeout t0 s.now with
        | none => (.error .timeout, s)
        | some rem =>
          match read (some (chunk.length + countNl chunk)) rem s with
          | (.error e, s) => (.error e, s)
          | (.ok _, s) => sendLoop f ((b :: t).drop s.slice) readBack timeout ignoreBl t0 s
      else sendLoop f ((b :: t).drop s.slice) readBack timeout ignoreBl t0 s

/-- `Channel.send` -/
def send (buf : Bytes) (readBack : Bool) (timeout : Option Nat) (ignoreBl : Bool) (s : St) :
    Res Unit :=
  if buf.isEmpty then (.ok (), s)
  else if !ignoreBl && forbidden s.blacklist buf then (.error .illegal, s)
  else sendLoop (buf.length + 1) buf readBack timeout ignoreBl s.now s

def sendline (buf : Bytes) (readBack : Bool) (timeout : Option Nat) (s : St) : Res Unit :=
  send (buf ++ [13]) readBack timeout false s

/-- `sendcontrol(chr(64 + num))` -/
def sendcontrol (num : Nat) (s : St) : Res Unit :=
  if num ≤ 0x1F then write [UInt8.ofNat num] true s else (.error .assertion, s)

/-! ### readline / expect / prompts -/

def readlineLoop : Nat → Bytes → Bytes → Nat → Option Nat → St → Res Bytes
  | 0, _, _, _, _, s => (.error .fuel, s)
  | f + 1, end_, line, t0, timeout, s =>
    -- note: no `<= 0` test here; a non-positive remainder is passed on to `read`
    match remaining timeout t0 s.now with
    | none => (.error .timeout, s)
    | some rem =>
      match read (some 1) rem s with
      | (.error e, s) => (.error e, s)
      | (.ok c, s) =>
        let line := line ++ c
        if end_.isSuffixOf line then (.ok line, s)
        else readlineLoop f end_ line t0 timeout s

/-- `Channel.readline(timeout, lineending)`; returns the raw line (text = `text line`) -/
def readline (end_ : Bytes) (timeout : Option Nat) (s : St) : Res Bytes :=
  readlineLoop (fuelFor s) end_ [] s.now timeout s

structure ExpectRes where
  idx : Nat
  s : Nat          -- match start
  e : Nat          -- match end
  buf : Bytes      -- everything consumed
  deriving Repr, BEq, Inhabited

/-- first pattern (lowest index) that matches `buf` -/
def firstMatch (buf : Bytes) : Nat → List Pat → Option (Nat × Nat × Nat)
  | _, [] => none
  | i, p :: ps =>
    match p.search buf with
    | some (a, b) => some (i, a, b)
    | none => firstMatch buf (i + 1) ps

def expectLoop : Nat → List Pat → Bytes → RI → St → Res ExpectRes
  | 0, _, _, _, s => (.error .fuel, s)
  | f + 1, pats, buf, ri, s =>
    match riNext ri s with
    | (.done, _, s) => (.error .assertion, s)   -- "reached end of stream"; max is unbounded
    | (.err e, _, s) => (.error e, s)
    | (.chunk b, ri, s) =>
      let buf := buf ++ b
      match firstMatch buf 0 pats with
      | some (i, a, e) => (.ok { idx := i, s := a, e := e, buf := buf }, s)
      | none => expectLoop f pats buf ri s

/-- `Channel.expect(patterns, timeout)` -/
def expect (pats : List Pat) (timeout : Option Nat) (s : St) : Res ExpectRes :=
  expectLoop (fuelFor s) pats [] (riStart none timeout s) s

/-- what `with_prompt` installs: a regex gets end-anchored -/
def anchor : Pat → Pat
  | .lit b => .lit b
  | .re r => .re (.seq r .eos)

/-- does `buf` end with the prompt now?  Returns the length of the data before it. -/
def promptEnd (p : Pat) (buf : Bytes) : Option Nat :=
  match p with
  | .lit b => if b.isSuffixOf buf then some (buf.length - b.length) else none
  | .re r => (r.search buf).map (·.1)

def rupLoop : Nat → Bytes → RI → St → Res (Bytes × Bytes)
  | 0, _, _, s => (.error .fuel, s)
  | f + 1, buf, ri, s =>
    match riNext ri s with
    | (.done, _, s) => (.error .assertion, s)
    | (.err e, _, s) => (.error e, s)
    | (.chunk b, ri, s) =>
      let buf := buf ++ b
      match s.prompt with
      | none => rupLoop f buf ri s
      | some p =>
        match promptEnd p buf with
        | some n => (.ok (buf.take n, buf), s)
        | none => rupLoop f buf ri s

/-- `Channel.read_until_prompt(prompt, timeout)`: returns (bytes before the prompt, all
    bytes consumed).  A per-call prompt is installed for the duration of the call. -/
def readUntilPrompt (prompt : Option Pat) (timeout : Option Nat) (s : St) :
    Res (Bytes × Bytes) :=
  let prev := s.prompt
  let s := match prompt with
    | none => s
    | some p => { s with prompt := some (anchor p) }
  let (r, s) := rupLoop (fuelFor s) [] (riStart none timeout s) s
  (r, match prompt with | none => s | some _ => { s with prompt := prev })

/-- `Channel.read_until_timeout(timeout)` -/
def readUntilTimeout (timeout : Option Nat) (s : St) : Res Bytes :=
  match riTake (fuelFor s) none (riStart none timeout s) s [] with
  | ((cs, some .timeout), s) => (.ok cs.flatten, s)
  | ((_, some e), s) => (.error e, s)
  | ((cs, none), s) => (.ok cs.flatten, s)

end Chan
