import TbotVerif.Base.Bytes
/-! The part of the kernel tty line discipline the shell drivers depend on: canonical mode with
    ICRNL, ONLCR, ECHO and (optionally) ECHOCTL.  Only *ordinary* bytes are modelled — the bytes
    with a line-editing or signal meaning (INTR, EOF, ERASE, KILL, …) are exactly what the shell
    classes put on their black-lists, and the theorems carry "no special byte" as a hypothesis. -/

namespace Tty

def CR : Byte := 13
def LF : Byte := 10
def TAB : Byte := 9

/-- bytes canonical mode treats specially (default Linux termios: ^C ^\ ^D ^Q ^S ^Z ^R ^U ^W ^V,
    DEL; ^O and ^T are not assigned on Linux) -/
def special : List Byte := [0x03, 0x1C, 0x04, 0x11, 0x13, 0x1A, 0x12, 0x15, 0x17, 0x16, 0x7F]

def isSpecial (c : Byte) : Bool := special.contains c

/-- echo of one input byte (ECHO on): CR and LF become CR LF (ICRNL + ONLCR); with ECHOCTL other
    control bytes except TAB are shown in caret notation -/
def echo1 (echoctl : Bool) (c : Byte) : Bytes :=
  if c == CR || c == LF then [CR, LF]
  else if echoctl && c < 32 && c != TAB then [94, c + 64]
  else [c]

def echo (echoctl : Bool) (inp : Bytes) : Bytes := inp.flatMap (echo1 echoctl)

/-- ONLCR: what a program writes, as it appears on the master side -/
def cook (out : Bytes) : Bytes := out.flatMap fun c => if c == LF then [CR, LF] else [c]

/-- ICRNL: what the foreground process reads for the typed bytes -/
def input (inp : Bytes) : Bytes := inp.map fun c => if c == CR then LF else c

/-- the number of echoed bytes tbot's `send(read_back=True)` expects -/
def readBackLen (chunk : Bytes) : Nat := chunk.length + chunk.count CR + chunk.count LF

end Tty
