import TbotVerif.Model.Channel
import TbotVerif.Model.Log
/-! Executable model of board bring-up (C18): the state machines of
    `tbot/machine/board/uboot.py` (`UBootAutobootIntercept._init_machine`,
    `UBootShell._init_shell`, `UBootShell.boot`) and `tbot/machine/board/linux.py`
    (`AskfirstInitializer._init_machine`, `LinuxBootLogin._init_machine`,
    `LinuxUbootConnector._connect`) on the channel model with its virtual clock, talking to a
    staged reactive console.  `PowerControl` contributes the two callbacks (its ordering is
    C13).  The modelled bring-up ends at "login complete" (the machines are composed with
    `RawShell`); the shell hand-shake that follows has no deadline and is C01's subject. -/

namespace Board

/-! ### the console -/

/-- which transport write makes the console enter a stage -/
inductive Trig where
  | any          -- any write (a key press)
  | cr           -- a write that contains a carriage return (a submitted line)
  deriving Repr, BEq, DecidableEq, Inhabited

/-- console output: pieces with the delay since the previous piece (or since the trigger) -/
abbrev Out := List (Nat × Bytes)

structure Stage where
  trig : Trig
  out : Out
  deriving Repr, BEq, Inhabited

def Trig.fires : Trig → Bytes → Bool
  | .any, _ => true
  | .cr, w => w.contains 13

/-- absolute arrival ticks for an output that starts at `now` -/
def stamp (now : Nat) : Out → List Piece
  | [] => []
  | (dt, d) :: r => ⟨now + dt, d⟩ :: stamp (now + dt) r

/-- the transport queue is ordered by arrival tick, first in first out among equals -/
def insertPiece (p : Piece) : List Piece → List Piece
  | [] => [p]
  | q :: qs => if q.tick ≤ p.tick then q :: insertPiece p qs else p :: q :: qs

def insertAll (ps : List Piece) (sc : List Piece) : List Piece :=
  ps.foldl (fun sc p => insertPiece p sc) sc

/-- the console sees one transport write at `now` -/
def react (now : Nat) (w : Bytes) (x : List Piece × List Stage) : List Piece × List Stage :=
  match x.2 with
  | [] => x
  | st :: rest => if st.trig.fires w then (insertAll (stamp now st.out) x.1, rest) else x

/-! ### configuration -/

/-- `UBootAutobootIntercept` + `UBootShell` class attributes -/
structure UbCfg where
  autoboot : Option Pat        -- `autoboot_prompt`
  keys : Bytes                 -- `autoboot_keys`
  prompt : Bytes               -- `prompt`
  timeout : Option Nat         -- `boot_timeout` (ticks)
  deriving Repr, BEq, Inhabited

/-- `AskfirstInitializer` (present iff `askfirst` is) + `LinuxBootLogin` class attributes -/
structure LnxCfg where
  askfirst : Option Bytes      -- `askfirst_prompt`
  login : Bytes                -- `login_prompt`
  delay : Nat                  -- `login_delay` (ticks)
  user : Bytes                 -- `username`
  password : Option Bytes      -- `password`
  pwPrompt : Pat               -- `password_prompt`
  noPw : Option Nat            -- `no_password_timeout` (ticks)
  timeout : Option Nat         -- `boot_timeout` (ticks)
  deriving Repr, BEq, Inhabited

/-- `ub` only: `Connector, UBootAutobootIntercept, UBootShell`; `lnx` only: `Connector,
    [AskfirstInitializer,] LinuxBootLogin, RawShell`; both: `LinuxUbootConnector, …` with
    `uboot` = the former -/
structure Case where
  chunk : Nat
  cap : Nat                    -- virtual-time cap of the harness (checked after each `time.sleep`)
  ub : Option UbCfg
  lnx : Option LnxCfg
  init : Out                   -- what the console shows after power-on
  stages : List Stage
  deriving Repr, Inhabited

/-! ### observation -/

/-- what happens at the observation points, in order -/
inductive Ev where
  | pon (t : Nat)              -- `poweron()` callback
  | poff (t : Nat)             -- `poweroff()` callback
  | rd (r : ReadRec)           -- transport read
  | wr (t : Nat) (b : Bytes)   -- transport write
  | ubReady (t : Nat)          -- `init()` hook of the U-Boot machine
  | booted (t : Nat)           -- `do_boot()` returned
  | lnxReady (t : Nat)         -- `init()` hook of the Linux machine
  deriving Repr, BEq, Inhabited

structure Obs where
  res : Option Exc             -- `none`: bring-up returned
  ubLog : Option (List Char)   -- `bootlog` of the U-Boot machine (`none`: never set)
  lnxLog : Option (List Char)  -- `bootlog` of the Linux machine
  evs : List Ev
  deriving Repr, BEq, Inhabited

/-- bring-up state: channel + transport + clock, the console stages still to come, the trace -/
structure BS where
  st : St
  con : List Stage
  evs : List Ev := []
  ubLog : Option (List Char) := none
  lnxLog : Option (List Char) := none
  deriving Inhabited

abbrev R (α : Type) := Except Exc α × BS

/-! ### primitive steps -/

/-- a reading channel method: its transport reads go to the trace -/
def rd {α : Type} (op : St → Res α) (b : BS) : R α :=
  let r := op { b.st with reads := [] }
  (r.1, { b with st := r.2, evs := b.evs ++ r.2.reads.map .rd })

/-- a writing channel method: its transport writes go to the trace and to the console -/
def wr (op : St → Res Unit) (b : BS) : R Unit :=
  let r := op { b.st with writes := [] }
  let ws := r.2.writes.map (·.1)
  let x := ws.foldl (fun x w => react r.2.now w x) (r.2.script, b.con)
  (r.1, { b with st := { r.2 with script := x.1 }, con := x.2, evs := b.evs ++ ws.map (.wr r.2.now) })

def mark (e : Nat → Ev) (b : BS) : BS := { b with evs := b.evs ++ [e b.st.now] }

/-- `time.sleep` -/
def sleep (n : Nat) (b : BS) : BS := { b with st := { b.st with now := b.st.now + n } }

/-- `EventIO.write` of one fragment the channel forwards: decode, then the `.replace` chain -/
def evText (d : Bytes) : List Char := Log.normalise (decodeReplace d)

/-- `EventIO.getvalue()` of the event attached as stream `id` -/
def logOf (id : Nat) (fwd : List (Nat × Bytes)) : List Char :=
  ((fwd.filter (·.1 == id)).map (evText ·.2)).flatten

def streamOn (id : Nat) (b : BS) : BS := { b with st := (Chan.streamEnter id true b.st).2 }
def streamOff (id : Nat) (b : BS) : BS := { b with st := Chan.streamExit id true b.st }

/-- `UBootStartupEvent.close` / `LinuxStartupEvent.close`: `bootlog = getvalue()` -/
def closeUb (b : BS) : BS := { b with ubLog := some (logOf 1 b.st.fwd) }
def closeLnx (b : BS) : BS := { b with lnxLog := some (logOf 2 b.st.fwd) }

/-- `T is not None and x > T` -/
def exceeds (x : Nat) : Option Nat → Bool
  | some T => decide (T < x)
  | none => false

/-- `_timeout_remaining()`: what is left of `boot_timeout`, `TimeoutError` when nothing is -/
def tmoRemaining (T : Option Nat) (start : Nat) (b : BS) : Except Exc (Option Nat) :=
  match Chan.remaining T start b.st.now with
  | none => .error .timeout
  | some r => .ok r

/-! ### U-Boot -/

/-- `UBootAutobootIntercept._init_machine` (`autoboot_prompt` not `None`); the startup event is
    created here, `start` is its `_timeout_start` -/
def ubAutoboot (c : UbCfg) (p : Pat) (start : Nat) (b : BS) : R Unit :=
  let b := streamOn 1 b
  let timeout := c.timeout.map fun T => T - (b.st.now - start)
  match rd (Chan.readUntilPrompt (some p) timeout) b with
  | (.error e, b) => (.error e, streamOff 1 b)
  | (.ok _, b) =>
    match wr (Chan.send c.keys false none true) b with
    | (.error e, b) => (.error e, streamOff 1 b)
    | (.ok _, b) => (.ok (), streamOff 1 b)

/-- the `while True` loop of `UBootShell._init_shell` -/
def ubLoop (T : Option Nat) (start cap : Nat) : Nat → BS → R Unit
  | 0, b => (.error .fuel, b)
  | f + 1, b =>
    if exceeds (b.st.now - start) T then (.error .timeout, b) else
    match rd (Chan.readUntilPrompt none (some Params.ubootPollRead)) b with
    | (.ok _, b) => (.ok (), b)
    | (.error .timeout, b) =>
      match wr (Chan.sendcontrol 3) b with
      | (.error e, b) => (.error e, b)
      | (.ok _, b) =>
        let b := sleep Params.ubootPollSleep b
        if cap < b.st.now then (.error .fuel, b) else ubLoop T start cap f b
    | (.error e, b) => (.error e, b)

/-- `self.ch.prompt = …` and `self.ch._write_blacklist = […]` at the top of `UBootShell._init_shell` -/
def ubSetShell (c : UbCfg) (b : BS) : BS :=
  { b with st := { b.st with prompt := some (.lit c.prompt), blacklist := Params.ubootBlacklist } }

/-- `UBootShell._init_shell` -/
def ubShell (c : UbCfg) (start cap : Nat) (b : BS) : R Unit :=
  let r := ubLoop c.timeout start cap (cap + 2) (ubSetShell c (streamOn 1 b))
  (r.1, closeUb (streamOff 1 r.2))

/-- `UBootAutobootIntercept._init_machine`: nothing happens when `autoboot_prompt` is `None` -/
def ubAutoStage (c : UbCfg) (start : Nat) (b : BS) : R Unit :=
  match c.autoboot with
  | none => (.ok (), b)
  | some p => ubAutoboot c p start b

/-- entering the U-Boot machine: `Connector`, `UBootAutobootIntercept`, `UBootShell`, `init()` -/
def ubUp (c : UbCfg) (cap : Nat) (b : BS) : R Unit :=
  match ubAutoStage c b.st.now b with
  | (.error e, b') => (.error e, b')
  | (.ok _, b') =>
    match ubShell c b.st.now cap b' with
    | (.error e, b') => (.error e, b')
    | (.ok _, b') => (.ok (), mark .ubReady b')

/-- `Channel.send(buf, read_back=True)` for a payload of one slice, the console reacting to the
    write before the echo is read -/
def sendRb (buf : Bytes) (b : BS) : R Unit :=
  match wr (Chan.send buf false none false) b with
  | (.error e, b) => (.error e, b)
  | (.ok _, b) =>
    match rd (Chan.read (some (buf.length + Chan.countNl buf)) none) b with
    | (.error e, b) => (.error e, b)
    | (.ok _, b) => (.ok (), b)

/-- `LinuxUbootConnector._connect` after the U-Boot machine is up: `do_boot` = `ub.boot("boot")` -/
def ubBoot (b : BS) : R Unit :=
  match sendRb (Params.ubootBootCmd ++ [13]) b with
  | (.error e, b) => (.error e, b)
  | (.ok _, b) => (.ok (), mark .booted b)

/-! ### Linux -/

/-- `AskfirstInitializer._init_machine`; returns `_boot_start` -/
def lnxAskfirst (c : LnxCfg) (banner : Bytes) (b : BS) : R Nat :=
  let b := streamOn 2 b
  let start := b.st.now
  match rd (Chan.expect [.lit banner] c.timeout) b with
  | (.error e, b) => (.error e, closeLnx (streamOff 2 b))
  | (.ok _, b) =>
    match wr (Chan.sendline [] false none) b with
    | (.error e, b) => (.error e, closeLnx (streamOff 2 b))
    | (.ok _, b) => (.ok start, streamOff 2 b)

/-- `self.ch.read_until_prompt(prompt=self.login_prompt, timeout=self._timeout_remaining())` -/
def lnxLoginWait (c : LnxCfg) (start : Nat) (b : BS) : R Unit :=
  match tmoRemaining c.timeout start b with
  | .error e => (.error e, b)
  | .ok rem =>
    match rd (Chan.readUntilPrompt (some (.lit c.login)) rem) b with
    | (.error e, b) => (.error e, b)
    | (.ok _, b) => (.ok (), b)

/-- the `login_delay != 0` branch -/
def lnxDelay (c : LnxCfg) (start : Nat) (b : BS) : R Unit :=
  match tmoRemaining c.timeout start b with
  | .error e => (.error e, b)
  | .ok rem =>
    if exceeds c.delay rem then (.error .timeout, b) else
    match rd (Chan.readUntilTimeout (some c.delay)) b with
    | (.error e, b) => (.error e, b)
    | (.ok _, b) =>
      match wr (Chan.sendline [] false none) b with
      | (.error e, b) => (.error e, b)
      | (.ok _, b) => lnxLoginWait c start b

/-- the time-out of the wait for the password prompt: what remains of `boot_timeout`, capped by
    `no_password_timeout` -/
def pwTimeout (noPw rem : Option Nat) : Option Nat :=
  match noPw with
  | none => rem
  | some n =>
    match rem with
    | none => some n
    | some t => some (min t n)

/-- the `password is not None` branch -/
def lnxPassword (c : LnxCfg) (pw : Bytes) (start : Nat) (b : BS) : R Unit :=
  match tmoRemaining c.timeout start b with
  | .error e => (.error e, b)
  | .ok rem =>
    match rd (Chan.readUntilPrompt (some c.pwPrompt) (pwTimeout c.noPw rem)) b with
    | (.error .timeout, b) =>
      -- `_timeout_remaining()` aborts if the boot time-out was reached; else go on without
      match tmoRemaining c.timeout start b with
      | .error e => (.error e, b)
      | .ok _ => (.ok (), b)
    | (.error e, b) => (.error e, b)
    | (.ok _, b) => wr (Chan.sendline pw false none) b

/-- the body of `LinuxBootLogin._init_machine` inside the stream attachment -/
def lnxLoginBody (c : LnxCfg) (start : Nat) (b : BS) : R Unit :=
  -- the first login wait gets the time that remains of `boot_timeout` (F10 repaired)
  match lnxLoginWait c start b with
  | (.error e, b) => (.error e, b)
  | (.ok _, b) =>
    match (if c.delay = 0 then ((.ok (), b) : R Unit) else lnxDelay c start b) with
    | (.error e, b) => (.error e, b)
    | (.ok _, b) =>
      match wr (Chan.sendline c.user false none) b with
      | (.error e, b) => (.error e, b)
      | (.ok _, b) =>
        match c.password with
        | none => (.ok (), b)
        | some pw => lnxPassword c pw start b

/-- `LinuxBootLogin._init_machine`; `start?` is `_boot_start` as `AskfirstInitializer` left it -/
def lnxLogin (c : LnxCfg) (start? : Option Nat) (b : BS) : R Unit :=
  let b := streamOn 2 b
  let start := start?.getD b.st.now
  let r := lnxLoginBody c start b
  (r.1, closeLnx (streamOff 2 r.2))

/-- `AskfirstInitializer` if it is part of the machine; returns `_boot_start` as it leaves it -/
def lnxAskStage (c : LnxCfg) (b : BS) : R (Option Nat) :=
  match c.askfirst with
  | none => (.ok none, b)
  | some banner =>
    match lnxAskfirst c banner b with
    | (.error e, b) => (.error e, b)
    | (.ok s, b) => (.ok (some s), b)

/-- the initializers and `init()` of the Linux machine (its connector has run) -/
def lnxUp (c : LnxCfg) (b : BS) : R Unit :=
  match lnxAskStage c b with
  | (.error e, b) => (.error e, b)
  | (.ok s, b) =>
    match lnxLogin c s b with
    | (.error e, b) => (.error e, b)
    | (.ok _, b) => (.ok (), mark .lnxReady b)

/-! ### the whole bring-up -/

/-- entering the machine on the powered board -/
def bringup (c : Case) (b : BS) : R Unit :=
  match c.ub, c.lnx with
  | none, none => (.error .assertion, b)
  | some u, none => ubUp u c.cap b
  | none, some l => lnxUp l b
  | some u, some l =>
    match ubUp u c.cap b with
    | (.error e, b) => (.error e, b)
    | (.ok _, b) =>
      match ubBoot b with
      | (.error e, b) => (.error e, b)
      | (.ok _, b) => lnxUp l b

/-- the board machine is up: `poweron()` was called and the console starts talking -/
def powerOn (c : Case) : BS :=
  { st := { chunk := c.chunk, script := insertAll (stamp 0 c.init) [] }, con := c.stages, evs := [.pon 0] }

def run (c : Case) : Obs :=
  let r := bringup c (powerOn c)
  let b := mark .poff r.2
  { res := (match r.1 with | .ok _ => none | .error e => some e), ubLog := b.ubLog, lnxLog := b.lnxLog, evs := b.evs }

end Board
