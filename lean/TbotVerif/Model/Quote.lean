import TbotVerif.Base.Bytes
import TbotVerif.Generated.Params
/-! Quoting: Python's `shlex.quote` (used by `Bash.escape` / `Ash.escape`) at byte level, and a
    POSIX-shell word splitter that FAILS on every hazard (anything that could trigger expansion,
    substitution, globbing, history, comments or operators), so that "splitting succeeds"
    already means "no injection".  The theorems live in `Props/Quote.lean`. -/

namespace Quote

/-- bytes `shlex.quote` leaves unquoted (letters, digits and `_ @ % + = : , . / -`); the table is re-extracted from
    the running Python into `Params.shlexSafe` -/
def safeByte (c : Byte) : Bool := Params.shlexSafe.contains c.toNat

/-- bytes that a POSIX shell reads literally when unquoted, wherever they stand in a word:
    ASCII letters, digits and `% + , - . / : = @ _` (hand-written, independent of the table) -/
def posixPlain (n : Nat) : Bool :=
  (48 ≤ n && n ≤ 57) || (65 ≤ n && n ≤ 90) || (97 ≤ n && n ≤ 122) ||
  n == 37 || n == 43 || n == 44 || n == 45 || n == 46 || n == 47 || n == 58 || n == 61 || n == 64 || n == 95

def SQ : Byte := 39   -- '
def DQ : Byte := 34   -- "
def SP : Byte := 32

def quoteBody : Bytes → Bytes
  | [] => []
  | c :: cs => if c == SQ then SQ :: DQ :: SQ :: DQ :: SQ :: quoteBody cs else c :: quoteBody cs

/-- `shlex.quote(s).encode()` for `s.encode()` -/
def shlexQuote (s : Bytes) : Bytes :=
  if s.isEmpty then [SQ, SQ]
  else if s.all safeByte then s
  else SQ :: (quoteBody s ++ [SQ])

/-- join with single blanks (`" ".join`) -/
def joinSp : List Bytes → Bytes
  | [] => []
  | [w] => w
  | w :: ws => w ++ SP :: joinSp ws

/-- `escape(*args)` for plain string arguments -/
def escape (args : List Bytes) : Bytes := joinSp (args.map shlexQuote)

inductive QS where | U | S | D deriving DecidableEq, Repr

/-- bytes that are harmless inside double quotes -/
def dqOk (c : Byte) : Bool := !(c == 36 || c == 96 || c == 92 || c == 33 || c == DQ)   -- $ ` \ ! "

/-- word splitter: quoting state, current word (if started), words so far (reversed).
    `none` = a hazard was met (or an unterminated quote). -/
def split : QS → Option Bytes → List Bytes → Bytes → Option (List Bytes)
  | .U, w, acc, [] => some (match w with | some x => (x :: acc).reverse | none => acc.reverse)
  | .S, _, _, [] => none
  | .D, _, _, [] => none
  | .U, w, acc, c :: cs =>
    if c == SP then split .U none (match w with | some x => x :: acc | none => acc) cs
    else if c == SQ then split .S (some (w.getD [])) acc cs
    else if c == DQ then split .D (some (w.getD [])) acc cs
    else if safeByte c then split .U (some (w.getD [] ++ [c])) acc cs
    else none   -- hazard: any other unquoted byte
  | .S, w, acc, c :: cs =>
    if c == SQ then split .U w acc cs else split .S (some (w.getD [] ++ [c])) acc cs
  | .D, w, acc, c :: cs =>
    if c == DQ then split .U w acc cs
    else if dqOk c then split .D (some (w.getD [] ++ [c])) acc cs
    else none

/-- the argument vector a POSIX shell derives from a command line, or `none` on any hazard -/
def posixWords (s : Bytes) : Option (List Bytes) := split .U none [] s

/-! ### Argument kinds of `LinuxShell.escape` and a one-word reader (used by `Spec.C01Q`) -/

/-- one argument of `Bash.escape` / `Ash.escape` (tbot/machine/linux/bash.py, ash.py) -/
inductive Arg where
  /-- a Python `str`, or a `linux.Path` (its `at_host` string): `shlex.quote` -/
  | str (s : Bytes)
  /-- `linux.Raw(s)` and the static tokens `Pipe`, `Then`, `AndThen`, `OrElse`, `Background`
      (tbot/machine/linux/special.py): passed verbatim -/
  | raw (s : Bytes)
  /-- the `_Stdio` redirections: `pre ++ shlex.quote(path) ++ post` -/
  | redir (pre : Bytes) (p : Bytes) (post : Bytes)
  /-- any other Python object: `TypeError` -/
  | other
  deriving Repr, DecidableEq

/-- the text one argument contributes to the command line (`none`: `TypeError`) -/
def Arg.render : Arg → Option Bytes
  | .str s => some (shlexQuote s)
  | .raw s => some s
  | .redir pre p post => some (pre ++ shlexQuote p ++ post)
  | .other => none

/-- `Bash.escape(*args)` / `Ash.escape(*args)`; `none` = `TypeError` -/
def escapeArgs (args : List Arg) : Option Bytes := (args.mapM Arg.render).map joinSp

/-- the bytes of an argument that come from the caller or from the token table (what can carry a
    black-listed byte, a CR or an LF) -/
def Arg.payload : Arg → Bytes
  | .str s => s
  | .raw s => s
  | .redir pre p post => pre ++ p ++ post
  | .other => []

/-- `any(b in blacklist for b in data)` — the test `Channel.send` applies -/
def forbidden (bl : Bytes) (data : Bytes) : Bool := data.any (fun c => bl.contains c)

/-- reads ONE shell word: quoting state, word so far, input.  Result: the word and what follows
    it (`none`: the input ended with the word; `some r`: an unquoted blank ended it, `r` follows).
    `none` on every hazard, exactly like `split`. -/
def wordAux : QS → Bytes → Bytes → Option (Bytes × Option Bytes)
  | .U, w, [] => some (w, none)
  | .S, _, [] => none
  | .D, _, [] => none
  | .U, w, c :: cs =>
    if c == SP then some (w, some cs)
    else if c == SQ then wordAux .S w cs
    else if c == DQ then wordAux .D w cs
    else if safeByte c then wordAux .U (w ++ [c]) cs
    else none
  | .S, w, c :: cs =>
    if c == SQ then wordAux .U w cs else wordAux .S (w ++ [c]) cs
  | .D, w, c :: cs =>
    if c == DQ then wordAux .U w cs
    else if dqOk c then wordAux .D (w ++ [c]) cs
    else none

/-- the first word of a command line that starts with a word (not with a blank, not empty) -/
def firstWord : Bytes → Option (Bytes × Option Bytes)
  | [] => none
  | c :: cs => if c == SP then none else wordAux .U [] (c :: cs)

/-- what a command line must consist of, position by position -/
inductive Atom where
  /-- literal text, directly followed by the next atom (redirection operator) -/
  | pre (t : Bytes)
  /-- literal text, followed by one blank or the end of the line -/
  | lit (t : Bytes)
  /-- text that the shell reads as exactly the word `s`, followed by one blank or the end -/
  | word (s : Bytes)
  deriving Repr, DecidableEq

/-- expected shape of one argument; a redirection suffix (`" 2>&1"`) starts with the separating
    blank, which the preceding `word` atom accounts for -/
def Arg.atoms : Arg → List Atom
  | .str s => [.word s]
  | .raw s => [.lit s]
  | .redir pre p post => if post.isEmpty then [.pre pre, .word p] else [.pre pre, .word p, .lit (post.drop 1)]
  | .other => []

/-- does the command line `l` consist of exactly these atoms, single blanks between them?
    Parameterised by the word reader so that the U-Boot check can reuse it. -/
def segCheck (fw : Bytes → Option (Bytes × Option Bytes)) : List Atom → Bytes → Bool
  | [], l => l.isEmpty
  | .pre t :: rest, l => t.isPrefixOf l && segCheck fw rest (l.drop t.length)
  | .lit t :: rest, l =>
    t.isPrefixOf l &&
      (match rest, l.drop t.length with
       | [], [] => true
       | [], _ :: _ => false
       | _ :: _, [] => false
       | _ :: _, c :: l' => c == SP && segCheck fw rest l')
  | .word s :: rest, l =>
    match fw l with
    | none => false
    | some (w, r) =>
      w == s &&
        (match rest, r with
         | [], none => true
         | [], some _ => false
         | _ :: _, none => false
         | _ :: _, some l' => segCheck fw rest l')

end Quote
