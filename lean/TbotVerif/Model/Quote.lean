import TbotVerif.Base.Bytes
import TbotVerif.Generated.Params
/-! Quoting: Python's `shlex.quote` (used by `Bash.escape` / `Ash.escape`) at byte level, and a
    POSIX-shell word splitter that FAILS on every hazard (anything that could trigger expansion,
    substitution, globbing, history, comments or operators), so that "splitting succeeds"
    already means "no injection".  The theorems live in `Props/Quote.lean`. -/

namespace Quote

/-- bytes `shlex.quote` leaves unquoted (letters, digits and `_ @ % + = : , . / -`); the table is re-extracted from
    the running Python into `Params.shlexSafe` -/
def safeByte (c : Byte) : Bool := Params.shlexSafe.contains c.toNat

def SQ : Byte := 39   -- '
def DQ : Byte := 34   -- "
def SP : Byte := 32

def quoteBody : Bytes → Bytes
  | [] => []
  | c :: cs => if c == SQ then SQ :: DQ :: SQ :: DQ :: SQ :: quoteBody cs else c :: quoteBody cs

/-- `shlex.quote(s).encode()` for `s.encode()` -/
def shlexQuote (s : Bytes) : Bytes :=
  if s.isEmpty then [SQ, SQ]
  else if s.all safeByte then s
  else SQ :: (quoteBody s ++ [SQ])

/-- join with single blanks (`" ".join`) -/
def joinSp : List Bytes → Bytes
  | [] => []
  | [w] => w
  | w :: ws => w ++ SP :: joinSp ws

/-- `escape(*args)` for plain string arguments -/
def escape (args : List Bytes) : Bytes := joinSp (args.map shlexQuote)

inductive QS where | U | S | D deriving DecidableEq, Repr

/-- bytes that are harmless inside double quotes -/
def dqOk (c : Byte) : Bool := !(c == 36 || c == 96 || c == 92 || c == 33 || c == DQ)   -- $ ` \ ! "

/-- word splitter: quoting state, current word (if started), words so far (reversed).
    `none` = a hazard was met (or an unterminated quote). -/
def split : QS → Option Bytes → List Bytes → Bytes → Option (List Bytes)
  | .U, w, acc, [] => some (match w with | some x => (x :: acc).reverse | none => acc.reverse)
  | .S, _, _, [] => none
  | .D, _, _, [] => none
  | .U, w, acc, c :: cs =>
    if c == SP then split .U none (match w with | some x => x :: acc | none => acc) cs
    else if c == SQ then split .S (some (w.getD [])) acc cs
    else if c == DQ then split .D (some (w.getD [])) acc cs
    else if safeByte c then split .U (some (w.getD [] ++ [c])) acc cs
    else none   -- hazard: any other unquoted byte
  | .S, w, acc, c :: cs =>
    if c == SQ then split .U w acc cs else split .S (some (w.getD [] ++ [c])) acc cs
  | .D, w, acc, c :: cs =>
    if c == DQ then split .U w acc cs
    else if dqOk c then split .D (some (w.getD [] ++ [c])) acc cs
    else none

/-- the argument vector a POSIX shell derives from a command line, or `none` on any hazard -/
def posixWords (s : Bytes) : Option (List Bytes) := split .U none [] s

end Quote
