import TbotVerif.Model.Path
/-! C12 — cases (a constructor call, a chain of path-valued operations, a list of queries on the
    result), observations, and the runner of the tbot `Path` model (`TPath.run`). -/

namespace PathM

/-- argument syntax of a case -/
inductive AArg where
  | s (x : Str)                       -- a `str`
  | t (host : Nat) (segs : List Str)  -- `linux.Path(machines[host], *segs)`
  | q (segs : List Str)               -- `pathlib.PurePosixPath(*segs)`
  | bad                               -- an `int`
  | self                              -- the current path object itself
  deriving DecidableEq, Repr, Inhabited

/-- path-valued operations -/
inductive POp where
  | parent
  | par (i : Int)                     -- `p.parents[i]`
  | withName (s : Str)
  | withStem (s : Str)
  | withSuffix (s : Str)
  | joinpath (args : List AArg)
  | div (a : AArg)                    -- `p / a`
  | rdiv (a : AArg)                   -- `a / p`
  | relativeTo (args : List AArg)
  deriving DecidableEq, Repr, Inhabited

inductive Query where
  | str | parts | name | suffix | suffixes | stem | isAbs
  | plen | plist
  | pslice (a b : Option Int)
  | op (o : POp)
  | isRel (args : List AArg)
  | «match» (pat : Str)
  | cmp (a : AArg)                    -- `==`, `<`, `<=`, `>`, `>=`, equal ⇒ equal hash
  | atHost (h : Nat)
  | escape (h : Nat)                  -- `machines[h].escape(p)`
  | redir (k : Nat) (h : Nat)         -- `machines[h].escape(Tok_k(p))`
  | bg (h : Nat) (out err : Option AArg)
  | auth (h : Option Nat)
  deriving DecidableEq, Repr, Inhabited

structure Case where
  pure : Bool                         -- `true`: plain pathlib (no hosts), `false`: tbot
  machines : List MSpec
  host : Nat
  args : List AArg
  chain : List POp
  queries : List Query
  deriving DecidableEq, Repr, Inhabited

inductive Val where
  | s (x : Str)
  | l (xs : List Str)
  | b (x : Bool)
  | n (x : Nat)
  | p (host : Nat) (str : Str) (parts : List Str)
  | ps (xs : List (Nat × Str × List Str))
  | c (eq lt le gt ge hashOk : Bool)
  deriving DecidableEq, Repr, Inhabited

inductive Res where
  | ok (v : Val)
  | err (e : Exc)
  deriving DecidableEq, Repr, Inhabited

inductive Obs where
  | fail (step : Nat) (e : Exc)       -- the constructor (step 0) or the k-th chain operation raised
  | results (rs : List Res)
  deriving DecidableEq, Repr, Inhabited

def Res.ofExcept : Except Exc Val → Res
  | .ok v => .ok v
  | .error e => .err e

/-- `==`, `<`, `<=`, `>`, `>=` from an equality flag and an ordering -/
def cmpVal (eq : Bool) (o : Ordering) (hashOk : Bool) : Val :=
  .c eq (o == .lt) (o != .gt) (o == .gt) (o != .lt) hashOk

def machOf (ms : List Mach) (h : Nat) : Mach := ms.getD h default

namespace TPath

/-- what `hash(p)` is computed from: `hash((host, path))`, `hash(host) = hash(id(host._orig))`,
    `hash(path) = hash(str(path))` -/
def hashKey (p : TP) : Nat × Str := (p.host.origId, p.path.str)

def valOf (p : TP) : Val := .p p.host.id p.path.str p.path.parts

def valsOf (ps : List TP) : Val := .ps (ps.map fun p => (p.host.id, p.path.str, p.path.parts))

/-- build the argument objects (`Path(m, *segs)` with `str` segments cannot raise) -/
def evalArg (ms : List Mach) (cur : Option TP) : AArg → TArg
  | .s x => .s x
  | .t h segs => .t { host := machOf ms h, path := PP.ofRaw segs }
  | .q segs => .q (PP.ofRaw segs)
  | .bad => .bad
  | .self => match cur with
    | some p => .t p
    | none => .bad

def applyOp (ms : List Mach) (p : TP) : POp → Except Exc TP
  | .parent => p.parent
  | .par i => p.parentsGet i
  | .withName s => p.withName s
  | .withStem s => p.withStem s
  | .withSuffix s => p.withSuffix s
  | .joinpath args => p.joinpath (args.map (evalArg ms (some p)))
  | .div a => p.truediv (evalArg ms (some p) a)
  | .rdiv a => p.rtruediv (evalArg ms (some p) a)
  | .relativeTo args => p.relativeTo (args.map (evalArg ms (some p)))

def runChain (ms : List Mach) : TP → List POp → Nat → Except (Nat × Exc) TP
  | p, [], _ => .ok p
  | p, o :: t, k =>
    match applyOp ms p o with
    | .ok p' => runChain ms p' t (k + 1)
    | .error e => .error (k, e)

/-- the other operand of a comparison must be a tbot path (anything else is `NotImplemented`,
    outside the cases) -/
def argPath (ms : List Mach) (p : TP) : AArg → Option TP
  | .t h segs => some { host := machOf ms h, path := PP.ofRaw segs }
  | .self => some p
  | _ => none

def query (ms : List Mach) (p : TP) : Query → Except Exc Val
  | .str => do let s ← p.atHost p.host; pure (.s s)
  | .parts => pure (.l p.parts)
  | .name => pure (.s p.name)
  | .suffix => pure (.s p.suffix)
  | .suffixes => pure (.l p.suffixes)
  | .stem => pure (.s p.stem)
  | .isAbs => pure (.b p.isAbsolute)
  | .plen => pure (.n p.parentsLen)
  | .plist => do let l ← p.parentsList; pure (valsOf l)
  | .pslice a b => do let l ← p.parentsSlice a b; pure (valsOf l)
  | .op o => do let r ← applyOp ms p o; pure (valOf r)
  | .isRel args => do let b ← p.isRelativeTo (args.map (evalArg ms (some p))); pure (.b b)
  | .match pat => do let b ← p.match pat; pure (.b b)
  | .cmp a =>
    match argPath ms p a with
    | some q => pure (cmpVal (p.eq q) (p.cmp q) (!(p.eq q) || hashKey p == hashKey q))
    | none => .error .typeError
  | .atHost h => do let s ← p.atHost (machOf ms h); pure (.s s)
  | .escape h => do let s ← p.escape (machOf ms h); pure (.s s)
  | .redir k h =>
    match redirToken k with
    | some (tok, both) => do let s ← p.redir tok both (machOf ms h); pure (.s s)
    | none => .error .typeError
  | .bg h out err => do
    let s ← TP.background (out.bind (argPath ms p)) (err.bind (argPath ms p)) (machOf ms h)
    pure (.s s)
  | .auth h => do let s ← p.authKey (h.map (machOf ms)); pure (.s s)

/-- run a case on the tbot `Path` model -/
def run (c : Case) : Obs :=
  let ms := buildMachines c.machines []
  match TP.new (machOf ms c.host) (c.args.map (evalArg ms none)) with
  | .error e => .fail 0 e
  | .ok p0 =>
    match runChain ms p0 c.chain 1 with
    | .error (k, e) => .fail k e
    | .ok p => .results (c.queries.map fun q => Res.ofExcept (query ms p q))

end TPath

end PathM
