/-! Bytes, hex codec, sub-list search.  Core Lean only. -/

abbrev Byte := UInt8
abbrev Bytes := List UInt8

namespace Bytes

def hexDigit (n : Nat) : Char :=
  if n < 10 then Char.ofNat (48 + n) else Char.ofNat (87 + n)

def toHex (b : Bytes) : String :=
  if b.isEmpty then "-" else
  String.ofList (b.flatMap fun x => [hexDigit (x.toNat / 16), hexDigit (x.toNat % 16)])

def hexVal (c : Char) : Option Nat :=
  if '0' ≤ c ∧ c ≤ '9' then some (c.toNat - 48)
  else if 'a' ≤ c ∧ c ≤ 'f' then some (c.toNat - 87)
  else none

def ofHexChars : List Char → Option Bytes
  | [] => some []
  | [_] => none
  | a :: b :: t => do
    let x ← hexVal a
    let y ← hexVal b
    let r ← ofHexChars t
    pure (UInt8.ofNat (x * 16 + y) :: r)

/-- "-" is the empty byte string; otherwise lower-case hex. -/
def ofHex (s : String) : Option Bytes :=
  if s == "-" then some [] else ofHexChars s.toList

def ofString (s : String) : Bytes := s.toUTF8.toList

end Bytes

/-- first index at which `pat` occurs in `buf` (Python `bytes.find`) -/
def findSub (pat : Bytes) : Bytes → Option Nat
  | [] => if pat.isEmpty then some 0 else none
  | c :: t =>
    if pat.isPrefixOf (c :: t) then some 0
    else (findSub pat t).map (· + 1)

def containsSub (pat buf : Bytes) : Bool := (findSub pat buf).isSome
