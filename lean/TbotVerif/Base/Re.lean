import TbotVerif.Base.Bytes
/-! Regex subset: classes, sequence, alternation, bounded greedy repetition, end-of-input,
    positive look-ahead.
    `M` is a backtracking matcher with Python's priorities (left alternative first, greedy
    repetition); `L` is the denotational language.  Soundness/completeness are in
    `Props/ReProps.lean`. -/

inductive Re where
  | eps
  | cls (neg : Bool) (rs : List (Byte × Byte))
  | seq (a b : Re)
  | alt (a b : Re)
  | rep (r : Re) (lo hi : Nat)   -- r{lo,hi}, greedy
  | eos                          -- `\Z`
  | la (r : Re)                  -- `(?=r)`: positive look-ahead, consumes nothing
  deriving Repr, BEq, Inhabited

namespace Re

def clsMatch (neg : Bool) (rs : List (Byte × Byte)) (c : Byte) : Bool :=
  (rs.any fun r => r.1 ≤ c && c ≤ r.2) != neg

def lit1 (c : Byte) : Re := .cls false [(c, c)]

/-- literal byte string as a regex -/
def ofBytes : Bytes → Re
  | [] => .eps
  | [c] => lit1 c
  | c :: t => .seq (lit1 c) (ofBytes t)

def noEos : Re → Bool
  | .eps => true | .cls _ _ => true
  | .seq a b => a.noEos && b.noEos
  | .alt a b => a.noEos && b.noEos
  | .rep r _ _ => r.noEos
  | .eos => false
  | .la _ => false

/-- upper bound on the length of a match (what `sre_parse…getwidth()[1]` reports) -/
def maxWidth : Re → Nat
  | .eps => 0 | .cls _ _ => 1
  | .seq a b => a.maxWidth + b.maxWidth
  | .alt a b => max a.maxWidth b.maxWidth
  | .rep r _ hi => r.maxWidth * hi
  | .eos => 0
  | .la _ => 0      -- CPython's getwidth() counts an assertion as width 0

def mrep {β} (mr : Bytes → (Bytes → Option β) → Option β) :
    Nat → Nat → Bytes → (Bytes → Option β) → Option β
  | lo, 0, s, k => if lo = 0 then k s else none
  | lo, hi+1, s, k =>
    match mr s (fun t => mrep mr (lo - 1) hi t k) with
    | some x => some x
    | none => if lo = 0 then k s else none

/-- backtracking matcher, continuation-passing; `k` receives the rest of the input -/
def M {β} : Re → Bytes → (Bytes → Option β) → Option β
  | .eps, s, k => k s
  | .cls neg rs, s, k => match s with
      | c :: t => if clsMatch neg rs c then k t else none
      | [] => none
  | .seq a b, s, k => M a s (fun t => M b t k)
  | .alt a b, s, k => match M a s k with
      | some x => some x
      | none => M b s k
  | .rep r lo hi, s, k => mrep (M r) lo hi s k
  | .eos, s, k => if s.isEmpty then k s else none
  | .la r, s, k => match M (β := PUnit) r s (fun _ => some ⟨⟩) with
      | some _ => k s
      | none => none

/-- length of the preferred match of `r` at the start of `s` -/
def matchAt (r : Re) (s : Bytes) : Option Nat :=
  M r s (fun rest => some (s.length - rest.length))

/-- `re.search`: leftmost start, preferred match there; returns (start, end) offsets -/
def searchFrom (r : Re) : Nat → Bytes → Option (Nat × Nat)
  | i, [] => (matchAt r []).map fun n => (i, i + n)
  | i, c :: t =>
    match matchAt r (c :: t) with
    | some n => some (i, i + n)
    | none => searchFrom r (i + 1) t

def search (r : Re) (s : Bytes) : Option (Nat × Nat) := searchFrom r 0 s

/-- A leading zero-width assertion on the byte BEFORE the match (`\\b` in front of a word
    character, `^` under MULTILINE, `(?<=[..])`, `(?<![..])`): the previous byte must satisfy the
    class; at the very start of the searched data the assertion's value is `atStart`. -/
structure Guard where
  neg : Bool
  rs : List (Byte × Byte)
  atStart : Bool
  deriving Repr, BEq, Inhabited

def Guard.ok (g : Guard) : Option Byte → Bool
  | none => g.atStart
  | some c => clsMatch g.neg g.rs c

/-- `re.search` for `guard ++ r`: leftmost start whose previous byte satisfies the guard and at
    which `r` matches.  `prev` is the byte before the data still to be searched. -/
def gsearchFrom (g : Guard) (r : Re) : Nat → Option Byte → Bytes → Option (Nat × Nat)
  | i, prev, [] => if g.ok prev then (matchAt r []).map fun n => (i, i + n) else none
  | i, prev, c :: t =>
    match (if g.ok prev then matchAt r (c :: t) else none) with
    | some n => some (i, i + n)
    | none => gsearchFrom g r (i + 1) (some c) t

def gsearch (g : Guard) (r : Re) (s : Bytes) : Option (Nat × Nat) := gsearchFrom g r 0 none s

/-! ### denotational semantics -/

def Lrep (L : Bytes → Prop) : Nat → Nat → Bytes → Prop
  | lo, 0, w => lo = 0 ∧ w = []
  | lo, hi+1, w => (lo = 0 ∧ w = []) ∨ ∃ u v, w = u ++ v ∧ L u ∧ Lrep L (lo - 1) hi v

/-- language of an `eos`-free expression -/
def L : Re → Bytes → Prop
  | .eps, w => w = []
  | .cls neg rs, w => ∃ c, w = [c] ∧ clsMatch neg rs c = true
  | .seq a b, w => ∃ u v, w = u ++ v ∧ L a u ∧ L b v
  | .alt a b, w => L a w ∨ L b w
  | .rep r lo hi, w => Lrep (L r) lo hi w
  | .eos, w => w = []
  | .la _, w => w = []

/-! ### wire format (prefix notation, no blanks)
    `E` eps · `Z` eos · `S`r r · `A`r r · `R`llllhhhh r (hex) · `C`n cc (lo hi)* -/

def hex2 (n : Nat) : String := String.ofList [Bytes.hexDigit (n / 16 % 16), Bytes.hexDigit (n % 16)]
def hex4 (n : Nat) : String := hex2 (n / 256) ++ hex2 (n % 256)

def toWire : Re → String
  | .eps => "E" | .eos => "Z"
  | .la r => "P" ++ toWire r
  | .seq a b => "S" ++ toWire a ++ toWire b
  | .alt a b => "A" ++ toWire a ++ toWire b
  | .rep r lo hi => "R" ++ hex4 lo ++ hex4 hi ++ toWire r
  | .cls neg rs => "C" ++ (if neg then "1" else "0") ++ hex2 rs.length ++
      String.join (rs.map fun p => hex2 p.1.toNat ++ hex2 p.2.toNat)

def hexN (cs : List Char) : Option Nat :=
  cs.foldlM (fun acc c => (Bytes.hexVal c).map (acc * 16 + ·)) 0

def parsePairs : Nat → List Char → Option (List (Byte × Byte) × List Char)
  | 0, cs => some ([], cs)
  | n+1, a :: b :: c :: d :: cs => do
    let lo ← hexN [a, b]
    let hi ← hexN [c, d]
    let (ps, rest) ← parsePairs n cs
    pure ((UInt8.ofNat lo, UInt8.ofNat hi) :: ps, rest)
  | _, _ => none

def parseWire : Nat → List Char → Option (Re × List Char)
  | 0, _ => none
  | _+1, 'E' :: cs => some (.eps, cs)
  | _+1, 'Z' :: cs => some (.eos, cs)
  | f+1, 'P' :: cs => do
    let (r, cs) ← parseWire f cs
    pure (.la r, cs)
  | f+1, 'S' :: cs => do
    let (a, cs) ← parseWire f cs
    let (b, cs) ← parseWire f cs
    pure (.seq a b, cs)
  | f+1, 'A' :: cs => do
    let (a, cs) ← parseWire f cs
    let (b, cs) ← parseWire f cs
    pure (.alt a b, cs)
  | f+1, 'R' :: a :: b :: c :: d :: e :: g :: h :: i :: cs => do
    let lo ← hexN [a, b, c, d]
    let hi ← hexN [e, g, h, i]
    let (r, cs) ← parseWire f cs
    pure (.rep r lo hi, cs)
  | _+1, 'C' :: n :: a :: b :: cs => do
    let neg ← if n == '1' then some true else if n == '0' then some false else none
    let cnt ← hexN [a, b]
    let (ps, cs) ← parsePairs cnt cs
    pure (.cls neg ps, cs)
  | _, _ => none

def ofWire (s : String) : Option Re :=
  match parseWire (s.length + 1) s.toList with
  | some (r, []) => some r
  | _ => none

end Re

/-- A search string of the channel API: literal bytes or a bounded regex. -/
inductive Pat where
  | lit (b : Bytes)
  | re (r : Re)
  deriving Repr, BEq, Inhabited

namespace Pat

/-- `len(pattern)` as the channel code computes it -/
def len : Pat → Nat
  | .lit b => b.length
  | .re r => r.maxWidth

/-- first match: `bytes.find` / `re.search` span -/
def search : Pat → Bytes → Option (Nat × Nat)
  | .lit b, s => (findSub b s).map fun i => (i, i + b.length)
  | .re r, s => r.search s

def toWire : Pat → String
  | .lit b => "L" ++ Bytes.toHex b
  | .re r => "X" ++ r.toWire

def ofWire (s : String) : Option Pat :=
  match s.toList with
  | 'L' :: cs => (Bytes.ofHex (String.ofList cs)).map .lit
  | 'X' :: cs => (Re.ofWire (String.ofList cs)).map .re
  | _ => none

end Pat
