import TbotVerif.Base.Bytes
/-! `bytes.decode("utf-8", errors="replace")` and the CR/LF normalisation tbot applies. -/

def replChar : Char := Char.ofNat 0xFFFD

@[inline] def isCont (b : Byte) : Bool := 0x80 ≤ b && b ≤ 0xBF
@[inline] def inR (lo hi b : Byte) : Bool := lo ≤ b && b ≤ hi

/-- valid range of the second byte for a 3-byte lead -/
def snd3 (b0 b1 : Byte) : Bool :=
  if b0 == 0xE0 then inR 0xA0 0xBF b1
  else if b0 == 0xED then inR 0x80 0x9F b1
  else isCont b1

/-- valid range of the second byte for a 4-byte lead (F0..F4) -/
def snd4 (b0 b1 : Byte) : Bool :=
  if b0 == 0xF0 then inR 0x90 0xBF b1
  else if b0 == 0xF4 then inR 0x80 0x8F b1
  else isCont b1

def cp2 (b0 b1 : Byte) : Char := Char.ofNat ((b0.toNat % 32) * 64 + b1.toNat % 64)
def cp3 (b0 b1 b2 : Byte) : Char :=
  Char.ofNat ((b0.toNat % 16) * 4096 + (b1.toNat % 64) * 64 + b2.toNat % 64)
def cp4 (b0 b1 b2 b3 : Byte) : Char :=
  Char.ofNat ((b0.toNat % 8) * 262144 + (b1.toNat % 64) * 4096 + (b2.toNat % 64) * 64 + b3.toNat % 64)

/-- One step of CPython's UTF-8 decoder with the `replace` error handler on a non-empty
    input: the character produced and the number of bytes consumed (one U+FFFD per maximal
    ill-formed subpart). -/
def decodeStep : Bytes → Char × Nat
  | [] => (replChar, 1)
  | b0 :: t =>
    if b0 < 0x80 then (Char.ofNat b0.toNat, 1)
    else if b0 < 0xC2 then (replChar, 1)
    else if b0 < 0xE0 then
      match t with
      | [] => (replChar, 1)
      | b1 :: _ => if isCont b1 then (cp2 b0 b1, 2) else (replChar, 1)
    else if b0 < 0xF0 then
      match t with
      | [] => (replChar, 1)
      | b1 :: t1 =>
        if snd3 b0 b1 then
          match t1 with
          | [] => (replChar, 2)
          | b2 :: _ => if isCont b2 then (cp3 b0 b1 b2, 3) else (replChar, 2)
        else (replChar, 1)
    else if b0 < 0xF5 then
      match t with
      | [] => (replChar, 1)
      | b1 :: t1 =>
        if snd4 b0 b1 then
          match t1 with
          | [] => (replChar, 2)
          | b2 :: t2 =>
            if isCont b2 then
              match t2 with
              | [] => (replChar, 3)
              | b3 :: _ => if isCont b3 then (cp4 b0 b1 b2 b3, 4) else (replChar, 3)
            else (replChar, 2)
        else (replChar, 1)
    else (replChar, 1)

def decodeFuel : Nat → Bytes → List Char
  | 0, _ => []
  | _ + 1, [] => []
  | n + 1, b :: t =>
    let r := decodeStep (b :: t)
    r.1 :: decodeFuel n ((b :: t).drop r.2)

/-- `bytes.decode("utf-8", errors="replace")` -/
def decodeReplace (b : Bytes) : List Char := decodeFuel b.length b

/-- Python `str.replace(a ++ b, r)`: left to right, non-overlapping -/
def replace2 (a b r : Char) : List Char → List Char
  | [] => []
  | [x] => [x]
  | x :: y :: t =>
    if x == a && y == b then r :: replace2 a b r t else x :: replace2 a b r (y :: t)

/-- `.replace("\r\n", "\n").replace("\n\r", "\n")` -/
def normNl (s : List Char) : List Char :=
  replace2 '\n' '\r' '\n' (replace2 '\r' '\n' '\n' s)

/-- what tbot returns as text for received bytes -/
def text (b : Bytes) : List Char := normNl (decodeReplace b)

def textHex (s : List Char) : String := Bytes.toHex (String.ofList s).toUTF8.toList
