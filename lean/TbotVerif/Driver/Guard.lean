import TbotVerif.Spec.Guard
import TbotVerif.Driver.Chan
/-! Driver commands of the guarded-prompt check (C02G).
    case: `rupg <atStart 0|1> <class wire> <regex wire> <piece,piece,...|.>` (pieces in hex)
    obs:  `t:<text as hex of UTF-8>;<k>` | `e:timeout;<k>` -/

namespace Driver.Guard
open GuardPrompt

def caseOf : List String → Option GuardPrompt.Case
  | [a, cw, rw, ps] => do
    let at_ ← if a == "1" then some true else if a == "0" then some false else none
    let (neg, rs) ← match Re.ofWire cw with
      | some (.cls neg rs) => some (neg, rs)
      | _ => none
    let r ← Re.ofWire rw
    let pieces ← if ps == "." then some [] else (ps.splitOn ",").mapM Bytes.ofHex
    if pieces.any (·.isEmpty) then none else
    pure ⟨⟨neg, rs, at_⟩, r, pieces⟩
  | _ => none

def obsStr : GuardPrompt.Obs → String
  | .text out k => "t:" ++ textHex out ++ ";" ++ toString k
  | .timeout k => "e:timeout;" ++ toString k

def obsOf : List String → Option GuardPrompt.Obs
  | [s] =>
    match s.splitOn ";" with
    | [res, k] => do
      let k ← k.toNat?
      if res == "e:timeout" then pure (.timeout k)
      else match res.toList with
        | 't' :: ':' :: h => do
          let b ← Bytes.ofHex (String.ofList h)
          let s ← String.fromUTF8? (ByteArray.mk b.toArray)
          pure (.text s.toList k)
        | _ => none
    | _ => none
  | _ => none

def handle (toks : List String) : Option String :=
  match toks with
  | "rupg" :: rest =>
    some (match caseOf rest with
      | some c => obsStr (run c)
      | none => "bad-op")
  | "spec" :: "C02G" :: rest =>
    let (c, o) := Driver.Chan.splitAt2 rest "||"
    some (match caseOf c, obsOf o with
      | some c, some o => if Spec.C02G c o then "1" else "0"
      | _, _ => "bad-op")
  | _ => none

end Driver.Guard
