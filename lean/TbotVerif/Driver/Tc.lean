/-! Driver commands of the `Tc` cluster.  `handle` returns `none` for commands that are not its own. -/
namespace Driver.Tc

def handle (_toks : List String) : Option String := none

end Driver.Tc
