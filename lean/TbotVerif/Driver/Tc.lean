import TbotVerif.Spec.Tc
/-! Driver commands of the `Tc` cluster (C16).  `handle` returns `none` for commands that are not
    its own.

    Case:  `<mode> <nest0> <node>*`, mode `ip|newbot|tbot`, nodes in pre-order, each
           `<guard><form><id>:<fin>:<number of children>` with guard `n|e|a`
           (none / `except Exception` / `except BaseException`), form `d|m|w`
           (decorator / named decorator / with-block), fin `p|x|s|k`
           (pass / Exception / SkipException / KeyboardInterrupt).
    Obs:   `<final> <nest> <item>*`, final `esc:-|x|s|k` or `exit:<n>`, items
           `B:<name>` `E:<name>:<success>:<skipped>` `I:<name>:<nest>` `Y:<name>:<how>`
           `R:<name>:<v<n>|none|unit|x|s|k>` `X:<exc>` `T:<success>`; a name is `<form><id>`. -/
namespace Driver.Tc
open _root_.Tc

def form? : Char → Option Form
  | 'd' => some .dec | 'm' => some .named | 'w' => some .ctx | _ => none

def formC : Form → String
  | .dec => "d" | .named => "m" | .ctx => "w"

def guard? : Char → Option Catch
  | 'n' => some .no | 'e' => some .exc | 'a' => some .all | _ => none

def exc? : String → Option Exc
  | "x" => some .err | "s" => some .skip | "k" => some .kbd | _ => none

def excS : Exc → String
  | .err => "x" | .skip => "s" | .kbd => "k"

def how? (s : String) : Option How :=
  if s == "-" then some none else (exc? s).map some

def howS : How → String
  | none => "-" | some e => excS e

def fin? (s : String) : Option How :=
  if s == "p" then some none else (exc? s).map some

def bool? (s : String) : Option Bool :=
  if s == "1" then some true else if s == "0" then some false else none

def boolS (b : Bool) : String := if b then "1" else "0"

/-- decimal digits only (no sign, no blanks, not empty) -/
def nat? (s : String) : Option Nat :=
  if s.toList.all Char.isDigit then s.toNat? else none

def int? (s : String) : Option Int :=
  match s.toList with
  | '-' :: cs => (nat? (String.ofList cs)).map (fun n => -(n : Int))
  | _ => (nat? s).map (fun n => (n : Int))

def name? (s : String) : Option Name :=
  match s.toList with
  | f :: cs => do pure ⟨← form? f, ← nat? (String.ofList cs)⟩
  | [] => none

def nameS (n : Name) : String := formC n.form ++ toString n.id

def ret? (s : String) : Option Ret :=
  match s.toList with
  | 'v' :: cs => (nat? (String.ofList cs)).map .val
  | _ => if s == "none" then some .none else if s == "unit" then some .unit else (exc? s).map .exc

def retS : Ret → String
  | .val v => "v" ++ toString v | .none => "none" | .unit => "unit" | .exc e => excS e

/-- head of a node: guard, form, id, fin, number of children -/
def head? (t : String) : Option (Catch × Form × Nat × How × Nat) :=
  match t.splitOn ":" with
  | [a, f, k] =>
    match a.toList with
    | g :: fm :: cs => do
      pure (← guard? g, ← form? fm, ← nat? (String.ofList cs), ← fin? f, ← nat? k)
    | _ => none
  | _ => none

/-- `n` nodes in pre-order from the front of the token list -/
def nodes? : Nat → Nat → List String → Option (List Node × List String)
  | _, 0, toks => some ([], toks)
  | 0, _ + 1, _ => none
  | _ + 1, _ + 1, [] => none
  | fuel + 1, n + 1, t :: toks => do
    let (g, f, id, fin, k) ← head? t
    let (kids, rest) ← nodes? fuel k toks
    let (sibs, rest2) ← nodes? fuel n rest
    pure (.mk f id g kids fin :: sibs, rest2)

/-- all tokens as a forest -/
def forest? : Nat → List String → Option (List Node)
  | _, [] => some []
  | 0, _ :: _ => none
  | fuel + 1, toks => do
    let (one, rest) ← nodes? (toks.length + 1) 1 toks
    if rest.length < toks.length then pure (one ++ (← forest? fuel rest)) else none

def mode? : String → Option Mode
  | "ip" => some .ip | "newbot" => some .newbot | "tbot" => some .legacy
  | "newbotk" => some .newbot   -- `newbot -k` with a kept-alive machine in use: the verdict rules are the same
  | _ => none

def case? (toks : List String) : Option Case :=
  match toks with
  | m :: n0 :: rest => do
    let c : Case := { mode := ← mode? m, nest0 := ← nat? n0, roots := ← forest? (rest.length + 1) rest }
    if c.wellformed then pure c else none
  | _ => none

def item? (t : String) : Option Item :=
  match t.splitOn ":" with
  | ["B", n] => (name? n).map .begin
  | ["E", n, a, b] => do pure (.end_ (← name? n) (← bool? a) (← bool? b))
  | ["I", n, d] => do pure (.enter (← name? n) (← int? d))
  | ["Y", n, h] => do pure (.body (← name? n) (← how? h))
  | ["R", n, r] => do pure (.ret (← name? n) (← ret? r))
  | ["X", e] => (exc? e).map .excev
  | ["T", b] => (bool? b).map .tbotEnd
  | _ => none

def itemS : Item → String
  | .begin n => "B:" ++ nameS n
  | .end_ n a b => "E:" ++ nameS n ++ ":" ++ boolS a ++ ":" ++ boolS b
  | .enter n d => "I:" ++ nameS n ++ ":" ++ toString d
  | .body n h => "Y:" ++ nameS n ++ ":" ++ howS h
  | .ret n r => "R:" ++ nameS n ++ ":" ++ retS r
  | .excev e => "X:" ++ excS e
  | .tbotEnd b => "T:" ++ boolS b

def final? (t : String) : Option Final :=
  match t.splitOn ":" with
  | ["esc", h] => (how? h).map .escaped
  | ["exit", n] => (nat? n).map .exit
  | _ => none

def finalS : Final → String
  | .escaped h => "esc:" ++ howS h
  | .exit n => "exit:" ++ toString n

def obs? (toks : List String) : Option Obs :=
  match toks with
  | f :: n :: items => do pure ⟨← items.mapM item?, ← final? f, ← int? n⟩
  | _ => none

def obsS (o : Obs) : String :=
  " ".intercalate (finalS o.fin :: toString o.nest :: o.items.map itemS)

def splitAt2 (toks : List String) (sep : String) : List String × List String :=
  (toks.takeWhile (· != sep), (toks.dropWhile (· != sep)).drop 1)

def handle (toks : List String) : Option String :=
  match toks with
  | "tc" :: rest =>
    some (match case? rest with
    | some c => obsS (run c)
    | none => "bad-op")
  | "spec" :: "C16" :: rest =>
    let (ct, ot) := splitAt2 rest "||"
    some (match case? ct, obs? ot with
    | some c, some o => if Spec.C16 c o then "1" else "0"
    | _, _ => "bad-op")
  | _ => none

end Driver.Tc
