/-! Driver commands of the `Path` cluster.  `handle` returns `none` for commands that are not its own. -/
namespace Driver.Path

def handle (_toks : List String) : Option String := none

end Driver.Path
