import TbotVerif.Base.Bytes
import TbotVerif.Spec.Path
/-! Driver commands of the `Path` cluster (C12).

    `path <mode> <machines> <host> <args> <chain> <queries>` prints the model observation
    (`mode` = `pure`: the pathlib model, `tpath`: the tbot wrapper model);
    `spec C12 <the same six tokens> || <observation tokens>` prints `1`/`0`;
    `pathquirk <six tokens>` prints `1` when the case contains the excluded `with_suffix` quirk.

    Syntax (strings are lower-case hex of their UTF-8 bytes, `-` = empty string):
    * machines: `,`-list of `n<cls>` (fresh instance of class `cls`) / `c<k>` (`machines[k].clone()`)
    * arg: `s<hex>` | `t<h>:<segs>` | `q:<segs>` | `i` | `@`; segs = `/`-list of hex, `.` = none
    * args: `,`-list of arg, `.` = none
    * op: `parent` | `par:<int>` | `wn:<hex>` | `ws:<hex>` | `wx:<hex>` | `jp:<args>` | `div:<arg>`
      | `rdiv:<arg>` | `rel:<args>`; chain = `;`-list, `.` = none; negative ints are `~3`
    * query: `str` `parts` `name` `suffix` `suffixes` `stem` `abs` `plen` `plist` `psl:<int|->:<int|->`
      `o:<op>` `isrel:<args>` `match:<hex>` `cmp:<arg>` `at:<h>` `esc:<h>` `redir:<k>:<h>`
      `bg:<h>,<arg|->,<arg|->` `auth:<h|->`; queries = `;`-list, `.` = none
    * observation: `fail:<step>:<Exc>` or one token per query (`.` for none):
      `E:<Exc>` `s:<hex>` `l:<,-list of hex|.>` `b:0/1` `n:<nat>` `p:<h>:<hex>:<parts>`
      `P:<,-list of h:hex:parts|.>` `c:<six bits>`; parts = `/`-list of hex, `.` = none. -/
namespace Driver.Path
open PathM

def strOfHex (h : String) : Option Str := do
  let b ← Bytes.ofHex h
  let s ← String.fromUTF8? (ByteArray.mk b.toArray)
  pure s.toList

def hexOfStr (s : Str) : String := Bytes.toHex (String.ofList s).toUTF8.toList

def natOf (s : String) : Option Nat := if s.isEmpty then none else s.toNat?

def intOf (s : String) : Option Int :=
  if s.startsWith "~" then (natOf (s.drop 1).toString).map (fun n => -(n : Int))
  else (natOf s).map (fun n => (n : Int))

def optIntOf (s : String) : Option (Option Int) :=
  if s == "-" then some none else (intOf s).map some

def listOf {α : Type} (sep : String) (f : String → Option α) (s : String) : Option (List α) :=
  if s == "." then some [] else (s.splitOn sep).mapM f

/-- split at the first `:` -/
def cut (s : String) : String × String :=
  match s.splitOn ":" with
  | [] => ("", "")
  | [a] => (a, "")
  | a :: rest => (a, ":".intercalate rest)

def segsOf (s : String) : Option (List Str) := listOf "/" strOfHex s

def argOf (s : String) : Option AArg :=
  if s == "i" then some .bad
  else if s == "@" then some .self
  else if s.startsWith "s" then (strOfHex (s.drop 1).toString).map .s
  else if s.startsWith "q:" then (segsOf (s.drop 2).toString).map .q
  else if s.startsWith "t" then do
    let (h, segs) := cut (s.drop 1).toString
    pure (.t (← natOf h) (← segsOf segs))
  else none

def argsOf (s : String) : Option (List AArg) := listOf "," argOf s

def opOf (s : String) : Option POp :=
  let (k, r) := cut s
  match k with
  | "parent" => if r.isEmpty then some .parent else none
  | "par" => (intOf r).map .par
  | "wn" => (strOfHex r).map .withName
  | "ws" => (strOfHex r).map .withStem
  | "wx" => (strOfHex r).map .withSuffix
  | "jp" => (argsOf r).map .joinpath
  | "div" => (argOf r).map .div
  | "rdiv" => (argOf r).map .rdiv
  | "rel" => (argsOf r).map .relativeTo
  | _ => none

def optArgOf (s : String) : Option (Option AArg) :=
  if s == "-" then some none else (argOf s).map some

def queryOf (s : String) : Option Query :=
  let (k, r) := cut s
  match k with
  | "str" => some .str | "parts" => some .parts | "name" => some .name
  | "suffix" => some .suffix | "suffixes" => some .suffixes | "stem" => some .stem
  | "abs" => some .isAbs | "plen" => some .plen | "plist" => some .plist
  | "psl" =>
    match r.splitOn ":" with
    | [a, b] => do pure (.pslice (← optIntOf a) (← optIntOf b))
    | _ => none
  | "o" => (opOf r).map .op
  | "isrel" => (argsOf r).map .isRel
  | "match" => (strOfHex r).map .match
  | "cmp" => (argOf r).map .cmp
  | "at" => (natOf r).map .atHost
  | "esc" => (natOf r).map .escape
  | "redir" =>
    match r.splitOn ":" with
    | [a, b] => do pure (.redir (← natOf a) (← natOf b))
    | _ => none
  | "bg" =>
    match r.splitOn "," with
    | [h, o, e] => do pure (.bg (← natOf h) (← optArgOf o) (← optArgOf e))
    | _ => none
  | "auth" => if r == "-" then some (.auth none) else (natOf r).map (fun h => .auth (some h))
  | _ => none

def mspecOf (s : String) : Option MSpec :=
  if s.startsWith "n" then (natOf (s.drop 1).toString).map .fresh
  else if s.startsWith "c" then (natOf (s.drop 1).toString).map .clone
  else none

def caseOf (toks : List String) : Option Case :=
  match toks with
  | [mode, ms, host, args, chain, queries] => do
    let pure_ ← (if mode == "pure" then some true else if mode == "tpath" then some false else none)
    pure { pure := pure_, machines := ← listOf "," mspecOf ms, host := ← natOf host,
           args := ← argsOf args, chain := ← listOf ";" opOf chain,
           queries := ← listOf ";" queryOf queries }
  | _ => none

/-! printing / parsing observations -/

def excStr : Exc → String
  | .valueError => "ValueError" | .typeError => "TypeError"
  | .indexError => "IndexError" | .wrongHost => "WrongHostError"

def excOf : String → Option Exc
  | "ValueError" => some .valueError | "TypeError" => some .typeError
  | "IndexError" => some .indexError | "WrongHostError" => some .wrongHost
  | _ => none

def lstStr (sep : String) (xs : List String) : String := if xs.isEmpty then "." else sep.intercalate xs

def b01 (b : Bool) : String := if b then "1" else "0"

def pathStr (h : Nat) (s : Str) (parts : List Str) : String :=
  s!"{h}:{hexOfStr s}:{lstStr "/" (parts.map hexOfStr)}"

def valStr : Val → String
  | .s x => "s:" ++ hexOfStr x
  | .l xs => "l:" ++ lstStr "," (xs.map hexOfStr)
  | .b x => "b:" ++ b01 x
  | .n x => s!"n:{x}"
  | .p h s parts => "p:" ++ pathStr h s parts
  | .ps xs => "P:" ++ lstStr "," (xs.map fun (h, s, parts) => pathStr h s parts)
  | .c a b c d e f => "c:" ++ b01 a ++ b01 b ++ b01 c ++ b01 d ++ b01 e ++ b01 f

def resStr : Res → String
  | .ok v => valStr v
  | .err e => "E:" ++ excStr e

def obsStr : Obs → String
  | .fail k e => s!"fail:{k}:{excStr e}"
  | .results rs => lstStr " " (rs.map resStr)

def bitOf : Char → Option Bool
  | '0' => some false | '1' => some true | _ => none

def pathOf (s : String) : Option (Nat × Str × List Str) :=
  match s.splitOn ":" with
  | [h, x, parts] => do pure (← natOf h, ← strOfHex x, ← segsOf parts)
  | _ => none

def resOf (s : String) : Option Res :=
  let (k, r) := cut s
  match k with
  | "E" => (excOf r).map .err
  | "s" => (strOfHex r).map (fun x => .ok (.s x))
  | "l" => (listOf "," strOfHex r).map (fun x => .ok (.l x))
  | "b" => match r with
    | "0" => some (.ok (.b false)) | "1" => some (.ok (.b true)) | _ => none
  | "n" => (natOf r).map (fun x => .ok (.n x))
  | "p" => (pathOf r).map (fun (h, x, parts) => .ok (.p h x parts))
  | "P" => (listOf "," pathOf r).map (fun xs => .ok (.ps xs))
  | "c" => match r.toList.mapM bitOf with
    | some [a, b, c, d, e, f] => some (.ok (.c a b c d e f))
    | _ => none
  | _ => none

def obsOf (toks : List String) : Option Obs :=
  match toks with
  | ["."] => some (.results [])
  | [t] =>
    if t.startsWith "fail:" then
      match t.splitOn ":" with
      | [_, k, e] => do pure (.fail (← natOf k) (← excOf e))
      | _ => none
    else (resOf t).map (fun r => .results [r])
  | _ => (toks.mapM resOf).map .results

def splitAt2 (toks : List String) (sep : String) : List String × List String :=
  (toks.takeWhile (· != sep), (toks.dropWhile (· != sep)).drop 1)

/-- `none`: not a command of this cluster -/
def handle (toks : List String) : Option String :=
  match toks with
  | "path" :: rest =>
    some (match caseOf rest with
    | some c => obsStr (PathM.run c)
    | none => "bad-op")
  | "pathquirk" :: rest =>
    some (match caseOf rest with
    | some c => b01 (!c.quirkFree)
    | none => "bad-op")
  | "pathwf" :: rest =>
    some (match caseOf rest with
    | some c => b01 c.wf
    | none => "bad-op")
  | "spec" :: "C12" :: rest =>
    let (ct, ot) := splitAt2 rest "||"
    some (match caseOf ct, obsOf ot with
    | some c, some o => b01 (Spec.C12 c o)
    | _, _ => "bad-op")
  | _ => none

end Driver.Path
