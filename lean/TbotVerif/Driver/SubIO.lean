import TbotVerif.Spec.SubIO
import TbotVerif.Model.ChanRun
/-! Driver commands of the `SubIO` cluster (C06S, auxiliary check of C06).
    `handle` returns `none` for commands that are not its own.

    case:  `<mrw> <wguard> <gone|-> <wready|-> <script> <accept> <op>*`
           script = `.` or `tick@hex,…`; accept = `.` or `n,…`;
           op = `r:<n>:<T|->:<gap>` | `w:<hex>:<gap>`
    obs:   one token per executed call `<out>/<t1>/<sel>` (`.` if there is none),
           out = `d:<hex>` | `to` | `cl` | `hang` | `w:<k>` | `wto` | `runaway` | `exc:<what>`,
           sel = `.` or `ticks,…` -/
namespace Driver.SubIO
open _root_.SubIO

def splitAt2 (toks : List String) (sep : String) : List String × List String :=
  (toks.takeWhile (· != sep), (toks.dropWhile (· != sep)).drop 1)

def op (s : String) : Option SubIO.Op :=
  match s.splitOn ":" with
  | ["r", n, t, g] => do pure (.read (← n.toNat?) (← Wire.optNat t) (← g.toNat?))
  | ["w", b, g] => do pure (.write (← Bytes.ofHex b) (← g.toNat?))
  | _ => none

def case (toks : List String) : Option SubIO.Case :=
  match toks with
  | mrw :: wg :: gone :: wr :: sc :: ac :: ops => do
    pure { mrw := ← mrw.toNat?, wguard := ← wg.toNat?, gone := ← Wire.optNat gone, wready := ← Wire.optNat wr,
           script := ← Wire.listOf Wire.piece sc, accept := ← Wire.listOf String.toNat? ac, ops := ← ops.mapM op }
  | _ => none

def out : SubIO.Out → String
  | .data b => "d:" ++ Bytes.toHex b
  | .timeout => "to"
  | .closed => "cl"
  | .hang => "hang"
  | .wrote k => s!"w:{k}"
  | .wtimeout => "wto"
  | .other => "other"

def natList (l : List Nat) : String :=
  if l.isEmpty then "." else ",".intercalate (l.map toString)

def obs1 (o : SubIO.OpObs) : String := out o.out ++ "/" ++ toString o.t1 ++ "/" ++ natList o.sel

def obs (l : List SubIO.OpObs) : String :=
  if l.isEmpty then "." else " ".intercalate (l.map obs1)

def outOf (s : String) : Option SubIO.Out :=
  match s.splitOn ":" with
  | ["d", h] => (Bytes.ofHex h).map .data
  | ["to"] => some .timeout
  | ["cl"] => some .closed
  | ["hang"] => some .hang
  | ["w", k] => k.toNat?.map .wrote
  | ["wto"] => some .wtimeout
  | ["runaway"] => some .other
  | "exc" :: _ => some .other
  | _ => none

def obs1Of (s : String) : Option SubIO.OpObs :=
  match s.splitOn "/" with
  | [o, t, sel] => do pure ⟨← outOf o, ← t.toNat?, ← Wire.listOf String.toNat? sel⟩
  | _ => none

def obsOf (toks : List String) : Option (List SubIO.OpObs) :=
  if toks == ["."] then some [] else toks.mapM obs1Of

/-- `subio <case>` → the model's observation (`bad-op` outside the domain `Case.wf`);
    `spec C06S <case> || <obs>` → `1` / `0` -/
def handle (toks : List String) : Option String :=
  match toks with
  | "subio" :: rest =>
    some (match case rest with
    | some c => if c.wf then obs (run c) else "bad-op"
    | none => "bad-op")
  | "spec" :: "C06S" :: rest =>
    let (ct, ot) := splitAt2 rest "||"
    some (match case ct, obsOf ot with
    | some c, some o => if c.wf then (if Spec.C06S c o then "1" else "0") else "bad-op"
    | _, _ => "bad-op")
  | _ => none

end Driver.SubIO
