/-! Driver commands of the `Shell` cluster.  `handle` returns `none` for commands that are not its own. -/
namespace Driver.Shell

def handle (_toks : List String) : Option String := none

end Driver.Shell
