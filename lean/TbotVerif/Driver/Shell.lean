import TbotVerif.Spec.Shell
/-! Driver commands of the `Shell` cluster.
    case:  `<bash|ash> <chunk> <cmd>*`  with  cmd = `<x|x0|t>/<pre,…>/<args,…>/<out>/<status>`
    obs:   one token per command `<val>/<argv|!>/<written>/<pieces>` with
           val = `rc:<status>:<text>` | `out:<text>` | `b0|b1` | `err:<tag>`
    `shell <case…> || <obs…>` replays the fragmentation found in the observation on the model. -/
namespace Driver.Shell
open _root_.Shell

def splitAt2 (toks : List String) (sep : String) : List String × List String :=
  (toks.takeWhile (· != sep), (toks.dropWhile (· != sep)).drop 1)

def bytesList (s : String) : Option (List Bytes) := Wire.listOf Bytes.ofHex s

def cmdOf (s : String) : Option ShCmd :=
  match s.splitOn "/" with
  | [op, pre, args, out, st] => do
    let op ← if op == "x" then some ShOp.exec else if op == "x0" then some .exec0 else if op == "t" then some .test else none
    pure { op := op, pre := ← bytesList pre, args := ← bytesList args, out := ← Bytes.ofHex out, status := ← st.toNat? }
  | _ => none

def caseOf (toks : List String) : Option ShCase :=
  match toks with
  | kind :: chunk :: cmds => do
    let ash ← if kind == "ash" then some true else if kind == "bash" then some false else none
    pure { ash := ash, chunk := ← chunk.toNat?, cmds := ← cmds.mapM cmdOf }
  | _ => none

def valStr : ShVal → String
  | .rc st out => s!"rc:{st}:{Wire.chars out}"
  | .out out => s!"out:{Wire.chars out}"
  | .bool b => if b then "b1" else "b0"
  | .err t => s!"err:{t}"

def valOf (s : String) : Option ShVal :=
  match s.splitOn ":" with
  | ["rc", st, out] => do pure (.rc (← st.toNat?) (← Wire.charsOf out))
  | ["out", out] => (Wire.charsOf out).map .out
  | ["b1"] => some (.bool true)
  | ["b0"] => some (.bool false)
  | "err" :: rest => some (.err (":".intercalate rest))
  | _ => none

def obsStr (o : CmdObs) : String :=
  "/".intercalate [valStr o.val,
    (match o.argv with | none => "!" | some a => Wire.sepBy "," (a.map Bytes.toHex)),
    Bytes.toHex o.written, Wire.sepBy "," (o.pieces.map toString)]

def obsOf (s : String) : Option CmdObs :=
  match s.splitOn "/" with
  | [v, argv, wr, ps] => do
    let argv ← if argv == "!" then some none else (bytesList argv).map some
    pure { val := ← valOf v, argv := argv, written := ← Bytes.ofHex wr, pieces := ← Wire.listOf String.toNat? ps }
  | _ => none

def handle (toks : List String) : Option String :=
  match toks with
  | "shell" :: rest =>
    let (ct, ot) := splitAt2 rest "||"
    some (match caseOf ct, ot.mapM obsOf with
    | some c, some os =>
      if os.length != c.cmds.length then "bad-op"
      else " ".intercalate ((_root_.Shell.run c (os.map CmdObs.pieces)).map obsStr)
    | _, _ => "bad-op")
  | "spec" :: "C01" :: rest =>
    let (ct, ot) := splitAt2 rest "||"
    some (match caseOf ct, ot.mapM obsOf with
    | some c, some os => if Spec.C01 c os then "1" else "0"
    | _, _ => "bad-op")
  | _ => none

end Driver.Shell
