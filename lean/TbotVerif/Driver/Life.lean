import TbotVerif.Spec.Life
/-! Driver commands of the `Life` cluster (C13).  `handle` returns `none` for commands that are not its own. -/
namespace Driver.Life
open _root_.Life

def splitAt2 (toks : List String) (sep : String) : List String × List String :=
  (toks.takeWhile (· != sep), (toks.dropWhile (· != sep)).drop 1)

/-- `life <case>` → the model's observation (`bad-op` outside the domain `Case.wf`);
    `spec C13 <case> || <obs>` → `1` / `0` -/
def handle (toks : List String) : Option String :=
  match toks with
  | "life" :: rest =>
    some (match Wire.case rest with
    | some c => if c.wf then Wire.obs (run c) else "bad-op"
    | none => "bad-op")
  | "spec" :: "C13" :: rest =>
    let (ct, ot) := splitAt2 rest "||"
    some (match Wire.case ct, Wire.obsOf ot with
    | some c, some o => if c.wf then (if Spec.C13 c o then "1" else "0") else "bad-op"
    | _, _ => "bad-op")
  | _ => none

end Driver.Life
