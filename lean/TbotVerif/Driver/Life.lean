/-! Driver commands of the `Life` cluster.  `handle` returns `none` for commands that are not its own. -/
namespace Driver.Life

def handle (_toks : List String) : Option String := none

end Driver.Life
