import TbotVerif.Spec.Env
/-! Driver commands of the `Env` cluster (C09).
    case:  `<bash|ash> <chunk> <cwd> <prog token>*`  with prog tokens
           `s:<name>:<value>`  `g:<name>`  `p:<pre,…>:<name>`  `c:<dir>`  `w`  `o:<letter>:<0|1>`  `O`
           `e:<arg>`  `x:<pre,…>:<args,…>:<out>:<status>`  `!` (raise)  `[` / `[?` … `]` (subshell block,
           `[?` = the block is wrapped in try/except)                       (all strings in hex)
    obs:   one token per executed step `<kind>=<val>/<written>/<pieces>` and a final `end:<outcome>`;
           val = `ok` | `s:<text>` | `f:<letters>` | `v:<value>` / `v:!` | `rc:<status>:<text>:<argv|!>` | `err:<tag>`
    `env <case…> || <obs…>` replays the fragmentation found in the observation on the model;
    `envwf <case…>` says whether the case is in the domain of the theorems (`Env.Case.wf`). -/
namespace Driver.Env
open _root_.Env

def splitAt2 (toks : List String) (sep : String) : List String × List String :=
  (toks.takeWhile (· != sep), (toks.dropWhile (· != sep)).drop 1)

def bytesList (s : String) : Option (List Bytes) := Wire.listOf Bytes.ofHex s

def byte1 (s : String) : Option Byte :=
  match Bytes.ofHex s with
  | some [c] => some c
  | _ => none

def opOf (s : String) : Option Env.Op :=
  match s.splitOn ":" with
  | ["s", n, v] => do pure (.set (← Bytes.ofHex n) (← Wire.charsOf v))
  | ["g", n] => (Bytes.ofHex n).map .get
  | ["p", pre, n] => do pure (.probe (← bytesList pre) (← Bytes.ofHex n))
  | ["c", d] => (Bytes.ofHex d).map .cd
  | ["w"] => some .pwd
  | ["o", c, b] => do pure (.setopt (← byte1 c) (← Wire.bool b))
  | ["O"] => some .getopt
  | ["e", a] => (Wire.charsOf a).map .echo
  | ["x", pre, args, out, st] => do
    pure (.run (← bytesList pre) (← bytesList args) (← Bytes.ofHex out) (← st.toNat?))
  | _ => none

/-- a sequence up to (not including) the closing `]` or the end of the input -/
def progOf : Nat → List String → Option (Prog × List String)
  | 0, _ => none
  | _ + 1, [] => some (.done, [])
  | f + 1, t :: ts =>
    if t == "]" then some (.done, t :: ts)
    else if t == "!" then
      match ts with
      | [] => some (.raise, [])
      | u :: us => if u == "]" then some (.raise, u :: us) else none
    else if t == "[" || t == "[?" then
      match progOf f ts with
      | some (body, u :: us) =>
        if u == "]" then (progOf f us).map fun (k, rest) => (.sub (t == "[?") body k, rest) else none
      | _ => none
    else match opOf t with
      | none => none
      | some o => (progOf f ts).map fun (k, rest) => (.op o k, rest)

def caseOf (toks : List String) : Option Env.Case :=
  match toks with
  | kind :: chunk :: cwd :: prog => do
    let ash ← if kind == "ash" then some true else if kind == "bash" then some false else none
    let (p, rest) ← progOf (prog.length + 1) prog
    if !rest.isEmpty then none
    pure { ash := ash, chunk := ← chunk.toNat?, cwd := ← Bytes.ofHex cwd, prog := p }
  | _ => none

def kinds : List (Kind × String) :=
  [(.set, "set"), (.get, "get"), (.probe, "probe"), (.cd, "cd"), (.pwd, "pwd"), (.setopt, "setopt"),
   (.getopt, "getopt"), (.echo, "echo"), (.run, "run"), (.enter, "enter"), (.exit, "exit"), (.raise, "raise")]

def kindStr (k : Kind) : String := ((kinds.find? (·.1 == k)).map (·.2)).getD "?"
def kindOfStr (s : String) : Option Kind := (kinds.find? (·.2 == s)).map (·.1)

def valStr : Val → String
  | .ok => "ok"
  | .str s => s!"s:{Wire.chars s}"
  | .opts l => s!"f:{Bytes.toHex l}"
  | .env none => "v:!"
  | .env (some v) => s!"v:{Bytes.toHex v}"
  | .rc st out argv =>
    s!"rc:{st}:{Wire.chars out}:" ++ (match argv with | none => "!" | some a => Wire.sepBy "," (a.map Bytes.toHex))
  | .err t => s!"err:{t}"

def valOfStr (s : String) : Option Val :=
  match s.splitOn ":" with
  | ["ok"] => some .ok
  | ["s", t] => (Wire.charsOf t).map .str
  | ["f", l] => (Bytes.ofHex l).map .opts
  | ["v", v] => if v == "!" then some (.env none) else (Bytes.ofHex v).map (.env ∘ some)
  | ["rc", st, out, argv] => do
    let argv ← if argv == "!" then some none else (bytesList argv).map some
    pure (.rc (← st.toNat?) (← Wire.charsOf out) argv)
  | "err" :: rest => some (.err (":".intercalate rest))
  | _ => none

/-- steps whose wire traffic is not compared (it depends on the terminal size, on the shell's
    version banner, on how often `wait_for_shell` had to ask) -/
def unlogged (k : Kind) : Bool := k == .enter || k == .exit || k == .getopt || k == .raise

def obsStr (o : Obs) : String :=
  kindStr o.kind ++ "=" ++ valStr o.val ++ "/" ++
    (if unlogged o.kind then "-/." else Bytes.toHex o.written ++ "/" ++ Wire.sepBy "," (o.pieces.map toString))

def obsOf (s : String) : Option Obs :=
  match s.splitOn "=" with
  | [k, rest] =>
    match rest.splitOn "/" with
    | [v, wr, ps] => do
      pure { kind := ← kindOfStr k, val := ← valOfStr v, written := ← Bytes.ofHex wr,
             pieces := ← Wire.listOf String.toNat? ps }
    | _ => none
  | _ => none

def outcomeStr : Outcome → String
  | .normal => "end:normal"
  | .raised t => s!"end:raised:{t}"

def outcomeOf (s : String) : Option Outcome :=
  match s.splitOn ":" with
  | ["end", "normal"] => some .normal
  | "end" :: "raised" :: rest => some (.raised (":".intercalate rest))
  | _ => none

def allObsOf (toks : List String) : Option (List Obs × Outcome) :=
  match toks.reverse with
  | [] => none
  | last :: revInit => do pure (← revInit.reverse.mapM obsOf, ← outcomeOf last)

def allObsStr (o : List Obs × Outcome) : String := " ".intercalate (o.1.map obsStr ++ [outcomeStr o.2])

/-- the oracle of a replay: the piece sizes of every step that talks to the remote -/
def oracleOf (obs : List Obs) : List (List Nat) := (obs.filter (·.kind != .raise)).map (·.pieces)

def handle (toks : List String) : Option String :=
  match toks with
  | "env" :: rest =>
    let (ct, ot) := splitAt2 rest "||"
    some (match caseOf ct with
    | none => "bad-op"
    | some c =>
      if ot.isEmpty then allObsStr (run c [])
      else match allObsOf ot with
        | some os => allObsStr (run c (oracleOf os.1))
        | none => allObsStr (run c []))
  | "envwf" :: rest =>
    -- is the case in the domain of `C09.spec_holds`?
    some (match caseOf rest with
    | some c => if c.wf then "1" else "0"
    | none => "bad-op")
  | "spec" :: "C09" :: rest =>
    let (ct, ot) := splitAt2 rest "||"
    some (match caseOf ct, allObsOf ot with
    | some c, some os => if Spec.C09 c os then "1" else "0"
    | _, _ => "bad-op")
  | _ => none

end Driver.Env
