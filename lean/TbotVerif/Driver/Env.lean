/-! Driver commands of the `Env` cluster.  `handle` returns `none` for commands that are not its own. -/
namespace Driver.Env

def handle (_toks : List String) : Option String := none

end Driver.Env
