import TbotVerif.Spec.Board
import TbotVerif.Model.ChanRun
/-! Driver commands of the `Board` cluster (C18).  `handle` returns `none` for commands that are not its own.

    case  = <chunk> <cap> <ub|-> <lnx|-> <init> <stage>*
      ub    = <autoboot Pat|~>;<keys hex>;<prompt hex>;<boot_timeout|->
      lnx   = <askfirst hex|~>;<login hex>;<login_delay>;<user hex>;<password hex|~>;<password Pat>;
              <no_password_timeout|->;<boot_timeout|->
      init  = <dt>@<hex>,… | .        stage = <a|c>:<dt>@<hex>,… (`.` = no output)
    obs   = <ok|exception tag> <uboot bootlog chars|~> <linux bootlog chars|~> <event>*
      event = on/<t> off/<t> u/<t> b/<t> l/<t> r/<n>/<timeout|->/<t0>/<t1>/<hex|!> w/<t>/<hex>
    `board <case>` → obs of the model; `spec C18 <case> || <obs>` → 1/0; `coop <case>` → 1/0 (`Spec.coopB`) -/
namespace Driver.Board
open _root_.Board

def optHex (s : String) : Option (Option Bytes) :=
  if s == "~" then some none else (Bytes.ofHex s).map some

def outPiece (s : String) : Option (Nat × Bytes) :=
  match s.splitOn "@" with
  | [t, h] => do
    let t ← t.toNat?
    let h ← Bytes.ofHex h
    if h.isEmpty then none else pure (t, h)
  | _ => none

def out (s : String) : Option Out := Wire.listOf outPiece s

def stage (s : String) : Option Stage :=
  match s.splitOn ":" with
  | ["a", o] => (out o).map (Stage.mk .any)
  | ["c", o] => (out o).map (Stage.mk .cr)
  | _ => none

def ubCfg (s : String) : Option (Option UbCfg) :=
  if s == "-" then some none else
  match s.splitOn ";" with
  | [a, k, p, t] => do
    let a ← if a == "~" then some none else (Pat.ofWire a).map some
    pure (some { autoboot := a, keys := ← Bytes.ofHex k, prompt := ← Bytes.ofHex p, timeout := ← Wire.optNat t })
  | _ => none

def lnxCfg (s : String) : Option (Option LnxCfg) :=
  if s == "-" then some none else
  match s.splitOn ";" with
  | [a, l, d, u, p, pp, n, t] => do
    pure (some { askfirst := ← optHex a, login := ← Bytes.ofHex l, delay := ← d.toNat?, user := ← Bytes.ofHex u,
                 password := ← optHex p, pwPrompt := ← Pat.ofWire pp, noPw := ← Wire.optNat n,
                 timeout := ← Wire.optNat t })
  | _ => none

def case (toks : List String) : Option _root_.Board.Case :=
  match toks with
  | ch :: cap :: ub :: lnx :: ini :: sts => do
    let ub ← ubCfg ub
    let lnx ← lnxCfg lnx
    if ub.isNone && lnx.isNone then none else
    pure { chunk := ← ch.toNat?, cap := ← cap.toNat?, ub := ub, lnx := lnx, init := ← out ini,
           stages := ← sts.mapM stage }
  | _ => none

def ev : Ev → String
  | .pon t => s!"on/{t}" | .poff t => s!"off/{t}"
  | .ubReady t => s!"u/{t}" | .booted t => s!"b/{t}" | .lnxReady t => s!"l/{t}"
  | .rd r => "r/" ++ Wire.readRec r
  | .wr t b => s!"w/{t}/{Bytes.toHex b}"

def evOf (s : String) : Option Ev :=
  match s.splitOn "/" with
  | ["on", t] => t.toNat?.map .pon
  | ["off", t] => t.toNat?.map .poff
  | ["u", t] => t.toNat?.map .ubReady
  | ["b", t] => t.toNat?.map .booted
  | ["l", t] => t.toNat?.map .lnxReady
  | ["w", t, b] => do pure (.wr (← t.toNat?) (← Bytes.ofHex b))
  | ["r", n, t, a, b, d] => (Wire.readRecOf ("/".intercalate [n, t, a, b, d])).map .rd
  | _ => none

def log : Option (List Char) → String
  | none => "~"
  | some t => Wire.chars t

def logOf (s : String) : Option (Option (List Char)) :=
  if s == "~" then some none else (Wire.charsOf s).map some

def obs (o : Obs) : String :=
  " ".intercalate ((match o.res with | none => "ok" | some e => Wire.exc e) :: log o.ubLog :: log o.lnxLog :: o.evs.map ev)

def obsOf (toks : List String) : Option Obs :=
  match toks with
  | r :: u :: l :: es => do
    let r ← if r == "ok" then some none else (Wire.excOf r).map some
    pure { res := r, ubLog := ← logOf u, lnxLog := ← logOf l, evs := ← es.mapM evOf }
  | _ => none

def splitAt2 (toks : List String) (sep : String) : List String × List String :=
  (toks.takeWhile (· != sep), (toks.dropWhile (· != sep)).drop 1)

def handle (toks : List String) : Option String :=
  match toks with
  | "board" :: rest =>
    some (match case rest with
    | some c => obs (run c)
    | none => "bad-op")
  | "coop" :: rest =>
    some (match case rest with
    | some c => if Spec.coopB c then "1" else "0"
    | none => "bad-op")
  | "spec" :: "C18" :: rest =>
    let (ct, ot) := splitAt2 rest "||"
    some (match case ct, obsOf ot with
    | some c, some o => if Spec.C18 c o then "1" else "0"
    | _, _ => "bad-op")
  | _ => none

end Driver.Board
