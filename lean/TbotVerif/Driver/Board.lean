/-! Driver commands of the `Board` cluster.  `handle` returns `none` for commands that are not its own. -/
namespace Driver.Board

def handle (_toks : List String) : Option String := none

end Driver.Board
