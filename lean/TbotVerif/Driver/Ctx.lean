import TbotVerif.Model.CtxWire
/-! Driver commands of the `Ctx` cluster (C14, C15).  `handle` returns `none` for commands that are
    not its own.
      `ctx <case>`                  observation of the implementation model
      `ctxref <case>`               observation of the reference model `RefCtx`
      `spec C14|C15 <case> || <obs>`  the Spec evaluated on the given observation -/
namespace Driver.Ctx

def splitAt2 (toks : List String) (sep : String) : List String × List String :=
  (toks.takeWhile (· != sep), (toks.dropWhile (· != sep)).drop 1)

def specOf (id : String) : Option (Ctx.Case → List Ctx.Ev → Bool) :=
  match id with
  | "C14" => some Spec.C14 | "C15" => some Spec.C15
  | _ => none

def handle (toks : List String) : Option String :=
  match toks with
  | "ctx" :: rest =>
    some (match Ctx.Wire.case rest with
    | some c => Ctx.Wire.obs (Ctx.run c)
    | none => "bad-op")
  | "ctxref" :: rest =>
    some (match Ctx.Wire.case rest with
    | some c => Ctx.Wire.obs (Ctx.Ref.run c)
    | none => "bad-op")
  | "spec" :: id :: rest =>
    match specOf id with
    | none => none
    | some f =>
      let (ct, ot) := splitAt2 rest "||"
      some (match Ctx.Wire.case ct, Ctx.Wire.obsOf ot with
      | some c, some o => if f c o then "1" else "0"
      | _, _ => "bad-op")
  | _ => none

end Driver.Ctx
