/-! Driver commands of the `Ctx` cluster.  `handle` returns `none` for commands that are not its own. -/
namespace Driver.Ctx

def handle (_toks : List String) : Option String := none

end Driver.Ctx
