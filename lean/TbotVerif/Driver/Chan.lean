import TbotVerif.Spec.Chan
import TbotVerif.Spec.Own
/-! Driver commands of the channel cluster (C02–C08). -/
namespace Driver.Chan

def splitAt2 (toks : List String) (sep : String) : List String × List String :=
  (toks.takeWhile (· != sep), (toks.dropWhile (· != sep)).drop 1)

def specOf (id : String) : Option (Case → List OpObs × Bytes → Bool) :=
  match id with
  | "C02" => some Spec.C02 | "C03" => some Spec.C03 | "C04" => some Spec.C04 | "C05" => some Spec.C05 | "C08" => some Spec.C08 | "C06" => some Spec.C06
  | _ => none

namespace OwnWire
open Own

def optHex (s : String) : Option (Option Bytes) :=
  if s == "none" then some none else (Bytes.ofHex s).map some

def op (s : String) : Option Own.Op :=
  match s.splitOn ":" with
  | ["io", h] => h.toNat?.map .io
  | ["closed", h] => h.toNat?.map .closed
  | ["close", h] => h.toNat?.map .close
  | ["exit", h] => h.toNat?.map .exit
  | ["b+", h] => h.toNat?.map .borrowEnter
  | ["b-"] => some .borrowExit
  | ["take", h] => h.toNat?.map .take
  | ["sp", h, p] => do pure (.setPrompt (← h.toNat?) (← optHex p))
  | ["sbl", h, b] => do pure (.setBlacklist (← h.toNat?) (← Bytes.ofHex b))
  | ["ad", h, d, e] => do pure (.addDeath (← h.toNat?) (← Bytes.ofHex d) (← e.toNat?))
  | ["ss", h, d, c] => do pure (.setSlow (← h.toNat?) (← Wire.optNat d) (← c.toNat?))
  | ["cfg", h] => h.toNat?.map .getCfg
  | _ => none

def cfg (c : HCfg) : String :=
  "c/" ++ (match c.prompt with | none => "none" | some p => Bytes.toHex p) ++ "/" ++ Bytes.toHex c.blacklist ++ "/"
    ++ Wire.sepBy "+" (c.deaths.map fun d => s!"{Bytes.toHex d.1}.{d.2}") ++ "/" ++ Wire.natOpt c.slowDelay
    ++ "/" ++ toString c.slowChunk

def cfgOf (f : List String) : Option HCfg :=
  match f with
  | ["c", p, bl, ds, sd, sc] => do
    let one (d : String) : Option (Bytes × Nat) :=
      match d.splitOn "." with
      | [x, e] => do pure (← Bytes.ofHex x, ← e.toNat?)
      | _ => none
    let ds ← if ds == "." then some [] else (ds.splitOn "+").mapM one
    pure { prompt := ← optHex p, blacklist := ← Bytes.ofHex bl, deaths := ds, slowDelay := ← Wire.optNat sd,
           slowChunk := ← sc.toNat? }
  | _ => none

def res : Res → String
  | .ok => "ok" | .errBorrowed => "eb" | .errTaken => "et"
  | .bool b => if b then "b1" else "b0"
  | .new h => s!"n{h}"
  | .cfg c => cfg c
  | .badop => "badop"

def resOf (s : String) : Option Res :=
  if s == "ok" then some .ok else if s == "eb" then some .errBorrowed else if s == "et" then some .errTaken
  else if s == "b1" then some (.bool true) else if s == "b0" then some (.bool false)
  else if s == "badop" then some .badop
  else if s.startsWith "n" then (s.drop 1).toNat?.map .new
  else (cfgOf (s.splitOn "/")).map .cfg

def obs (o : Obs) : String := s!"{res o.res};{if o.ioClosed then 1 else 0};{o.closeCalls}"

def obsOf (s : String) : Option Obs :=
  match s.splitOn ";" with
  | [r, c, n] => do pure { res := ← resOf r, ioClosed := ← Wire.bool c, closeCalls := ← n.toNat? }
  | _ => none

end OwnWire

def logPair (s : String) : Option (List Char × List Char) :=
  match s.splitOn "/" with
  | [a, b] => do pure (← Wire.charsOf a, ← Wire.charsOf b)
  | _ => none

/-- `none`: not a command of this cluster -/
def handle (toks : List String) : Option String :=
  match toks with
  | ["text", h] =>
    some (match Bytes.ofHex h with
    | some b => Wire.chars (text b)
    | none => "bad-op")
  | ["decode", h] =>
    some (match Bytes.ofHex h with
    | some b => Wire.chars (decodeReplace b)
    | none => "bad-op")
  | ["search", p, h] =>
    some (match Pat.ofWire p, Bytes.ofHex h with
    | some p, some b =>
      match p.search b with
      | some (a, e) => s!"{a} {e}"
      | none => "none"
    | _, _ => "bad-op")
  | "chan" :: rest =>
    some (match Wire.case rest with
    | some c => Wire.obs (Chan.run c)
    | none => "bad-op")
  | "chanlog" :: rest =>
    -- consumer-level C08: the expected log of every command is the output it returned
    let (_, ot) := splitAt2 rest "||"
    some (match ot.mapM logPair with
    | some ps => " ".intercalate (ps.map fun p =>
        Wire.chars p.1 ++ "/" ++ (if p.1.filter (· != '\r') == p.2.filter (· != '\r') then Wire.chars p.2 else Wire.chars p.1))
    | none => "bad-op")
  | "spec" :: "C08X" :: rest =>
    let (_, ot) := splitAt2 rest "||"
    some (match ot.mapM logPair with
    | some ps => if Spec.consumerLog ps then "1" else "0"
    | none => "bad-op")
  | "own" :: rest =>
    some (match rest.mapM OwnWire.op with
    | some ops => " ".intercalate ((Own.run {} ops).map OwnWire.obs)
    | none => "bad-op")
  | "spec" :: "C07" :: rest =>
    let (ct, ot) := splitAt2 rest "||"
    some (match ct.mapM OwnWire.op, ot.mapM OwnWire.obsOf with
    | some ops, some o => if Spec.C07 ops o then "1" else "0"
    | _, _ => "bad-op")
  | "spec" :: id :: rest =>
    match specOf id with
    | none => none
    | some f =>
      let (ct, ot) := splitAt2 rest "||"
      some (match Wire.case ct, Wire.obsOf ot with
      | some c, some o => if f c o then "1" else "0"
      | _, _ => "bad-op")
  | _ => none

end Driver.Chan
