import TbotVerif.Spec.Chan
/-! Driver commands of the channel cluster (C02–C08). -/
namespace Driver.Chan

def splitAt2 (toks : List String) (sep : String) : List String × List String :=
  (toks.takeWhile (· != sep), (toks.dropWhile (· != sep)).drop 1)

def specOf (id : String) : Option (Case → List OpObs × Bytes → Bool) :=
  match id with
  | "C02" => some Spec.C02 | "C03" => some Spec.C03 | "C04" => some Spec.C04 | "C05" => some Spec.C05 | "C08" => some Spec.C08 | "C06" => some Spec.C06
  | _ => none

/-- `none`: not a command of this cluster -/
def handle (toks : List String) : Option String :=
  match toks with
  | ["text", h] =>
    some (match Bytes.ofHex h with
    | some b => Wire.chars (text b)
    | none => "bad-op")
  | ["decode", h] =>
    some (match Bytes.ofHex h with
    | some b => Wire.chars (decodeReplace b)
    | none => "bad-op")
  | ["search", p, h] =>
    some (match Pat.ofWire p, Bytes.ofHex h with
    | some p, some b =>
      match p.search b with
      | some (a, e) => s!"{a} {e}"
      | none => "none"
    | _, _ => "bad-op")
  | "chan" :: rest =>
    some (match Wire.case rest with
    | some c => Wire.obs (Chan.run c)
    | none => "bad-op")
  | "spec" :: id :: rest =>
    match specOf id with
    | none => none
    | some f =>
      let (ct, ot) := splitAt2 rest "||"
      some (match Wire.case ct, Wire.obsOf ot with
      | some c, some o => if f c o then "1" else "0"
      | _, _ => "bad-op")
  | _ => none

end Driver.Chan
