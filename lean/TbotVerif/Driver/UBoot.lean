import TbotVerif.Spec.UBoot
import TbotVerif.Driver.Shell
/-! Driver commands of the `UBoot` cluster.  `handle` returns `none` for commands that are not its own.
    case:  `<prompt> <chunk> <cuts> <op>*`
             op = `<x|x0|t>/<args,…>/<out>/<status>` | `e/<var>/<value|!>`
    obs:   one token per op `<val>/<ran>/<written>/<pieces>` with
             val = `rc:<status>:<text>` | `out:<text>` | `b0|b1` | `err:<tag>`
             ran = `;`-joined `a:<word,…>` | `q` | `h:<line>`   (`.` = nothing)
    `uboot <case…>` prints the model's observation, `spec C19 <case…> || <obs…>` prints 1/0,
    `ubootv <case…> || <obs…>` the per-call verdicts (ok / stop = outside the domain / bad). -/
namespace Driver.UBoot
open _root_.UBoot

def bytesList (s : String) : Option (List Bytes) := Wire.listOf Bytes.ofHex s

def opOf (s : String) : Option UOp :=
  match s.splitOn "/" with
  | [k, args, out, st] => do
    let k ← if k == "x" then some Kind.exec else if k == "x0" then some .exec0
            else if k == "t" then some .test else none
    let args ← bytesList args
    if args.isEmpty then none else
    pure (.cmd k args (← Bytes.ofHex out) (← st.toNat?))
  | ["e", var, value] => do
    let v ← if value == "!" then some none else (Bytes.ofHex value).map some
    pure (.env (← Bytes.ofHex var) v)
  | _ => none

def caseOf (toks : List String) : Option UCase :=
  match toks with
  | prompt :: chunk :: cuts :: ops => do
    pure { prompt := ← Bytes.ofHex prompt, chunk := ← chunk.toNat?,
           cuts := ← Wire.listOf String.toNat? cuts, ops := ← ops.mapM opOf }
  | _ => none

def valStr : UVal → String
  | .rc st out => s!"rc:{st}:{Wire.chars out}"
  | .out out => s!"out:{Wire.chars out}"
  | .bool b => if b then "b1" else "b0"
  | .err t => s!"err:{t}"

def valOf (s : String) : Option UVal :=
  match s.splitOn ":" with
  | ["rc", st, out] => do pure (.rc (← st.toNat?) (← Wire.charsOf out))
  | ["out", out] => (Wire.charsOf out).map .out
  | ["b1"] => some (.bool true)
  | ["b0"] => some (.bool false)
  | "err" :: rest => some (.err (":".intercalate rest))
  | _ => none

def ranStr : Ran → String
  | .argv ws => "a:" ++ Wire.sepBy "," (ws.map Bytes.toHex)
  | .status => "q"
  | .hazard l => "h:" ++ Bytes.toHex l

def ranOf (s : String) : Option Ran :=
  match s.splitOn ":" with
  | ["a", ws] => (bytesList ws).map .argv
  | ["q"] => some .status
  | ["h", l] => (Bytes.ofHex l).map .hazard
  | _ => none

def obsStr (o : UObs) : String :=
  "/".intercalate [valStr o.val, Wire.sepBy ";" (o.ran.map ranStr), Bytes.toHex o.written,
    Wire.sepBy "," (o.pieces.map toString)]

def obsOf (s : String) : Option UObs :=
  match s.splitOn "/" with
  | [v, ran, wr, ps] => do
    let ran ← if ran == "." then some [] else (ran.splitOn ";").mapM ranOf
    pure { val := ← valOf v, ran := ran, written := ← Bytes.ofHex wr,
           pieces := ← Wire.listOf String.toNat? ps }
  | _ => none

def handle (toks : List String) : Option String :=
  match toks with
  | "uboot" :: rest =>
    some (match caseOf rest with
    | some c => " ".intercalate ((run c).map obsStr)
    | none => "bad-op")
  | "spec" :: "C19" :: rest =>
    let (ct, ot) := Driver.Shell.splitAt2 rest "||"
    some (match caseOf ct, ot.mapM obsOf with
    | some c, some os => if Spec.C19 c os then "1" else "0"
    | _, _ => "bad-op")
  | "ubootv" :: rest =>
    let (ct, ot) := Driver.Shell.splitAt2 rest "||"
    some (match caseOf ct, ot.mapM obsOf with
    | some c, some os => Wire.sepBy "," (verdicts c [] c.ops os)
    | _, _ => "bad-op")
  | _ => none

end Driver.UBoot
