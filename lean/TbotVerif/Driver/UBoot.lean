/-! Driver commands of the `UBoot` cluster.  `handle` returns `none` for commands that are not its own. -/
namespace Driver.UBoot

def handle (_toks : List String) : Option String := none

end Driver.UBoot
