import TbotVerif.Spec.Chan
/-! Line-protocol driver: one request per line on stdin, one answer per line on stdout.
    Anything malformed is answered with `bad-op` — never with a default. -/

def splitAt2 (toks : List String) (sep : String) : List String × List String :=
  (toks.takeWhile (· != sep), (toks.dropWhile (· != sep)).drop 1)

def handle (line : String) : String :=
  let toks := (line.splitOn " ").filter (· != "")
  match toks with
  | ["ping"] => "pong"
  | ["text", h] =>
    match Bytes.ofHex h with
    | some b => Wire.chars (text b)
    | none => "bad-op"
  | ["decode", h] =>
    match Bytes.ofHex h with
    | some b => Wire.chars (decodeReplace b)
    | none => "bad-op"
  | ["search", p, h] =>
    match Pat.ofWire p, Bytes.ofHex h with
    | some p, some b =>
      match p.search b with
      | some (a, e) => s!"{a} {e}"
      | none => "none"
    | _, _ => "bad-op"
  | "chan" :: rest =>
    match Wire.case rest with
    | some c => Wire.obs (Chan.run c)
    | none => "bad-op"
  | "spec" :: id :: rest =>
    let (ct, ot) := splitAt2 rest "||"
    match Wire.case ct, Wire.obsOf ot with
    | some c, some o =>
      let f : Option (Case → List OpObs × Bytes → Bool) := match id with
        | "C02" => some Spec.C02 | "C03" => some Spec.C03 | "C04" => some Spec.C04 | "C06" => some Spec.C06
        | _ => none
      match f with
      | some f => if f c o then "1" else "0"
      | none => "bad-op"
    | _, _ => "bad-op"
  | _ => "bad-op"

partial def loop (hin hout : IO.FS.Stream) : IO Unit := do
  let line ← hin.getLine
  if line.isEmpty then return ()
  let line := (line.dropEndWhile (fun c => c == '\n' || c == '\r')).toString
  hout.putStrLn (handle line)
  hout.flush
  loop hin hout

def main : IO Unit := do
  loop (← IO.getStdin) (← IO.getStdout)
