import TbotVerif.Driver.Chan
import TbotVerif.Driver.Path
import TbotVerif.Driver.Life
import TbotVerif.Driver.Ctx
import TbotVerif.Driver.Tc
import TbotVerif.Driver.Log
import TbotVerif.Driver.Ssh
import TbotVerif.Driver.Shell
import TbotVerif.Driver.Board
import TbotVerif.Driver.Quote
import TbotVerif.Driver.Env
import TbotVerif.Driver.Files
import TbotVerif.Driver.Run
import TbotVerif.Driver.UBoot
import TbotVerif.Driver.SubIO
import TbotVerif.Driver.Guard
/-! Line-protocol driver: one request per line on stdin, one answer per line on stdout.
    Anything malformed or unknown is answered with `bad-op` — never with a default. -/

def handle (line : String) : String :=
  let toks := (line.splitOn " ").filter (· != "")
  match toks with
  | ["ping"] => "pong"
  | _ => (Driver.Chan.handle toks <|> Driver.Path.handle toks <|> Driver.Life.handle toks <|> Driver.Ctx.handle toks <|> Driver.Tc.handle toks <|> Driver.Log.handle toks <|> Driver.Ssh.handle toks <|> Driver.Shell.handle toks <|> Driver.Board.handle toks <|> Driver.Quote.handle toks <|> Driver.Env.handle toks <|> Driver.Files.handle toks <|> Driver.Run.handle toks <|> Driver.UBoot.handle toks <|> Driver.SubIO.handle toks <|> Driver.Guard.handle toks).getD "bad-op"

partial def loop (hin hout : IO.FS.Stream) : IO Unit := do
  let line ← hin.getLine
  if line.isEmpty then return ()
  let line := (line.dropEndWhile (fun c => c == '\n' || c == '\r')).toString
  hout.putStrLn (handle line)
  hout.flush
  loop hin hout

def main : IO Unit := do
  loop (← IO.getStdin) (← IO.getStdout)
