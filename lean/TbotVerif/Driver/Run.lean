/-! Driver commands of the `Run` cluster.  `handle` returns `none` for commands that are not its own. -/
namespace Driver.Run

def handle (_toks : List String) : Option String := none

end Driver.Run
