import TbotVerif.Spec.Run
import TbotVerif.Driver.Shell
/-! Driver commands of the `Run` cluster.
    case:  `<bash|ash> <chunk> <pre,…> <args,…> <steps> <next> <op>*`
           steps = `.` | `<step>,…` with step = `P<hex>` | `R` | `S<ms>` | `X<status>`
           next  = `<pre,…>/<args,…>/<out>/<status>`
           op    = `s:<hex>:<rb>` | `l:<hex>:<rb>` | `c:<n>` | `ex:<t>:<pat,…>` | `rup:<pat|->:<t>` | `rut:<t>`
                   | `term` | `term0` | `raise` | `w` | `probe:<k>`
    obs:   `E=<res>/<pieces>` `O=<res>/<pieces>`* `X=<none|runtime|body|notentered>`
           `N=<val>/<argv|!>/<pieces>` | `N=-`   `I=<line,…>` | `I=~`   (line = hex, `-` empty, `!` EOF)
           res = `ok` | `t:<text>` | `x:<i>:<before>:<m>:<after>` | `term:<rc>:<text>` | `out:<text>` | `e:<tag>`
    `run <case…> || <obs…>` replays the delivery sizes found in the observation on the model. -/
namespace Driver.Run
open _root_.Run

def stepOf (s : String) : Option PStep :=
  match s.toList with
  | 'P' :: cs => (Bytes.ofHex (String.ofList cs)).map .print
  | ['R'] => some .readLine
  | 'S' :: cs => (String.ofList cs).toNat?.map .sleep
  | 'X' :: cs => (String.ofList cs).toNat?.map .exit
  | _ => none

def nextOf (s : String) : Option Shell.ShCmd :=
  match s.splitOn "/" with
  | [pre, args, out, st] => do
    pure { op := .exec, pre := ← Driver.Shell.bytesList pre, args := ← Driver.Shell.bytesList args,
           out := ← Bytes.ofHex out, status := ← st.toNat? }
  | _ => none

def opOf (s : String) : Option TOp :=
  match s.splitOn ":" with
  | ["s", b, rb] => do pure (.send (← Bytes.ofHex b) (← Wire.bool rb))
  | ["l", b, rb] => do pure (.sendline (← Bytes.ofHex b) (← Wire.bool rb))
  | ["c", n] => n.toNat?.map .sendcontrol
  | ["ex", t, ps] => do pure (.expect (← Wire.listOf Pat.ofWire ps) (← Wire.optNat t))
  | ["rup", p, t] => do
    let p ← if p == "-" then some none else (Pat.ofWire p).map some
    pure (.rup p (← Wire.optNat t))
  | ["rut", t] => (Wire.optNat t).map .rut
  | ["term"] => some .terminate
  | ["term0"] => some .terminate0
  | ["raise"] => some .raise
  | ["w"] => some .wait
  | ["probe", k] => k.toNat?.map .probe
  | _ => none

def caseOf (toks : List String) : Option Run.Case :=
  match toks with
  | kind :: chunk :: pre :: args :: steps :: next :: ops => do
    let ash ← if kind == "ash" then some true else if kind == "bash" then some false else none
    pure { ash := ash, chunk := ← chunk.toNat?, pre := ← Driver.Shell.bytesList pre,
           args := ← Driver.Shell.bytesList args, steps := ← Wire.listOf stepOf steps,
           next := ← nextOf next, ops := ← ops.mapM opOf }
  | _ => none

def tagStr (t : Tag) : String := t.name

def tagOfStr : String → Option Tag
  | "ended" => some .ended | "timeout" => some .timeout | "hang" => some .hang | "illegal" => some .illegal
  | "assert" => some .assertion | "failure" => some .failure | "borrowed" => some .borrowed
  | "invalid-retcode" => some .invalidRetcode | "other" => some .other
  | _ => none

def resStr : TRes → String
  | .unit => "ok"
  | .text t => "t:" ++ Wire.chars t
  | .expect i b m a => s!"x:{i}:{Wire.chars b}:{Wire.chars m}:{Wire.chars a}"
  | .term rc out => s!"term:{rc}:{Wire.chars out}"
  | .out out => "out:" ++ Wire.chars out
  | .err t => "e:" ++ tagStr t

def resOfStr (s : String) : Option TRes :=
  match s.splitOn ":" with
  | ["ok"] => some .unit
  | ["t", t] => (Wire.charsOf t).map .text
  | ["x", i, b, m, a] => do pure (.expect (← i.toNat?) (← Wire.charsOf b) (← Wire.charsOf m) (← Wire.charsOf a))
  | ["term", rc, out] => do pure (.term (← rc.toNat?) (← Wire.charsOf out))
  | ["out", out] => (Wire.charsOf out).map .out
  | ["e", t] => (tagOfStr t).map .err
  | _ => none

def sizesStr (l : List Nat) : String := Wire.sepBy "," (l.map toString)

def opObsStr (o : Run.OpObs) : String := resStr o.res ++ "/" ++ sizesStr o.pieces

def opObsOf (s : String) : Option Run.OpObs :=
  match s.splitOn "/" with
  | [r, ps] => do pure { res := ← resOfStr r, pieces := ← Wire.listOf String.toNat? ps }
  | _ => none

def exitStr : ExitTag → String
  | .none => "none" | .runtime => "runtime" | .body => "body" | .notEntered => "notentered"

def exitOf : String → Option ExitTag
  | "none" => some .none | "runtime" => some .runtime | "body" => some .body | "notentered" => some .notEntered
  | _ => none

def nextStr : Option NextObs → String
  | none => "-"
  | some n => "/".intercalate [Driver.Shell.valStr n.val,
      (match n.argv with | none => "!" | some a => Wire.sepBy "," (a.map Bytes.toHex)), sizesStr n.pieces]

def nextObsOf (s : String) : Option (Option NextObs) :=
  if s == "-" then some none else
  match s.splitOn "/" with
  | [v, argv, ps] => do
    let argv ← if argv == "!" then some none else (Driver.Shell.bytesList argv).map some
    pure (some { val := ← Driver.Shell.valOf v, argv := argv, pieces := ← Wire.listOf String.toNat? ps })
  | _ => none

def lineStr : Option Bytes → String
  | none => "!"
  | some b => Bytes.toHex b

def lineOfStr (s : String) : Option (Option Bytes) :=
  if s == "!" then some none else (Bytes.ofHex s).map some

def linesStr : Option (List (Option Bytes)) → String
  | none => "~"
  | some ls => Wire.sepBy "," (ls.map lineStr)

def linesOf (s : String) : Option (Option (List (Option Bytes))) :=
  if s == "~" then some none else (Wire.listOf lineOfStr s).map some

def obsStr (o : Obs) : String :=
  " ".intercalate (["E=" ++ opObsStr o.enter] ++ o.ops.map (fun x => "O=" ++ opObsStr x)
    ++ ["X=" ++ exitStr o.exit, "N=" ++ nextStr o.next, "I=" ++ linesStr o.lines])

def dropPrefix (p s : String) : Option String :=
  if s.startsWith p then some (s.drop p.length).toString else none

def obsOf (toks : List String) : Option Obs :=
  match toks with
  | e :: rest =>
    let opsT := rest.takeWhile (·.startsWith "O=")
    match rest.dropWhile (·.startsWith "O=") with
    | [x, n, i] => do
      pure { enter := ← (dropPrefix "E=" e).bind opObsOf,
             ops := ← opsT.mapM fun t => (dropPrefix "O=" t).bind opObsOf,
             exit := ← (dropPrefix "X=" x).bind exitOf,
             next := ← (dropPrefix "N=" n).bind nextObsOf,
             lines := ← (dropPrefix "I=" i).bind linesOf }
    | _ => none
  | _ => none

/-- the delivery sizes of an observation, per call: enter, operations, follow-up command -/
def piecesOf (o : Obs) : List (List Nat) :=
  [o.enter.pieces] ++ o.ops.map (·.pieces) ++ (match o.next with | some n => [n.pieces] | none => [])

def handle (toks : List String) : Option String :=
  match toks with
  | "run" :: rest =>
    let (ct, ot) := Driver.Shell.splitAt2 rest "||"
    some (match caseOf ct with
    | some c =>
      (match obsOf ot with
       | some o => obsStr (_root_.Run.run c (piecesOf o))
       | none => if ot.isEmpty then obsStr (_root_.Run.run c []) else "bad-op")
    | none => "bad-op")
  | "spec" :: "C10" :: rest =>
    let (ct, ot) := Driver.Shell.splitAt2 rest "||"
    some (match caseOf ct, obsOf ot with
    | some c, some o => if Spec.C10 c o then "1" else "0"
    | _, _ => "bad-op")
  | "explain" :: "C10" :: rest =>
    let (ct, ot) := Driver.Shell.splitAt2 rest "||"
    some (match caseOf ct, obsOf ot with
    | some c, some o => (_root_.Run.explain c o).replace " " "_"
    | _, _ => "bad-op")
  | _ => none

end Driver.Run
