/-! Driver commands of the `Ssh` cluster.  `handle` returns `none` for commands that are not its own. -/
namespace Driver.Ssh

def handle (_toks : List String) : Option String := none

end Driver.Ssh
