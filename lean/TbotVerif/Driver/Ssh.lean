import TbotVerif.Model.SshWire
import TbotVerif.Spec.Ssh
/-! Driver commands of the `Ssh` cluster (C20).  `handle` returns `none` for commands that are not its own.

* `ssh <case>`                    → canonical observation of the model
* `sshraw <case>`                 → raw observation of the model (argv as built)
* `sshcanon <raw observation>`    → the same canonicalisation applied to a recording of the implementation
* `spec C20 <case> || <canonical observation>` → `1` / `0` -/
namespace Driver.Ssh
open _root_.Ssh (observe run)

def splitAt2 (toks : List String) (sep : String) : List String × List String :=
  (toks.takeWhile (· != sep), (toks.dropWhile (· != sep)).drop 1)

/-- a case that parses is also well-formed by construction; checked all the same -/
def caseOf (toks : List String) : Option Ssh.Case :=
  match Ssh.Wire.case toks with
  | some c => if c.wf then some c else none
  | none => none

def handle (toks : List String) : Option String :=
  match toks with
  | "ssh" :: rest =>
    some (match caseOf rest with
    | some c => Ssh.Wire.obsOut (observe (run c))
    | none => "bad-op")
  | "sshraw" :: rest =>
    some (match caseOf rest with
    | some c => Ssh.Wire.rawOut (run c)
    | none => "bad-op")
  | "sshcanon" :: rest =>
    some (match Ssh.Wire.rawOf rest with
    | some o => Ssh.Wire.obsOut (observe o)
    | none => "bad-op")
  | "spec" :: "C20" :: rest =>
    let (ct, ot) := splitAt2 rest "||"
    some (match caseOf ct, Ssh.Wire.obsOf ot with
    | some c, some o => if Spec.C20 c o then "1" else "0"
    | _, _ => "bad-op")
  | _ => none

end Driver.Ssh
