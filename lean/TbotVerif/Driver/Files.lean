/-! Driver commands of the `Files` cluster.  `handle` returns `none` for commands that are not its own. -/
namespace Driver.Files

def handle (_toks : List String) : Option String := none

end Driver.Files
