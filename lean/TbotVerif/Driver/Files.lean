import TbotVerif.Spec.Files
/-! Driver commands of the `Files` cluster.
    case:  `<bash|ash> <chunk> <t|b>/<data>/<path>`   (data: UTF-8 of the text / the bytes; hex)
    obs:   `<ret>;<file|!>;<back>;<txW>;<txR>;<piecesW>;<piecesR>` with
           ret/back = `n:<k>` | `t:<text>` | `b:<bytes>` | `err:<tag>` | `skip`
    `files <case…> || <obs>` replays the fragmentation found in the observation on the model;
    `files <case…>` alone delivers every answer in one piece. -/
namespace Driver.Files
open _root_.Files

def splitAt2 (toks : List String) (sep : String) : List String × List String :=
  (toks.takeWhile (· != sep), (toks.dropWhile (· != sep)).drop 1)

def caseOf (toks : List String) : Option Files.Case :=
  match toks with
  | [kind, chunk, d] => do
    let ash ← if kind == "ash" then some true else if kind == "bash" then some false else none
    match d.splitOn "/" with
    | [k, data, path] =>
      let data ← if k == "t" then (Wire.charsOf data).map Data.text
                 else if k == "b" then (Bytes.ofHex data).map Data.bytes else none
      pure { ash := ash, chunk := ← chunk.toNat?, data := data, path := ← Bytes.ofHex path }
    | _ => none
  | _ => none

def valStr : Val → String
  | .n k => s!"n:{k}"
  | .text t => s!"t:{Wire.chars t}"
  | .bytes d => s!"b:{Bytes.toHex d}"
  | .err t => s!"err:{t}"
  | .skip => "skip"

def valOf (s : String) : Option Val :=
  match s.splitOn ":" with
  | ["n", k] => k.toNat?.map .n
  | ["t", t] => (Wire.charsOf t).map .text
  | ["b", d] => (Bytes.ofHex d).map .bytes
  | "err" :: rest => some (.err (":".intercalate rest))
  | ["skip"] => some .skip
  | _ => none

def obsStr (o : Files.Obs) : String :=
  ";".intercalate [valStr o.ret, (match o.file with | none => "!" | some f => Bytes.toHex f), valStr o.back,
    Bytes.toHex o.txW, Bytes.toHex o.txR, Wire.sepBy "," (o.piecesW.map toString), Wire.sepBy "," (o.piecesR.map toString)]

def obsOf (s : String) : Option Files.Obs :=
  match s.splitOn ";" with
  | [r, f, b, tw, tr, pw, pr] => do
    let f ← if f == "!" then some none else (Bytes.ofHex f).map some
    pure { ret := ← valOf r, file := f, back := ← valOf b, txW := ← Bytes.ofHex tw, txR := ← Bytes.ofHex tr,
           piecesW := ← Wire.listOf String.toNat? pw, piecesR := ← Wire.listOf String.toNat? pr }
  | _ => none

def handle (toks : List String) : Option String :=
  match toks with
  | "files" :: rest =>
    let (ct, ot) := splitAt2 rest "||"
    some (match caseOf ct, ot with
    | some c, [] => obsStr (run b64 c [] [])
    | some c, [o] =>
      match obsOf o with
      | some o => obsStr (run b64 c o.piecesW o.piecesR)
      | none => "bad-op"
    | _, _ => "bad-op")
  | "spec" :: "C11" :: rest =>
    let (ct, ot) := splitAt2 rest "||"
    some (match caseOf ct, ot with
    | some c, [o] =>
      match obsOf o with
      | some o => if Spec.C11 c o then "1" else "0"
      | none => "bad-op"
    | _, _ => "bad-op")
  | _ => none

end Driver.Files
