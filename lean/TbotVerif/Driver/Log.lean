import TbotVerif.Base.Bytes
import TbotVerif.Spec.Log
/-! Driver commands of the `Log` cluster (C17).  `handle` returns `none` for commands that are not its own.

    `log ev <gv> <nest|-> <uni> <color> <lf> <ty> <kw> <v0> <nf> <msg> <pfx1> <v1> <op>*`
      → `<hdr> <stored> <docs> <step>*`
    `log pf <n> <id>/<len>[/…]*` → `<yielded> <trace>`
    `spec C17 <case…> || <obs…>` → `1` / `0`

    Text is UTF-8 in lower-case hex (`-` = empty); a *payload* is `+`-joined chunks `hex` or
    `hex*n` (repeat); an optional string is `-` (None), `_` (empty) or a payload. -/
namespace Log.Wire

def chars (t : Str) : String := Bytes.toHex (String.ofList t).toUTF8.toList

def charsOf (s : String) : Option Str := do
  let b ← Bytes.ofHex s
  let str ← String.fromUTF8? (ByteArray.mk b.toArray)
  pure str.toList

def chunk (s : String) : Option Str :=
  match s.splitOn "*" with
  | [h] => charsOf h
  | [h, n] => do
    let n ← n.toNat?
    let c ← charsOf h
    pure (List.replicate n c).flatten
  | _ => none

def payload (s : String) : Option Str :=
  if s == "-" then some [] else ((s.splitOn "+").mapM chunk).map List.flatten

def optStr (s : String) : Option (Option Str) :=
  if s == "-" then some none else if s == "_" then some (some []) else (payload s).map some

def bool (s : String) : Option Bool :=
  if s == "1" then some true else if s == "0" then some false else none

def optNat (s : String) : Option (Option Nat) :=
  if s == "-" then some none else s.toNat?.map some

def listOf {α} (sep : String) (f : String → Option α) (s : String) : Option (List α) :=
  if s == "." then some [] else (s.splitOn sep).mapM f

def sepBy (sep : String) (l : List String) : String :=
  if l.isEmpty then "." else sep.intercalate l

def pair (sep : String) (s : String) : Option (Str × Str) :=
  match s.splitOn sep with
  | [k, v] => do pure (← charsOf k, ← charsOf v)
  | _ => none

def op (s : String) : Option Op :=
  match s.splitOn ":" with
  | ["w", p] => (payload p).map .write
  | ["wl", p] => (payload p).map .writeln
  | ["sd", k] => (charsOf k).map .setData
  | ["close"] => some .close
  | _ => none

def evCase (toks : List String) : Option EvCase :=
  match toks with
  | gv :: nest :: uni :: color :: lf :: ty :: kw :: v0 :: nf :: msg :: pfx1 :: v1 :: ops => do
    let g : Glob := { verbosity := ← gv.toNat?, nesting := ← optNat nest, unicode := ← bool uni,
                      color := ← bool color, logOn := ← bool lf }
    pure { g := g, ty := ← listOf "," charsOf ty, kw := ← listOf "," (pair "/") kw,
           verb0 := ← v0.toNat?, nestFirst := ← optStr nf, msg := ← payload msg,
           pfx1 := ← optStr pfx1, verb1 := ← v1.toNat?, ops := ← ops.mapM op }
  | _ => none

def pfDoc (s : String) : Option (Nat × Nat) :=
  match s.splitOn "/" with
  | id :: len :: _ => do pure (← id.toNat?, ← len.toNat?)
  | _ => none

def pfCase (toks : List String) : Option PfCase :=
  match toks with
  | n :: docs => do pure { n := ← n.toNat?, docs := ← docs.mapM pfDoc }
  | _ => none

def case (toks : List String) : Option Case :=
  match toks with
  | "ev" :: rest => (evCase rest).map .ev
  | "pf" :: rest => (pfCase rest).map .pf
  | _ => none

def doc (d : Doc) : String :=
  sepBy ";" (d.ty.map chars) ++ "/" ++ sepBy ";" (d.data.map fun kv => chars kv.1 ++ ":" ++ chars kv.2)

def docOf (s : String) : Option Doc :=
  match s.splitOn "/" with
  | [t, d] => do pure { ty := ← listOf ";" charsOf t, data := ← listOf ";" (pair ":") d }
  | _ => none

def stepRes (s : Res × Str) : String :=
  match s.1 with
  | .wrote n => s!"w:{n}:{chars s.2}"
  | .unit => s!"u:{chars s.2}"
  | .closedErr => s!"e:{chars s.2}"

def stepResOf (s : String) : Option (Res × Str) :=
  match s.splitOn ":" with
  | ["w", n, d] => do pure (.wrote (← n.toNat?), ← charsOf d)
  | ["u", d] => do pure (.unit, ← charsOf d)
  | ["e", d] => do pure (.closedErr, ← charsOf d)
  | _ => none

def pstep : PStep → String
  | .read k => s!"r{k}"
  | .fail n => s!"f{n}"
  | .ok n i => s!"k{n}/{i}"
  | .fuel => "X"

def pstepOf (s : String) : Option PStep :=
  match s.toList with
  | 'r' :: t => (String.ofList t).toNat?.map .read
  | 'f' :: t => (String.ofList t).toNat?.map .fail
  | 'k' :: t =>
    match (String.ofList t).splitOn "/" with
    | [n, i] => do pure (.ok (← n.toNat?) (← i.toNat?))
    | _ => none
  | ['X'] => some .fuel
  | _ => none

def obs : Obs → String
  | .ev o => " ".intercalate ([chars o.hdr, chars o.stored, sepBy "," (o.docs.map doc)] ++ o.steps.map stepRes)
  | .pf o => sepBy "," (o.yielded.map toString) ++ " " ++ sepBy "," (o.trace.map pstep)

/-- the observation is parsed according to the kind of the case -/
def obsOf (c : Case) (toks : List String) : Option Obs :=
  match c, toks with
  | .ev _, h :: st :: ds :: steps => do
    pure (.ev { hdr := ← charsOf h, stored := ← charsOf st, docs := ← listOf "," docOf ds,
                steps := ← steps.mapM stepResOf })
  | .pf _, [y, t] => do
    pure (.pf { yielded := ← listOf "," String.toNat? y, trace := ← listOf "," pstepOf t })
  | _, _ => none

end Log.Wire

namespace Driver.Log

def splitAt2 (toks : List String) (sep : String) : List String × List String :=
  (toks.takeWhile (· != sep), (toks.dropWhile (· != sep)).drop 1)

def handle (toks : List String) : Option String :=
  match toks with
  | ["log", "space", n] =>
    some (match n.toNat? with
    | some n => if Log.pySpace (Char.ofNat n) then "1" else "0"
    | none => "bad-op")
  | "log" :: rest =>
    some (match Log.Wire.case rest with
    | some c => Log.Wire.obs (Log.run c)
    | none => "bad-op")
  | "spec" :: "C17" :: rest =>
    let (ct, ot) := splitAt2 rest "||"
    some (match Log.Wire.case ct with
    | some c =>
      match Log.Wire.obsOf c ot with
      | some o => if Spec.C17 c o then "1" else "0"
      | none => "bad-op"
    | none => "bad-op")
  | _ => none

end Driver.Log
