/-! Driver commands of the `Log` cluster.  `handle` returns `none` for commands that are not its own. -/
namespace Driver.Log

def handle (_toks : List String) : Option String := none

end Driver.Log
