/-! Driver commands of the `Quote` cluster.  `handle` returns `none` for commands that are not its own. -/
namespace Driver.Quote

def handle (_toks : List String) : Option String := none

end Driver.Quote
