import TbotVerif.Spec.Quote
/-! Driver commands of the `Quote` cluster.  `handle` returns `none` for commands that are not its own.

    quote esc <bash|ash> <bl> <args>      → l:<hex> | x:TypeError
    quote split <line>                    → w:<words> | hazard
    quote hush <bl> <args>                → l:<hex> | x:TypeError
    quote hsplit <line>                   → w:<words> | hazard        (hush tokenizer, for reuse)
    spec C01Q <esc…|split…> || <obs>      → 1 | 0
    spec C19Q <hush…> || <obs>            → 1 | 0

    <args>  = `.` | item{,item};  item = s:<hex> (str) | p:<hex> (linux.Path, by its at_host string)
            | r:<hex> (linux.Raw) | t:<pipe|then|and|or|bg> (static token)
            | d:<out|err|both|in|aout|aerr|aboth>:<hex> (redirection to that path) | o (unsupported object)
    <words> = `.` | hex{,hex}   (`-` = empty string).
    The token texts come from the regenerated `Params.sp…`. -/
namespace Driver.Quote
open _root_.Quote

def str (s : String) : Bytes := s.toUTF8.toList

def staticTok : String → Option Bytes
  | "pipe" => some (str Params.spPipe)
  | "then" => some (str Params.spThen)
  | "and" => some (str Params.spAndThen)
  | "or" => some (str Params.spOrElse)
  | "bg" => some (str Params.spBackground)
  | _ => none

def redirTok : String → Option (Bytes × Bytes)
  | "out" => some (str Params.spRedirStdoutPre, str Params.spRedirStdoutPost)
  | "err" => some (str Params.spRedirStderrPre, str Params.spRedirStderrPost)
  | "both" => some (str Params.spRedirBothPre, str Params.spRedirBothPost)
  | "in" => some (str Params.spRedirStdinPre, str Params.spRedirStdinPost)
  | "aout" => some (str Params.spAppendStdoutPre, str Params.spAppendStdoutPost)
  | "aerr" => some (str Params.spAppendStderrPre, str Params.spAppendStderrPost)
  | "aboth" => some (str Params.spAppendBothPre, str Params.spAppendBothPost)
  | _ => none

def arg (s : String) : Option Arg :=
  match s.splitOn ":" with
  | ["s", h] => (Bytes.ofHex h).map .str
  | ["p", h] => (Bytes.ofHex h).map .str
  | ["r", h] => (Bytes.ofHex h).map .raw
  | ["t", n] => (staticTok n).map .raw
  | ["d", n, h] => do
    let (pre, post) ← redirTok n
    pure (.redir pre (← Bytes.ofHex h) post)
  | ["o"] => some .other
  | _ => none

def args (s : String) : Option (List Arg) :=
  if s == "." then some [] else (s.splitOn ",").mapM arg

/-- U-Boot's `escape` takes strings and Specials only (a redirection needs a `linux.Path`, which
    it rejects; `p:` is therefore the unsupported-object case there) -/
def hArg (s : String) : Option Hush.Arg :=
  match s.splitOn ":" with
  | ["s", h] => (Bytes.ofHex h).map .str
  | ["r", h] => (Bytes.ofHex h).map .raw
  | ["t", n] => (staticTok n).map .raw
  | ["p", h] => (Bytes.ofHex h).map fun _ => .other
  | ["o"] => some .other
  | _ => none

def hArgs (s : String) : Option (List Hush.Arg) :=
  if s == "." then some [] else (s.splitOn ",").mapM hArg

def words (ws : List Bytes) : String :=
  if ws.isEmpty then "." else ",".intercalate (ws.map Bytes.toHex)

def wordsOf (s : String) : Option (List Bytes) :=
  if s == "." then some [] else (s.splitOn ",").mapM Bytes.ofHex

def obs : Obs → String
  | .line l => "l:" ++ Bytes.toHex l
  | .typeError => "x:TypeError"
  | .words ws => "w:" ++ words ws
  | .hazard => "hazard"

def obsOf (toks : List String) : Option Obs :=
  match toks with
  | ["hazard"] => some .hazard
  | ["x:TypeError"] => some .typeError
  | [t] =>
    match t.splitOn ":" with
    | ["l", h] => (Bytes.ofHex h).map .line
    | ["w", w] => (wordsOf w).map .words
    | _ => none
  | _ => none

def hObs : Hush.Obs → String
  | .line l => "l:" ++ Bytes.toHex l
  | .typeError => "x:TypeError"

def hObsOf (toks : List String) : Option Hush.Obs :=
  match toks with
  | ["x:TypeError"] => some .typeError
  | [t] =>
    match t.splitOn ":" with
    | ["l", h] => (Bytes.ofHex h).map .line
    | _ => none
  | _ => none

def caseOf (toks : List String) : Option Case :=
  match toks with
  | ["esc", sh, bl, a] =>
    if sh == "bash" || sh == "ash" then do pure (.esc (← Bytes.ofHex bl) (← args a)) else none
  | ["split", l] => (Bytes.ofHex l).map .split
  | _ => none

def hCaseOf (toks : List String) : Option Hush.Case :=
  match toks with
  | ["hush", bl, a] => do pure { bl := ← Bytes.ofHex bl, args := ← hArgs a }
  | _ => none

def splitAt2 (toks : List String) (sep : String) : List String × List String :=
  (toks.takeWhile (· != sep), (toks.dropWhile (· != sep)).drop 1)

def b01 (b : Bool) : String := if b then "1" else "0"

/-- `none`: not a command of this cluster -/
def handle (toks : List String) : Option String :=
  match toks with
  | "quote" :: "hsplit" :: rest =>
    some (match rest with
      | [l] => match Bytes.ofHex l with
        | some b => (match Hush.hushWords b with | some ws => "w:" ++ words ws | none => "hazard")
        | none => "bad-op"
      | _ => "bad-op")
  | "quote" :: "hush" :: rest =>
    some (match hCaseOf ("hush" :: rest) with
      | some c => hObs (Hush.run c)
      | none => "bad-op")
  | "quote" :: rest =>
    some (match caseOf rest with
      | some c => obs (run c)
      | none => "bad-op")
  | "spec" :: "C01Q" :: rest =>
    let (c, o) := splitAt2 rest "||"
    some (match caseOf c, obsOf o with
      | some c, some o => b01 (Spec.C01Q c o)
      | _, _ => "bad-op")
  | "spec" :: "C19Q" :: rest =>
    let (c, o) := splitAt2 rest "||"
    some (match hCaseOf c, hObsOf o with
      | some c, some o => b01 (Spec.C19Q c o)
      | _, _ => "bad-op")
  | _ => none

end Driver.Quote
